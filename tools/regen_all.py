"""regenerate every coq/Gen/*.v from /repo (used by setup.sh so that a full `make` can build
all proof files). Each property module exposes  regen(ctx)  when it has generated inputs."""
import importlib
import os
import sys
import glob
HERE = os.path.dirname(os.path.abspath(__file__))
sys.path.insert(0, HERE)
import vlib
vlib.ensure_repo_on_path()
rc = 0
for f in sorted(glob.glob(os.path.join(HERE, 'props', 'c*.py'))):
    name = os.path.basename(f)[:-3]
    mod = importlib.import_module('props.' + name)
    if hasattr(mod, 'regen'):
        ctx = vlib.Ctx(name.upper() + '.regen', 'quick', 0)
        try:
            mod.regen(ctx)
        except Exception as ex:  # noqa: BLE001
            print('regen %s: %s' % (name, ex))
            rc = 1
sys.exit(rc)
