"""regenerate every coq/Gen/*.v from /repo (used by setup.sh so that a full `make` can build all
proof files, and by the driver to refresh generated files that a property imports but another
property's module owns). Each property module exposes  regen(ctx)  when it has generated inputs.

  regen_all.py            regenerate everything, record which module writes which Gen file
                          in .work/gen_owners.json
"""
import glob
import importlib
import json
import os
import re
import sys
import time
import traceback

HERE = os.path.dirname(os.path.abspath(__file__))
sys.path.insert(0, HERE)
sys.path.insert(0, os.path.join(HERE, 'gen'))
import vlib  # noqa: E402

OWNERS = os.path.join(vlib.WORK, 'gen_owners.json')


def gen_snapshot():
    out = {}
    for f in glob.glob(os.path.join(vlib.COQ, 'Gen', '*.v')):
        try:
            out[os.path.basename(f)] = os.stat(f).st_mtime_ns
        except OSError:
            pass
    return out


def regen_one(name, owners=None):
    """run props.<name>.regen; returns list of Gen files it (re)wrote or touched"""
    mod = importlib.import_module('props.' + name)
    if not hasattr(mod, 'regen'):
        return []
    ctx = vlib.Ctx(name.upper() + '.regen', 'quick', 0)
    written = []
    orig_write = vlib.py2coq.write_if_changed

    def rec(path, text):
        if os.path.dirname(path).endswith('Gen'):
            written.append(os.path.basename(path))
        return orig_write(path, text)
    vlib.py2coq.write_if_changed = rec
    try:
        mod.regen(ctx)
    finally:
        vlib.py2coq.write_if_changed = orig_write
    return sorted(set(written))


def main():
    vlib.ensure_repo_on_path()
    os.makedirs(vlib.WORK, exist_ok=True)
    owners = {}
    rc = 0
    for f in sorted(glob.glob(os.path.join(HERE, 'props', 'c*.py'))):
        name = os.path.basename(f)[:-3]
        if not re.fullmatch(r'c\d\d', name):
            continue
        t = time.time()
        try:
            w = regen_one(name)
            for g in w:
                owners.setdefault(g, [])
                if name not in owners[g]:
                    owners[g].append(name)
            print('regen %s: %d files, %.1fs' % (name, len(w), time.time() - t), flush=True)
        except BaseException as ex:  # noqa: BLE001
            print('regen %s FAILED: %s' % (name, str(ex)[:200]), flush=True)
            rc = 1
    with open(OWNERS, 'w') as fh:
        json.dump(owners, fh, indent=1)
    return rc


if __name__ == '__main__':
    sys.exit(main())
