"""Python twin of coq/Spec/RV32Decode.v (decode_word) and coq/Spec/RV32Exec.v (exec): an RV32I/M
interpreter written from the RISC-V unprivileged ISA manual, independent of ppci.  Used by
tools/props/c05.py / c07.py as the search oracle (no emulator exists in the sandbox).
State: regs (list of 32 ints, x0 hard-wired to 0), pc, mem (dict address -> byte; default 0)."""

W32 = 1 << 32


def u32(z):
    return z % W32


def s32(z):
    u = z % W32
    return u if u < (1 << 31) else u - W32


def bits(w, lo, n):
    return (w >> lo) & ((1 << n) - 1)


def sext(n, v):
    return v if v < (1 << (n - 1)) else v - (1 << n)


R_OPS = {(0, 0): 'add', (32, 0): 'sub', (0, 1): 'sll', (0, 2): 'slt', (0, 3): 'sltu', (0, 4): 'xor', (0, 5): 'srl',
         (32, 5): 'sra', (0, 6): 'or', (0, 7): 'and', (1, 0): 'mul', (1, 1): 'mulh', (1, 2): 'mulhsu', (1, 3): 'mulhu',
         (1, 4): 'div', (1, 5): 'divu', (1, 6): 'rem', (1, 7): 'remu'}


def decode_word(w):
    """-> (mnemonic, operands in assembly order) or None; same table as RV32Decode.decode_word"""
    opcode, rd, f3, rs1, rs2, f7 = bits(w, 0, 7), bits(w, 7, 5), bits(w, 12, 3), bits(w, 15, 5), bits(w, 20, 5), bits(w, 25, 7)
    imm_i = sext(12, bits(w, 20, 12))
    imm_s = sext(12, bits(w, 25, 7) * 32 + bits(w, 7, 5))
    imm_b = sext(13, bits(w, 31, 1) * 4096 + bits(w, 7, 1) * 2048 + bits(w, 25, 6) * 32 + bits(w, 8, 4) * 2)
    imm_u = bits(w, 12, 20)
    imm_j = sext(21, bits(w, 31, 1) * 1048576 + bits(w, 12, 8) * 4096 + bits(w, 20, 1) * 2048 + bits(w, 21, 10) * 2)
    if opcode == 0x37:
        return ('lui', [rd, imm_u])
    if opcode == 0x17:
        return ('auipc', [rd, imm_u])
    if opcode == 0x6f:
        return ('jal', [rd, imm_j])
    if opcode == 0x67:
        return ('jalr', [rd, rs1, imm_i]) if f3 == 0 else None
    if opcode == 0x63:
        mn = {0: 'beq', 1: 'bne', 4: 'blt', 5: 'bge', 6: 'bltu', 7: 'bgeu'}.get(f3)
        return (mn, [rs1, rs2, imm_b]) if mn else None
    if opcode == 0x03:
        mn = {0: 'lb', 1: 'lh', 2: 'lw', 4: 'lbu', 5: 'lhu'}.get(f3)
        return (mn, [rd, imm_i, rs1]) if mn else None
    if opcode == 0x23:
        mn = {0: 'sb', 1: 'sh', 2: 'sw'}.get(f3)
        return (mn, [rs2, imm_s, rs1]) if mn else None
    if opcode == 0x13:
        mn = {0: 'addi', 2: 'slti', 3: 'sltiu', 4: 'xori', 6: 'ori', 7: 'andi'}.get(f3)
        if mn:
            return (mn, [rd, rs1, imm_i])
        if f3 == 1:
            return ('slli', [rd, rs1, rs2]) if f7 == 0 else None
        if f7 == 0:
            return ('srli', [rd, rs1, rs2])
        return ('srai', [rd, rs1, rs2]) if f7 == 32 else None
    if opcode == 0x33:
        mn = R_OPS.get((f7, f3))
        return (mn, [rd, rs1, rs2]) if mn else None
    if opcode == 0x73:
        if w == 0x73:
            return ('ecall', [])
        if w == 0x100073:
            return ('ebreak', [])
    return None


def decode(bs):
    if len(bs) != 4:
        return None
    return decode_word(bs[0] | bs[1] << 8 | bs[2] << 16 | bs[3] << 24)


class State:
    def __init__(self, regs=None, pc=0, mem=None):
        self.regs = [0] * 32 if regs is None else [u32(x) for x in regs]
        self.regs[0] = 0
        self.pc = u32(pc)
        self.mem = {} if mem is None else dict(mem)

    def copy(self):
        return State(self.regs, self.pc, self.mem)

    def get(self, r):
        return 0 if r == 0 else self.regs[r]

    def set(self, r, v):
        if r != 0:
            self.regs[r] = u32(v)

    def loadbyte(self, a):
        return self.mem.get(u32(a), 0) % 256

    def load_le(self, n, a):
        return sum(self.loadbyte(a + i) << (8 * i) for i in range(n))

    def store_le(self, n, a, v):
        for i in range(n):
            self.mem[u32(a + i)] = (v >> (8 * i)) & 255


def quot(a, b):
    q = abs(a) // abs(b)
    return q if (a >= 0) == (b >= 0) else -q


def alu_r(mn, a, b):
    sh = b % 32
    if mn == 'add':
        return u32(a + b)
    if mn == 'sub':
        return u32(a - b)
    if mn == 'sll':
        return u32(a << sh)
    if mn == 'slt':
        return int(s32(a) < s32(b))
    if mn == 'sltu':
        return int(a < b)
    if mn == 'xor':
        return a ^ b
    if mn == 'srl':
        return a >> sh
    if mn == 'sra':
        return u32(s32(a) >> sh)
    if mn == 'or':
        return a | b
    if mn == 'and':
        return a & b
    if mn == 'mul':
        return u32(a * b)
    if mn == 'mulh':
        return u32((s32(a) * s32(b)) >> 32)
    if mn == 'mulhsu':
        return u32((s32(a) * b) >> 32)
    if mn == 'mulhu':
        return (a * b) >> 32
    ovf = s32(a) == -(1 << 31) and s32(b) == -1
    if mn == 'div':
        return W32 - 1 if b == 0 else (1 << 31) if ovf else u32(quot(s32(a), s32(b)))
    if mn == 'divu':
        return W32 - 1 if b == 0 else a // b
    if mn == 'rem':
        return a if b == 0 else 0 if ovf else u32(s32(a) - s32(b) * quot(s32(a), s32(b)))
    if mn == 'remu':
        return a if b == 0 else a % b
    raise KeyError(mn)


def alu_i(mn, a, imm):
    if mn == 'addi':
        return u32(a + imm)
    if mn == 'slti':
        return int(s32(a) < imm)
    if mn == 'sltiu':
        return int(a < u32(imm))
    if mn == 'xori':
        return a ^ u32(imm)
    if mn == 'ori':
        return a | u32(imm)
    if mn == 'andi':
        return a & u32(imm)
    sh = imm % 32
    if mn == 'slli':
        return u32(a << sh)
    if mn == 'srli':
        return a >> sh
    if mn == 'srai':
        return u32(s32(a) >> sh)
    raise KeyError(mn)


BR = {'beq': lambda a, b: a == b, 'bne': lambda a, b: a != b, 'blt': lambda a, b: s32(a) < s32(b),
      'bge': lambda a, b: s32(a) >= s32(b), 'bltu': lambda a, b: a < b, 'bgeu': lambda a, b: a >= b}
LOADS = {'lb': (1, True), 'lh': (2, True), 'lw': (4, False), 'lbu': (1, False), 'lhu': (2, False)}
STORES = {'sb': 1, 'sh': 2, 'sw': 4}
I_OPS = ('addi', 'slti', 'sltiu', 'xori', 'ori', 'andi', 'slli', 'srli', 'srai')


class Unsupported(Exception):
    pass


def expand16(d):
    """decoded compressed instruction (mnemonic, operands of RVCDecode.decode16) -> base instruction it expands to
    (twin of Spec/RVCExec.expand16); None for c.ebreak / unknown"""
    mn, a = d
    one = {'c.jal': lambda x: ('jal', [1, x]), 'c.j': lambda x: ('jal', [0, x]), 'c.addi16sp': lambda x: ('addi', [2, 2, x]),
           'c.jr': lambda x: ('jalr', [0, x, 0]), 'c.jalr': lambda x: ('jalr', [1, x, 0])}
    two = {'c.addi4spn': lambda x, y: ('addi', [x, 2, y]), 'c.li': lambda x, y: ('addi', [x, 0, y]),
           'c.lui': lambda x, y: ('lui', [x, sext(6, y) % (1 << 20)]),
           'c.sub': lambda x, y: ('sub', [x, x, y]), 'c.xor': lambda x, y: ('xor', [x, x, y]),
           'c.or': lambda x, y: ('or', [x, x, y]), 'c.and': lambda x, y: ('and', [x, x, y]),
           'c.beqz': lambda x, y: ('beq', [x, 0, y]), 'c.bnez': lambda x, y: ('bne', [x, 0, y]),
           'c.lwsp': lambda x, y: ('lw', [x, y, 2]), 'c.swsp': lambda x, y: ('sw', [x, y, 2]),
           'c.mv': lambda x, y: ('add', [x, 0, y]), 'c.add': lambda x, y: ('add', [x, x, y])}
    three = {'c.lw': 'lw', 'c.sw': 'sw', 'c.addi': 'addi', 'c.srli': 'srli', 'c.srai': 'srai', 'c.andi': 'andi', 'c.slli': 'slli'}
    if len(a) == 1 and mn in one:
        return one[mn](a[0])
    if len(a) == 2 and mn in two:
        return two[mn](a[0], a[1])
    if len(a) == 3 and mn in three:
        return (three[mn], list(a))
    return None


def exec1(ins, s, ilen=4):
    """execute one decoded instruction in place (twin of RV32Exec.exec; ilen = 2: RVCExec.exec_len2)"""
    mn, a = ins
    nxt = s.pc + ilen
    if mn == 'lui':
        s.set(a[0], a[1] * 4096)
        s.pc = u32(nxt)
    elif mn == 'auipc':
        s.set(a[0], s.pc + a[1] * 4096)
        s.pc = u32(nxt)
    elif mn == 'jal':
        s.set(a[0], nxt)
        s.pc = u32(s.pc + a[1])
    elif mn == 'jalr':
        t = u32(s.get(a[1]) + a[2])
        s.set(a[0], nxt)
        s.pc = t - t % 2
    elif mn in BR:
        s.pc = u32(s.pc + a[2]) if BR[mn](s.get(a[0]), s.get(a[1])) else u32(nxt)
    elif mn in LOADS:
        n, sg = LOADS[mn]
        v = s.load_le(n, s.get(a[2]) + a[1])
        s.set(a[0], sext(8 * n, v) if sg else v)
        s.pc = u32(nxt)
    elif mn in STORES:
        s.store_le(STORES[mn], s.get(a[2]) + a[1], s.get(a[0]))
        s.pc = u32(nxt)
    elif mn in I_OPS:
        s.set(a[0], alu_i(mn, s.get(a[1]), a[2]))
        s.pc = u32(nxt)
    elif mn in R_OPS.values():
        s.set(a[0], alu_r(mn, s.get(a[1]), s.get(a[2])))
        s.pc = u32(nxt)
    else:
        raise Unsupported(mn)


def run(s, stop_pc, max_steps=200000):
    """fetch/decode/execute from s.pc until pc == stop_pc; returns number of steps or raises"""
    n = 0
    while s.pc != stop_pc:
        if n >= max_steps:
            raise Unsupported('step budget')
        bs = [s.loadbyte(s.pc + i) for i in range(4)]
        ins = decode(bs)
        if ins is None:
            raise Unsupported('undecodable word %s at %#x' % (bytes(bs).hex(), s.pc))
        exec1(ins, s)
        n += 1
    return n
