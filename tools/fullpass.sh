#!/bin/bash
# usage: fullpass.sh <seed> [tier] [parallelism]  — run every claimed check, summarise RESULT/VIOLATION lines
cd /verif
seed=${1:-0}; tier=${2:-quick}; par=${3:-4}
mkdir -p .work/fp-$seed
/venv/bin/python -c "import json;print('\n'.join(json.load(open('tools/props/claimed.json'))))" | \
  xargs -P $par -I{} sh -c "VERIF_SEED=$seed ./check {} --tier $tier > .work/fp-$seed/{}.log 2>&1"
grep -hE "^RESULT|^VIOLATION" .work/fp-$seed/*.log | cut -c1-200 > .work/fp-$seed/summary.txt
grep -c "exit=0" .work/fp-$seed/summary.txt
grep -E "exit=1|VIOLATION" .work/fp-$seed/summary.txt
