"""vlib — shared machinery of the /verif checks (see DESIGN.md §1.3, §2).

Every property module tools/props/cNN.py defines  run(ctx)  and uses a Ctx to
  * regenerate Coq from /repo (py2coq, table exports)           ctx.gen_T / ctx.write_gen
  * build the proof files with make (full .vo)                    ctx.build
  * compile the property file and audit Print Assumptions         ctx.check_props
  * run correspondence / search cases inside coqc (vm_compute)    ctx.run_cases
  * report violations with replay files, known findings           ctx.violation
  * write schema-valid evidence                                    (driver)
"""
import fcntl
import hashlib
import json
import os
import random
import re
import shutil
import subprocess
import sys
import time
import traceback

VERIF = os.path.dirname(os.path.dirname(os.path.abspath(__file__)))
REPO = os.environ.get('VERIF_REPO', '/repo')
COQ = os.path.join(VERIF, 'coq')
WORK = os.path.join(VERIF, '.work')
PY = '/venv/bin/python'

sys.path.insert(0, os.path.join(VERIF, 'tools'))
import py2coq  # noqa: E402

ALLOWED_AXIOMS = {
    # standard-library axioms the brief allows; each is reported in the evidence when it occurs
    'functional_extensionality_dep', 'FunctionalExtensionality.functional_extensionality_dep',
    'Eqdep.Eq_rect_eq.eq_rect_eq', 'Eq_rect_eq.eq_rect_eq', 'JMeq_eq', 'JMeq.JMeq_eq',
    'Classical_Prop.classic', 'classic', 'ProofIrrelevance.proof_irrelevance', 'proof_irrelevance',
}


def impl_env():
    env = dict(os.environ)
    env['PYTHONPATH'] = REPO
    env['PYTHONHASHSEED'] = '0'
    env['PYTHONDONTWRITEBYTECODE'] = '1'
    return env


def ensure_repo_on_path():
    """make `import ppci` resolve to /repo's working tree inside this process"""
    if REPO not in sys.path:
        sys.path.insert(0, REPO)
    sys.dont_write_bytecode = True
    import ppci  # noqa: F401
    assert os.path.abspath(ppci.__file__).startswith(os.path.abspath(REPO)), ppci.__file__


# ------------------------------------------------------------------ Coq values
def coq_z(v):
    return str(v) if v >= 0 else '(%d)' % v


def coq_str(s):
    out = []
    for ch in s:
        o = ord(ch)
        if ch == '"':
            out.append('""')
        elif 32 <= o < 127:
            out.append(ch)
        else:
            raise ValueError('non-printable in coq_str; encode as bytes instead')
    return '"' + ''.join(out) + '"%string'


class Diag:
    """marker: the implementation raised its documented error"""


class Internal:
    """marker: the implementation raised any other exception"""


class Rec(tuple):
    """a tuple rendered as VT"""


def to_val(v):
    """render a Python value as a Coq [val] term"""
    if v is Diag or isinstance(v, Diag):
        return 'VDiag'
    if v is Internal or isinstance(v, Internal):
        return 'VInternal'
    if v is None:
        return 'VNone'
    if isinstance(v, bool):
        return 'VB true' if v else 'VB false'
    if isinstance(v, int):
        return 'VZ %s' % coq_z(v)
    if isinstance(v, str):
        return 'VS %s' % coq_str(v)
    if isinstance(v, (bytes, bytearray)):
        return 'VL [%s]' % '; '.join('VZ %d' % b for b in v)
    if isinstance(v, tuple):
        return 'VT [%s]' % '; '.join(to_val(x) for x in v)
    if isinstance(v, list):
        return 'VL [%s]' % '; '.join(to_val(x) for x in v)
    if isinstance(v, OkV):
        return 'VOk (%s)' % to_val(v.v)
    raise TypeError('to_val: %r' % (v,))


class OkV:
    def __init__(self, v):
        self.v = v


def to_term(v):
    """render a Python value as a plain Coq term (Z / bool / list / tuple)"""
    if isinstance(v, bool):
        return 'true' if v else 'false'
    if isinstance(v, int):
        return coq_z(v)
    if isinstance(v, (bytes, bytearray)):
        return '[%s]' % '; '.join(str(b) for b in v)
    if isinstance(v, list):
        return '[%s]' % '; '.join(to_term(x) for x in v)
    if isinstance(v, tuple):
        return '(%s)' % ', '.join(to_term(x) for x in v)
    if isinstance(v, str):
        return coq_str(v)
    raise TypeError('to_term: %r' % (v,))


def call_impl(fn, args, diag=(ValueError, TypeError)):
    """run an implementation function; map the outcome to OkV / Diag / Internal"""
    try:
        return OkV(fn(*args))
    except diag:
        return Diag
    except RecursionError:
        return Internal
    except Exception:   # noqa: BLE001
        return Internal


# ------------------------------------------------------------------ context
class TieBroken(Exception):
    """the model could not be regenerated / rebuilt from the current source"""


class Ctx:
    def __init__(self, prop, tier, seed):
        self.prop = prop
        self.tier = tier
        self.seed = seed
        self.rng = random.Random(seed)
        self.t0 = time.time()
        # private scratch directory per run (concurrent runs of one property must not wipe each
        # other's generated case files); removed at exit, stale ones (> 6 h) are swept here
        base = os.path.join(WORK, prop)
        os.makedirs(base, exist_ok=True)
        try:
            for d in os.listdir(base):
                dp = os.path.join(base, d)
                if os.path.isdir(dp) and time.time() - os.stat(dp).st_mtime > 6 * 3600:
                    shutil.rmtree(dp, ignore_errors=True)
        except OSError:
            pass
        self.work = os.path.join(base, 'run-%d' % os.getpid())
        shutil.rmtree(self.work, ignore_errors=True)
        os.makedirs(self.work, exist_ok=True)
        import atexit
        atexit.register(shutil.rmtree, self.work, True)
        self.violations = []      # (replay path, found_input: bool)
        self.known_hits = []
        self.cov = {'evaluations': 0, 'distinct_nontrivial': 0, 'samples': [], 'rule': '',
                    'obligations': 0, 'discharged': 0, 'checker_cmd': '', 'trusted_base': [],
                    'stages': {}}
        self.assumptions = []
        self.failed_stages = []
        self.known = [k for k in load_known() if k.get('property') == prop]
        self.log_lines = []
        self.nreplay = 0
        self.theorems = []
        self.axioms = {}

    # ---- logging
    def log(self, *a):
        s = ' '.join(str(x) for x in a)
        self.log_lines.append(s)
        print('[%s] %s' % (self.prop, s), flush=True)

    def quick(self):
        return self.tier == 'quick'

    # ---- T tie
    def gen_T(self, modname, pyfile_rel, entries, imports=(), known=None):
        """regenerate coq/Gen/<modname>.v from /repo/<pyfile_rel>; returns (infos, hashes)"""
        pyfile = os.path.join(REPO, pyfile_rel)
        try:
            text, infos, hashes = py2coq.translate_module(pyfile, entries, imports, known=known)
        except (py2coq.Unsupported, SyntaxError, OSError) as ex:
            self.log('py2coq cannot translate %s: %s' % (pyfile_rel, ex))
            self.failed_stages.append(('translate', '%s: %s' % (pyfile_rel, ex)))
            raise TieBroken(str(ex))
        path = os.path.join(COQ, 'Gen', modname + '.v')
        changed = py2coq.write_if_changed(path, text)
        self.cov['stages']['gen_' + modname] = {'file': pyfile_rel, 'functions': hashes,
                                                'changed_on_disk': changed}
        return infos, hashes

    def write_gen(self, modname, text):
        path = os.path.join(COQ, 'Gen', modname + '.v')
        return py2coq.write_if_changed(path, text)

    # ---- build
    def build(self, targets, timeout=1500):
        """make the given .vo targets (paths relative to coq/); full .vo build under a lock"""
        os.makedirs(WORK, exist_ok=True)
        with open(os.path.join(WORK, 'build.lock'), 'w') as lk:
            fcntl.flock(lk, fcntl.LOCK_EX)
            ensure_makefile()
            t = time.time()
            p = subprocess.run(['timeout', str(timeout), 'make', '-C', COQ, '-j16', '-k'] + targets,
                               stdout=subprocess.PIPE, stderr=subprocess.STDOUT, text=True)
            fcntl.flock(lk, fcntl.LOCK_UN)
        out = strip_noise(p.stdout)
        ok = p.returncode == 0
        self.cov['stages'].setdefault('build', []).append(
            {'targets': targets, 'ok': ok, 'wall_s': round(time.time() - t, 1)})
        if not ok:
            self.log('BUILD FAILED for', targets)
            self.log(out[-3000:])
            self.failed_stages.append(('build', out[-3000:]))
        return ok, out

    def check_props(self, vfile, timeout=600):
        """compile Props/<vfile> directly with coqc (so Print Assumptions output is captured),
        audit the assumptions; records obligations/discharged"""
        path = os.path.join(COQ, vfile)
        src = open(path).read()
        thms = re.findall(r'^\s*(?:Theorem|Lemma|Corollary)\s+([A-Za-z0-9_\']+)', src, re.M)
        gate = '; '.join(gate_closure(vfile)) or None
        cmd = ['timeout', str(timeout), 'coqc', '-Q', COQ, 'PV', path]
        p = subprocess.run(cmd, stdout=subprocess.PIPE, stderr=subprocess.STDOUT, text=True, cwd=COQ)
        out = strip_noise(p.stdout)
        self.cov['checker_cmd'] = 'make -C coq %s && coqc -Q coq PV coq/%s' % (
            vfile.replace('.v', '.vo'), vfile)
        self.cov['obligations'] += len(thms)
        self.theorems += thms
        if p.returncode != 0 or gate:
            self.log('PROPS FAILED', vfile, gate or '')
            self.log(out[-3000:])
            self.failed_stages.append(('props', (gate or '') + out[-3000:]))
            return False
        # parse Print Assumptions blocks
        blocks = re.split(r'(?=^Closed under the global context|^Axioms:)', out, flags=re.M)
        nblocks = 0
        bad = []
        for b in blocks:
            if b.startswith('Closed under the global context'):
                nblocks += 1
            elif b.startswith('Axioms:'):
                nblocks += 1
                names = re.findall(r'^([A-Za-z_][A-Za-z0-9_.\']*)\s*:', b[len('Axioms:'):], re.M)
                for n in names:
                    self.axioms[n] = self.axioms.get(n, 0) + 1
                    if n not in ALLOWED_AXIOMS and n.split('.')[-1] not in ALLOWED_AXIOMS:
                        bad.append(n)
        nprint = len(re.findall(r'^\s*Print Assumptions', src, re.M))
        if bad:
            self.log('DISALLOWED AXIOMS', bad)
            self.failed_stages.append(('axioms', ', '.join(bad)))
            return False
        if nprint < len(thms) or nblocks < nprint:
            self.log('Print Assumptions missing: theorems=%d prints=%d blocks=%d' % (len(thms), nprint, nblocks))
            self.failed_stages.append(('axioms', 'Print Assumptions missing for some theorem in ' + vfile))
            return False
        self.cov['discharged'] += len(thms)
        if self.tier == 'thorough' and os.environ.get('VERIF_COQCHK', '1') != '0':
            if not self.coqchk(vfile):
                return False
        return True

    def coqchk(self, vfile, timeout=1500):
        """thorough tier: re-check the compiled property file and everything it depends on with the
        independent checker, and read the axioms it reports (Print Assumptions covers the theorem,
        coqchk -o covers every loaded library)"""
        mod = 'PV.' + vfile[:-2].replace('/', '.')
        t = time.time()
        try:
            p = subprocess.run(['timeout', str(timeout), 'coqchk', '-o', '-silent', '-Q', COQ, 'PV', mod],
                               stdout=subprocess.PIPE, stderr=subprocess.STDOUT, text=True, cwd=COQ)
        except OSError as ex:
            self.cov['stages']['coqchk'] = {'ran': False, 'why': str(ex)}
            return True
        out = strip_noise(p.stdout)
        info = {'module': mod, 'wall_s': round(time.time() - t, 1), 'rc': p.returncode}
        if p.returncode == 124:
            info['result'] = 'timeout (not counted as a failure)'
            self.cov['stages']['coqchk'] = info
            return True
        m = re.search(r'\* Axioms:(.*?)\n\s*\n\* ', out, re.S)
        axioms = []
        if m and '<none>' not in m.group(1):
            axioms = [a.strip() for a in m.group(1).strip().splitlines() if a.strip()]
        info['axioms'] = axioms
        unsafe = []
        for key in ('type-in-type', 'unsafe (co)fixpoints', 'positivity is assumed'):
            mm = re.search(re.escape(key) + r':(.*?)(?:\n\s*\n|$)', out, re.S)
            if mm and '<none>' not in mm.group(1):
                unsafe.append(key)
        info['unsafe'] = unsafe
        self.cov['stages']['coqchk'] = info
        bad = [a for a in axioms if a.split()[0].split('.')[-1] not in ALLOWED_AXIOMS
               and a.split()[0] not in ALLOWED_AXIOMS]
        if p.returncode != 0 or unsafe or bad:
            self.log('COQCHK problem:', out[-1500:])
            self.failed_stages.append(('coqchk', 'rc=%s unsafe=%s axioms=%s' % (p.returncode, unsafe, bad)))
            return False
        self.cov['trusted_base'] = self.cov.get('trusted_base', []) + [
            'coqchk -o on %s: axioms %s' % (mod, axioms or 'none')]
        return True

    # ---- cases in coqc
    def run_cases(self, name, imports, cases, shard=400, timeout=900):
        """cases: list of (model_term_text, impl_value) where model_term_text is a Coq term of a
        type with a ToVal instance and impl_value a Python value for to_val().
        Returns list of indices that disagree (empty list = agreement); None on coqc failure."""
        files = []
        for k in range(0, len(cases), shard):
            chunk = cases[k:k + shard]
            path = os.path.join(self.work, 'cases_%s_%d.v' % (name, k // shard))
            with open(path, 'w') as f:
                f.write('From PV Require Import Lib.Py Lib.Val.\n')
                for imp in imports:
                    f.write('From PV Require Import %s.\n' % imp)
                f.write('From Coq Require Import String.\nOpen Scope Z_scope.\n')
                f.write('Definition cs : list (Z * val * val) := [\n')
                f.write(';\n'.join('(%d, toval (%s), %s)' % (k + i, m, to_val(v))
                                   for i, (m, v) in enumerate(chunk)))
                f.write('].\nEval vm_compute in bad_casesZ cs.\n')
            files.append(path)
        procs = []
        bad = []
        failed = False
        maxpar = 8
        idx = 0
        running = []
        outs = {}

        def start(path):
            return subprocess.Popen(['timeout', str(timeout), 'coqc', '-Q', COQ, 'PV', path],
                                    stdout=subprocess.PIPE, stderr=subprocess.STDOUT, text=True,
                                    cwd=self.work)
        pending = list(files)
        while pending or running:
            while pending and len(running) < maxpar:
                pth = pending.pop(0)
                running.append((pth, start(pth)))
            pth, pr = running.pop(0)
            out, _ = pr.communicate()
            outs[pth] = (pr.returncode, strip_noise(out))
        # a cases file can fail to compile transiently when another process is rebuilding a .vo it
        # imports (inconsistent-assumptions / bad-magic errors): retry such files once, sequentially
        for pth in files:
            rc, out = outs[pth]
            if rc != 0 and rc != 124 and re.search(
                    r'inconsistent assumptions|bad version|Cannot find a physical path|corrupted|'
                    r'End_of_file|Compiled library .* makes inconsistent', out):
                time.sleep(20)
                pr = start(pth)
                o2, _ = pr.communicate()
                outs[pth] = (pr.returncode, strip_noise(o2))
        for pth in files:
            rc, out = outs[pth]
            if rc != 0:
                self.log('cases file failed to compile:', pth)
                self.log(out[-2000:])
                failed = True
                continue
            m = re.search(r'=\s*\[(.*?)\]\s*:\s*list Z', out, re.S)
            if not m:
                self.log('cannot parse coqc output', out[-500:])
                failed = True
                continue
            bad += [int(x) for x in re.findall(r'\d+', m.group(1))]
        self.cov['evaluations'] += len(cases)
        if failed:
            self.failed_stages.append(('cases_' + name, 'coqc failed on a generated cases file'))
            return None
        return sorted(set(bad))

    def eval_terms(self, name, imports, terms, timeout=600):
        """evaluate Coq terms (each with ToVal) and return the printed raw text (diagnostics only)"""
        path = os.path.join(self.work, 'eval_%s.v' % name)
        with open(path, 'w') as f:
            f.write('From PV Require Import Lib.Py Lib.Val.\n')
            for imp in imports:
                f.write('From PV Require Import %s.\n' % imp)
            f.write('From Coq Require Import String.\nOpen Scope Z_scope.\n')
            for t in terms:
                f.write('Eval vm_compute in toval (%s).\n' % t)
        p = subprocess.run(['timeout', str(timeout), 'coqc', '-Q', COQ, 'PV', path],
                           stdout=subprocess.PIPE, stderr=subprocess.STDOUT, text=True, cwd=self.work)
        return strip_noise(p.stdout)

    # ---- reporting
    def note_sample(self, s):
        if len(self.cov['samples']) < 12:
            self.cov['samples'].append(s)

    def known_match(self, rec):
        """rec: dict describing a concrete failing case. A known-finding entry matches when every
        key of its 'match' dict equals the corresponding key in rec."""
        for k in self.known:
            if k.get('status') != 'known':
                continue
            m = k.get('match', {})
            if all(rec.get(a) == b for a, b in m.items()):
                return k
        return None

    def violation(self, rec, found_input=True):
        """report a violation. rec must be JSON-serialisable and describe the replay."""
        k = self.known_match(rec) if found_input else None
        if k is not None:
            key = json.dumps(k.get('match'), sort_keys=True)
            if key not in [h[0] for h in self.known_hits]:
                self.known_hits.append((key, k))
                print('KNOWN-FINDING: property=%s %s' % (self.prop, k.get('what', '')), flush=True)
            return False
        # one replay per distinct violation class (key), at most 25 replay files per run
        dkey = str(rec.get('key', rec.get('fn', rec.get('what', ''))))
        self.vkeys = getattr(self, 'vkeys', {})
        self.vkeys[dkey] = self.vkeys.get(dkey, 0) + 1
        if found_input and (self.vkeys[dkey] > 1 or self.nreplay >= 25):
            return True
        self.nreplay += 1
        os.makedirs(os.path.join(VERIF, 'replays'), exist_ok=True)
        path = os.path.join(VERIF, 'replays', '%s-%d-%d.json' % (self.prop, self.seed, self.nreplay))
        rec = dict(rec)
        rec.setdefault('property', self.prop)
        rec['kind'] = 'counterexample' if found_input else 'unproved'
        rec['failed_stages'] = [list(x) for x in self.failed_stages][-6:]
        with open(path, 'w') as f:
            json.dump(rec, f, indent=1, default=str)
        self.violations.append((path, found_input))
        if len(self.violations) <= 5:
            print('VIOLATION property=%s replay=%s%s' % (
                self.prop, path, '' if found_input else ' no-failing-input-found'), flush=True)
        return True

    def finish_unproved(self, what):
        """called at the end when a stage failed and no concrete failing input was found"""
        if self.failed_stages and not any(f for _, f in self.violations):
            self.violation({'what': what, 'stages': [s for s, _ in self.failed_stages]},
                           found_input=False)


def strip_noise(s):
    return '\n'.join(l for l in s.splitlines() if 'conda.cli.condarc' not in l)


FORBIDDEN = re.compile(
    r'\b(Admitted|admit|Axiom|Axioms|Parameter|Parameters|Conjecture|Admit Obligations|'
    r'Unset Guard Checking|Unset Positivity Checking|Unset Universe Checking|bypass_check|'
    r'native_compute|Abort All)\b')


def forbidden_in(src):
    src = re.sub(r'\(\*.*?\*\)', '', src, flags=re.S)
    m = FORBIDDEN.search(src)
    return ('forbidden construct: ' + m.group(0)) if m else None


def required_modules(src):
    """PV modules named in the Require statements of a (comment-free) Coq source, as 'Dir.Name'"""
    out = []
    for m in re.finditer(r'From\s+PV\s+Require\s+(?:Import\s+|Export\s+)?(.*?)\.(?=\s|$)', src, flags=re.S):
        out += m.group(1).split()
    for m in re.finditer(r'(?<!PV\s)Require\s+(?:Import\s+|Export\s+)?(.*?)\.(?=\s|$)', src, flags=re.S):
        out += [x[3:] for x in m.group(1).split() if x.startswith('PV.')]
    return out


def import_closure(vfile):
    """set of coq/-relative .v files that vfile transitively requires from PV.* (including itself)"""
    seen, todo = set(), [vfile]
    while todo:
        f = todo.pop()
        if f in seen:
            continue
        seen.add(f)
        p = os.path.join(COQ, f)
        if not os.path.exists(p):
            continue
        src = re.sub(r'\(\*.*?\*\)', '', open(p).read(), flags=re.S)
        for mod in required_modules(src):
            todo.append(mod.replace('.', '/') + '.v')
    return seen


def gate_closure(vfile):
    """grep gate over vfile and every PV.* file it (transitively) requires"""
    seen, todo, bad = set(), [vfile], []
    while todo:
        f = todo.pop()
        if f in seen:
            continue
        seen.add(f)
        p = os.path.join(COQ, f)
        if not os.path.exists(p):
            continue
        raw = open(p).read()
        g = forbidden_in(raw)
        if g:
            bad.append('%s: %s' % (f, g))
        src = re.sub(r'\(\*.*?\*\)', '', raw, flags=re.S)
        depth = 0
        for line in src.splitlines():
            if re.match(r'\s*Section\b', line):
                depth += 1
            elif re.match(r'\s*End\b', line) and depth > 0:
                depth -= 1
            elif depth == 0 and re.match(r'\s*(Variable|Variables|Hypothesis|Hypotheses|Context)\b', line):
                bad.append('%s: section-less %s' % (f, line.strip()[:40]))
        for mod in required_modules(src):
            todo.append(mod.replace('.', '/') + '.v')
    return bad


def gate_all():
    """grep gate over the whole development (hand-written and generated files)"""
    bad = []
    for root, _, files in os.walk(COQ):
        for fn in files:
            if fn.endswith('.v'):
                p = os.path.join(root, fn)
                g = forbidden_in(open(p).read())
                if g:
                    bad.append('%s: %s' % (os.path.relpath(p, COQ), g))
                src = re.sub(r'\(\*.*?\*\)', '', open(p).read(), flags=re.S)
                # Variable/Hypothesis outside a section
                depth = 0
                for line in src.splitlines():
                    if re.match(r'\s*Section\b', line):
                        depth += 1
                    elif re.match(r'\s*End\b', line) and depth > 0:
                        depth -= 1
                    elif depth == 0 and re.match(r'\s*(Variable|Variables|Hypothesis|Hypotheses|Context)\b', line):
                        bad.append('%s: section-less %s' % (os.path.relpath(p, COQ), line.strip()[:40]))
    return bad


def ensure_makefile():
    """(re)generate _CoqProject and Makefile when the set of .v files changed"""
    vs = []
    for d in ('Lib', 'Spec', 'Gen', 'Model', 'Proofs', 'Props'):
        dd = os.path.join(COQ, d)
        if os.path.isdir(dd):
            for root, _, files in os.walk(dd):
                for fn in sorted(files):
                    if fn.endswith('.v') and not fn.startswith('.'):
                        vs.append(os.path.relpath(os.path.join(root, fn), COQ))
    vs.sort()
    text = '-Q . PV\n-arg -w -arg -notation-overridden,-deprecated-hint-without-locality,-deprecated-instance-without-locality\n' + '\n'.join(vs) + '\n'
    proj = os.path.join(COQ, '_CoqProject')
    if not os.path.exists(proj) or open(proj).read() != text or not os.path.exists(os.path.join(COQ, 'Makefile')):
        with open(proj, 'w') as f:
            f.write(text)
        subprocess.run(['coq_makefile', '-f', '_CoqProject', '-o', 'Makefile'], cwd=COQ,
                       stdout=subprocess.DEVNULL, stderr=subprocess.DEVNULL, check=True)


def load_known():
    p = os.path.join(VERIF, 'known_findings.json')
    if not os.path.exists(p):
        return []
    return json.load(open(p)).get('findings', [])


def boundary_pool(maxbits=70):
    s = set([0, 1, -1, 2, -2, 3, 5, 7, 10, 100, 127, 128, 129, 255, 256, 257, 1000])
    for k in list(range(1, 18)) + [24, 31, 32, 33, 63, 64, 65, maxbits]:
        for d in (-1, 0, 1):
            s.add((1 << k) + d)
            s.add(-(1 << k) + d)
    return sorted(s)
