"""irimport — ppci.ir.Module  ->  canonical structure  ->  Coq term / Python nested tuples.

Public functions
    module_to_py(m, allow_dangling=False) -> nested tuples/lists   (the canonical structure)
    py_to_coq(t)                          -> str  Coq term of type Spec.IRSyntax.modul
    module_to_coq(m)                      -> str  == py_to_coq(module_to_py(m))
    float_bits(x) / bits_float(b)         -> IEEE-754 binary64 bit pattern <-> float
    diff_py(a, b)                         -> None | str   first difference of two canonical structures

Both renderings come from ONE intermediate structure (the value returned by module_to_py), so the
Coq term and the Python value cannot disagree.  vlib.to_val(module_to_py(m)) is exactly the Coq
value `toval (<module_to_coq(m)>)` (Spec/IRSyntax.v, section "printing").

Canonical structure (lists are Python lists, everything else tuples / str / int / bool / None):
    module  = (name, [ext], [gvar], [func])
    ext     = ('evar', name) | ('efunc', name, [ty], ty) | ('eproc', name, [ty])
    gvar    = (name, 'global'|'local', amount, alignment, None | [init])
    init    = ('bytes', b'...') | ('ref', ty, label)
    func    = (name, 'global'|'local', ty | None, [(pname, ty)], [block])
    block   = (bid, name, [instr])
    ty      = 'i8'...'u64' | 'f32' | 'f64' | 'ptr' | ('blob', size, alignment)
    ref     = ('loc', vid) | ('param', n) | ('glob', name) | ('unres', name)
    cst     = ('int', z) | ('float', bits64)
    instr   = ('const', vid, name, ty, cst) | ('binop', vid, name, ty, op, a, b)
            | ('unop', vid, name, ty, op, a) | ('cast', vid, name, ty, a)
            | ('load', vid, name, ty, addr, volatile) | ('store', value, addr, volatile)
            | ('alloc', vid, name, size, alignment) | ('addressof', vid, name, a)
            | ('literal', vid, name, b'...') | ('copyblob', dst, src, amount)
            | ('phi', vid, name, ty, [(bid, ref)])   (dict insertion order)
            | ('undefined', vid, name, ty) | ('callf', vid, name, ty, callee, [ref])
            | ('callp', callee, [ref]) | ('jump', bid) | ('cjump', a, cond, b, yes, no)
            | ('return', a) | ('exit',)
ids: vid k = k-th value-defining instruction of the function in print order (1-based);
bid k = k-th block.  Fail-closed: anything not representable raises NotRepresentable.
"""
import struct

from ppci import ir


class NotRepresentable(Exception):
    pass


BASIC = ('i8', 'i16', 'i32', 'i64', 'u8', 'u16', 'u32', 'u64', 'f32', 'f64', 'ptr')
TY_COQ = {n: n.upper() if n != 'ptr' else 'Ptr' for n in BASIC}
BINOPS = {'+': 'Add', '-': 'Sub', '*': 'Mul', '/': 'Div', '%': 'Rem', '|': 'Or', '&': 'And',
          '^': 'Xor', '<<': 'Shl', '>>': 'Shr', 'rol': 'Rol', 'ror': 'Ror'}
UNOPS = {'-': 'Neg', '~': 'Inv'}
CONDS = {'==': 'Ceq', '<': 'Clt', '>': 'Cgt', '>=': 'Cge', '<=': 'Cle', '!=': 'Cne'}
BINDINGS = {'global': 'BGlobal', 'local': 'BLocal'}


def float_bits(x):
    return int.from_bytes(struct.pack('<d', x), 'little')


def bits_float(b):
    return struct.unpack('<d', b.to_bytes(8, 'little'))[0]


def _name(s):
    if not isinstance(s, str):
        raise NotRepresentable('name is not a str: %r' % (s,))
    for ch in s:
        if not 32 <= ord(ch) < 127:
            raise NotRepresentable('non-printable character in name %r' % (s,))
    return s


def _int(v, what):
    if isinstance(v, bool) or not isinstance(v, int):
        raise NotRepresentable('%s is not an int: %r' % (what, v))
    return v


def _ty(t):
    if isinstance(t, ir.BlobDataTyp):
        return ('blob', _int(t.size, 'blob size'), _int(t.alignment, 'blob alignment'))
    if isinstance(t, (ir.BasicTyp, ir.PointerTyp)) and t.name in BASIC and getattr(ir, t.name) is t:
        return t.name
    raise NotRepresentable('type %r' % (t,))


def _binding(b):
    if b not in BINDINGS:
        raise NotRepresentable('binding %r' % (b,))
    return b


def module_to_py(m, allow_dangling=False):
    if not isinstance(m, ir.Module):
        raise NotRepresentable('not an ir.Module')
    gobjs = {}          # id(global value object) -> name
    gcount = {}
    for g in list(m.externals) + list(m.variables) + list(m.functions):
        gobjs[id(g)] = _name(g.name)
        gcount[g.name] = gcount.get(g.name, 0) + 1

    exts = []
    for e in m.externals:
        if isinstance(e, ir.ExternalFunction):
            exts.append(('efunc', _name(e.name), [_ty(t) for t in e.argument_types], _ty(e.return_ty)))
        elif isinstance(e, ir.ExternalProcedure):
            exts.append(('eproc', _name(e.name), [_ty(t) for t in e.argument_types]))
        elif isinstance(e, ir.ExternalVariable):
            exts.append(('evar', _name(e.name)))
        else:
            raise NotRepresentable('external %r' % (e,))

    gvars = []
    for v in m.variables:
        if not isinstance(v, ir.Variable):
            raise NotRepresentable('variable %r' % (v,))
        if v.value is None:
            val = None
        elif isinstance(v.value, tuple):
            val = []
            for part in v.value:
                if isinstance(part, bytes):
                    val.append(('bytes', bytes(part)))
                elif isinstance(part, tuple) and len(part) == 2 and isinstance(part[0], ir.Typ) \
                        and isinstance(part[1], str):
                    val.append(('ref', _ty(part[0]), _name(part[1])))
                else:
                    raise NotRepresentable('initializer part %r of %s' % (part, v.name))
        else:
            raise NotRepresentable('initializer %r of %s' % (v.value, v.name))
        gvars.append((_name(v.name), _binding(v.binding), _int(v.amount, 'amount'),
                      _int(v.alignment, 'alignment'), val))

    funcs = [_func(f, gobjs, gcount, allow_dangling) for f in m.functions]
    return (_name(m.name), exts, gvars, funcs)


def _func(f, gobjs, gcount, allow_dangling):
    if isinstance(f, ir.Function):
        ret = _ty(f.return_ty)
    elif isinstance(f, ir.Procedure):
        ret = None
    else:
        raise NotRepresentable('subroutine %r' % (f,))
    params = {}
    plist = []
    for k, p in enumerate(f.arguments):
        if not isinstance(p, ir.Parameter):
            raise NotRepresentable('parameter %r' % (p,))
        params[id(p)] = k
        plist.append((_name(p.name), _ty(p.ty)))
    if f.blocks and f.entry is not f.blocks[0]:
        raise NotRepresentable('entry block of %s is not the first block' % f.name)
    bids = {}
    vids = {}
    for k, b in enumerate(f.blocks):
        if not isinstance(b, ir.Block):
            raise NotRepresentable('block %r' % (b,))
        if id(b) in bids:
            raise NotRepresentable('block %s listed twice' % b.name)
        bids[id(b)] = k + 1
        for ins in b.instructions:
            if isinstance(ins, ir.Value):
                if id(ins) in vids:
                    raise NotRepresentable('instruction %s listed twice' % ins.name)
                vids[id(ins)] = len(vids) + 1

    def ref(v):
        if id(v) in vids:
            return ('loc', vids[id(v)])
        if id(v) in params:
            return ('param', params[id(v)])
        if id(v) in gobjs:
            if gcount[v.name] != 1:
                raise NotRepresentable('reference to ambiguous module-level name %s' % v.name)
            return ('glob', gobjs[id(v)])
        if allow_dangling and isinstance(v, ir.Value):
            return ('unres', _name(v.name))
        raise NotRepresentable('reference to a value outside the function/module: %r' % (v,))

    def bref(b):
        if id(b) not in bids:
            raise NotRepresentable('jump/phi reference to a block outside the function: %r' % (b,))
        return bids[id(b)]

    def vol(x):
        if not isinstance(x, bool):
            raise NotRepresentable('volatile flag %r' % (x,))
        return x

    blocks = []
    for b in f.blocks:
        out = []
        for i in b.instructions:
            T = type(i)
            if T in (ir.Const, ir.Binop, ir.Unop, ir.Cast, ir.Load, ir.Alloc, ir.AddressOf,
                     ir.LiteralData, ir.Phi, ir.Undefined, ir.FunctionCall):
                v, n = vids[id(i)], _name(i.name)
            if T is ir.Const:
                if isinstance(i.value, bool):
                    raise NotRepresentable('bool constant')
                if isinstance(i.value, int):
                    c = ('int', i.value)
                elif isinstance(i.value, float):
                    c = ('float', float_bits(i.value))
                else:
                    raise NotRepresentable('constant %r' % (i.value,))
                out.append(('const', v, n, _ty(i.ty), c))
            elif T is ir.Binop:
                if i.operation not in BINOPS:
                    raise NotRepresentable('binop %r' % (i.operation,))
                out.append(('binop', v, n, _ty(i.ty), i.operation, ref(i.a), ref(i.b)))
            elif T is ir.Unop:
                if i.operation not in UNOPS:
                    raise NotRepresentable('unop %r' % (i.operation,))
                out.append(('unop', v, n, _ty(i.ty), i.operation, ref(i.a)))
            elif T is ir.Cast:
                out.append(('cast', v, n, _ty(i.ty), ref(i.src)))
            elif T is ir.Load:
                out.append(('load', v, n, _ty(i.ty), ref(i.address), vol(i.volatile)))
            elif T is ir.Store:
                out.append(('store', ref(i.value), ref(i.address), vol(i.volatile)))
            elif T is ir.Alloc:
                if _ty(i.ty) != ('blob', i.amount, i.alignment):
                    raise NotRepresentable('alloc whose type is not blob<amount:alignment>')
                out.append(('alloc', v, n, _int(i.amount, 'amount'), _int(i.alignment, 'alignment')))
            elif T is ir.AddressOf:
                if i.ty is not ir.ptr:
                    raise NotRepresentable('addressof with non-ptr type')
                out.append(('addressof', v, n, ref(i.src)))
            elif T is ir.LiteralData:
                if not isinstance(i.data, bytes) or _ty(i.ty) != ('blob', len(i.data), 1):
                    raise NotRepresentable('literal data %r' % (i,))
                out.append(('literal', v, n, bytes(i.data)))
            elif T is ir.CopyBlob:
                out.append(('copyblob', ref(i.dst), ref(i.src), _int(i.amount, 'amount')))
            elif T is ir.Phi:
                out.append(('phi', v, n, _ty(i.ty), [(bref(bb), ref(vv)) for bb, vv in i.inputs.items()]))
            elif T is ir.Undefined:
                out.append(('undefined', v, n, _ty(i.ty)))
            elif T is ir.FunctionCall:
                out.append(('callf', v, n, _ty(i.ty), ref(i.callee), [ref(a) for a in i.arguments]))
            elif T is ir.ProcedureCall:
                out.append(('callp', ref(i.callee), [ref(a) for a in i.arguments]))
            elif T is ir.Jump:
                out.append(('jump', bref(i.target)))
            elif T is ir.CJump:
                if i.cond not in CONDS:
                    raise NotRepresentable('condition %r' % (i.cond,))
                out.append(('cjump', ref(i.a), i.cond, ref(i.b), bref(i.lab_yes), bref(i.lab_no)))
            elif T is ir.Return:
                out.append(('return', ref(i.result)))
            elif T is ir.Exit:
                out.append(('exit',))
            else:
                raise NotRepresentable('instruction %r (%s)' % (i, T.__name__))
        blocks.append((bids[id(b)], _name(b.name), out))
    return (_name(f.name), _binding(f.binding), ret, plist, blocks)


# ------------------------------------------------------------------ rendering as a Coq term
def _z(v):
    return str(v) if v >= 0 else '(%d)' % v


def _s(s):
    return '"' + s.replace('"', '""') + '"%string'


def _cty(t):
    return TY_COQ[t] if isinstance(t, str) else '(Blob %s %s)' % (_z(t[1]), _z(t[2]))


def _cref(r):
    k, x = r
    if k == 'loc':
        return '(Loc %d)' % x
    if k == 'param':
        return '(Param %d)' % x
    if k == 'glob':
        return '(Glob %s)' % _s(x)
    return '(Unres %s)' % _s(x)


def _clist(items):
    return '[' + '; '.join(items) + ']'


def _cbytes(b):
    return _clist([str(x) for x in b])


def _cinstr(i):
    k = i[0]
    if k == 'const':
        c = '(CInt %s)' % _z(i[4][1]) if i[4][0] == 'int' else '(CFloat %s)' % _z(i[4][1])
        return 'IConst %d %s %s %s' % (i[1], _s(i[2]), _cty(i[3]), c)
    if k == 'binop':
        return 'IBinop %d %s %s %s %s %s' % (i[1], _s(i[2]), _cty(i[3]), BINOPS[i[4]], _cref(i[5]), _cref(i[6]))
    if k == 'unop':
        return 'IUnop %d %s %s %s %s' % (i[1], _s(i[2]), _cty(i[3]), UNOPS[i[4]], _cref(i[5]))
    if k == 'cast':
        return 'ICast %d %s %s %s' % (i[1], _s(i[2]), _cty(i[3]), _cref(i[4]))
    if k == 'load':
        return 'ILoad %d %s %s %s %s' % (i[1], _s(i[2]), _cty(i[3]), _cref(i[4]), 'true' if i[5] else 'false')
    if k == 'store':
        return 'IStore %s %s %s' % (_cref(i[1]), _cref(i[2]), 'true' if i[3] else 'false')
    if k == 'alloc':
        return 'IAlloc %d %s %s %s' % (i[1], _s(i[2]), _z(i[3]), _z(i[4]))
    if k == 'addressof':
        return 'IAddrOf %d %s %s' % (i[1], _s(i[2]), _cref(i[3]))
    if k == 'literal':
        return 'ILit %d %s %s' % (i[1], _s(i[2]), _cbytes(i[3]))
    if k == 'copyblob':
        return 'ICopyBlob %s %s %s' % (_cref(i[1]), _cref(i[2]), _z(i[3]))
    if k == 'phi':
        return 'IPhi %d %s %s %s' % (i[1], _s(i[2]), _cty(i[3]),
                                     _clist(['(%d%%positive, %s)' % (b, _cref(r)) for b, r in i[4]]))
    if k == 'undefined':
        return 'IUndef %d %s %s' % (i[1], _s(i[2]), _cty(i[3]))
    if k == 'callf':
        return 'ICallF %d %s %s %s %s' % (i[1], _s(i[2]), _cty(i[3]), _cref(i[4]), _clist([_cref(a) for a in i[5]]))
    if k == 'callp':
        return 'ICallP %s %s' % (_cref(i[1]), _clist([_cref(a) for a in i[2]]))
    if k == 'jump':
        return 'IJump %d' % i[1]
    if k == 'cjump':
        return 'ICJump %s %s %s %d %d' % (_cref(i[1]), CONDS[i[2]], _cref(i[3]), i[4], i[5])
    if k == 'return':
        return 'IReturn %s' % _cref(i[1])
    if k == 'exit':
        return 'IExit'
    raise NotRepresentable('canonical instruction %r' % (i,))


def func_to_coq(f):
    name, binding, ret, params, blocks = f
    cb = _clist(['mk_block %d %s %s' % (b[0], _s(b[1]), _clist([_cinstr(i) for i in b[2]])) for b in blocks])
    cp = _clist(['(%s, %s)' % (_s(n), _cty(t)) for n, t in params])
    cr = 'None' if ret is None else '(Some %s)' % _cty(ret)
    return 'mk_func %s %s %s %s\n   %s' % (_s(name), BINDINGS[binding], cr, cp, cb)


def py_to_coq(t):
    name, exts, gvars, funcs = t
    ce = []
    for e in exts:
        if e[0] == 'evar':
            ce.append('EVar %s' % _s(e[1]))
        elif e[0] == 'efunc':
            ce.append('EFunc %s %s %s' % (_s(e[1]), _clist([_cty(x) for x in e[2]]), _cty(e[3])))
        else:
            ce.append('EProc %s %s' % (_s(e[1]), _clist([_cty(x) for x in e[2]])))
    cv = []
    for g in gvars:
        if g[4] is None:
            val = 'None'
        else:
            val = '(Some %s)' % _clist(['InitBytes %s' % _cbytes(p[1]) if p[0] == 'bytes'
                                         else 'InitRef %s %s' % (_cty(p[1]), _s(p[2])) for p in g[4]])
        cv.append('mk_gvar %s %s %s %s %s' % (_s(g[0]), BINDINGS[g[1]], _z(g[2]), _z(g[3]), val))
    cf = [func_to_coq(f) for f in funcs]
    return '(mk_modul %s\n  %s\n  %s\n  %s)' % (_s(name), _clist(ce), _clist(cv), _clist(cf))


def module_to_coq(m):
    return py_to_coq(module_to_py(m))


# ------------------------------------------------------------------ structural difference
def diff_py(a, b, path='module'):
    """first difference between two canonical structures (None when equal)"""
    if type(a) is not type(b):
        return '%s: %r vs %r' % (path, a, b)
    if isinstance(a, (tuple, list)):
        if len(a) != len(b):
            return '%s: length %d vs %d' % (path, len(a), len(b))
        for k, (x, y) in enumerate(zip(a, b)):
            tag = ''
            if isinstance(x, tuple) and x and isinstance(x[0], str):
                tag = '<%s>' % x[0]
            d = diff_py(x, y, '%s[%d]%s' % (path, k, tag))
            if d:
                return d
        return None
    if a != b:
        return '%s: %r vs %r' % (path, a, b)
    return None
