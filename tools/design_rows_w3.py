import re,glob,os
p='/verif/DESIGN.md'
s=open(p).read()
add={
'C01':"**Wave 3:** `switch` (case/default/fall-through/break, nested) added to `c01_stmt_exact`/`c01_function_stmt_exact`; fixes 5aee97e (`unsigned int` is `u16` on 16-bit targets, so every theorem applies to msp430: `c01_msp430_faithful_when_unsigned`) and ace08ab (`(p-n)[1]`); new known finding: the declaration of `for (T i = e;…)` is hoisted into the enclosing compound, so a label before the `for` skips the initialisation.",
'C02':"**Wave 3:** the differential covers wide in-range 64-bit constants (`widefold`, C `wide_consts`).",
'C03':"**Wave 3:** `c03_block_refs_inv` — `Block.references` equals the set of referring jumps after ANY sequence of mutators (set_target/change_target/delete/remove_from_block/remove_instruction and all def-use mutators), unbounded; the last two known findings repaired (9d28f16 operand setter with repeated operands, 7126530 `remove_from_block` on a jump); bounded family now 49 632 scenarios.",
'C04':"**Wave 3:** 3988 x86_64 addressing-mode encodings (5 modes × 16 bases × boundary displacements × 4 carriers) compared with llvm-mc on every run; struct-offset/immediate-boundary native programs; 2 defects fixed (ccb49ed `con32` accepted unsigned constants ≥ 2^31, bdfa227 SIB form always used disp8).",
'C05':"**Wave 3:** 180 of 232 rule rows proved (casts/neg/inv/REG rows: `c05_rv_unary_rule_sound`; sub-word conditional jumps after fix 432a838: `c05_rv_ext_correct`, `c05_rv_cjmp_ext_rule_sound`); the 52 unproved rows are 37 float rows, 6 multi-instruction sub-word rows, 9 label/address/misc rows (listed in the evidence).",
'C12':"**Wave 3:** the SECTIONDATA finding is repaired (33fe691) and `c12_sectiondata_relocated` proves every load copy equals the relocated bytes of its source section (`_stale_refuted` kept for the code as found); no known finding left.",
'C13':"**Wave 3:** model-independent layout oracle (each section sits at its unrelaxed address minus 2 bytes per jump shrunk earlier in the SAME image, never below the memory origin) + multi-image deterministic programs.",
'C15':"**Wave 3:** the three known findings are repaired (94eeba1 memcpy reader, 954626b typed `undefined`, 00c894a `volatile` marker): `norm` now only sorts phi inputs (`c15_norm_keeps_volatile`), `printable` no longer excludes CopyBlob/Undefined (`c15_kind_copyblob`, `c15_kind_undefined`, `c15_wave3_fixed`); no known finding left.",
'C16':"**Wave 3:** generator feature `blob_types` (equal-size/different-alignment blob types in every type position) + C modules with by-value struct parameters.",
'C17':"**Wave 3:** table reads of ANY length (`c17_shdr_table_read`, `c17_symtab_read`, `c17_rela_read`, `c17_phdr_read`), writer loops (`c17_writer_symbols`, `c17_writer_relas`, `c17_writer_section_headers`) and `c17_whole_file_tables` (the independent reader decodes the ELF header, every section header and every program header of the final file); still bounded: that the symtab/RELA/strtab *contents* sit at their sh_offset in the whole file.",
'C21':"**Wave 3:** the four text-form findings are repaired (e9b471f u8 operands, b651725 `call_indirect` table, a3a771a v128 load/store, be7f8a2 NaN payload) with the model following through probed switches; `c21_text_instr_list_roundtrip`, `c21_text_def_roundtrip` (memory/table/global/func definitions as printed for a module read from binary); type/import/export/start/elem/data definitions, the module loop, identifiers and abbreviations stay validation only; no known finding left.",
'C22':"**Wave 3:** comparison × consumer search (every int/float comparison alone and fused with eqz/br_if/if/select/local reuse, NaN/±0/±inf operands: 26 202 evaluations per run).",
'C23':"**Wave 3:** `c23_cast_exact` (all integer cast rows after fixes 225d4d4 sub-word sign casts and 1dc314b `i32→u64` sign extension) and `c23_loadstore_table_sound` (9 load + 9 store rows against IRSem's `load_val`/`store_val` on the same bytes); remaining known: ptr uses signed opcodes (renamed to I32 in the generic DAG builder, not a table change).",
'C24':"**Wave 3:** `c24_module_simulates` — whole modules with calls between module functions and external calls (oracle parameter, same trace order), one fuel for call depth and iterations; memory instructions, floats, ptr stay outside (differential against `irsem_py`: value, trace, final global bytes).",
'C26':"**Wave 3:** gcc-differential stream for replacement lists ending in a function-like macro name + the C11 6.10.3.5 examples as fixed corpus (10 regression witnesses, 7 known keyed by (case, class)).",
'C28':"**Wave 3:** 17 more repairs (62 in total); 39 classes remain known (back-end, bit-field lvalues, C3 leftovers).",
'C29':"**Wave 3:** `c29_synth_rules_classes_<t>` — the register class produced by every synthesized rule (UND<ty>, CALL, ASM) equals `value_classes[ty]` (reflected from executing the rule templates); used-Undefined corpus on all targets and levels.",
'C31':"**Wave 3:** fixes a29baca (unreachable error state) and ab5b4aa (empty match loops forever); `c31_dfa_correct_fx`, `c31_scan_total` (fuel `(length input + 2)^2`; `length + 1` is false because scan re-reads the look-ahead: `c31_nonvacuous4`), `c31_scan_correct_fx` without the non-nullable hypothesis; 1 known left (`a*a*` divergence; an ACI-normalising `logical_or` is drafted in `fixes/deferred/` but the model does not follow it yet, so it is not applied).",
'C36':"**Wave 3:** int `/` is now a diagnostic (43eac3d; `c36_int_truediv_rejected`, `c36_expr_exact` quantifies over `/`), augmented assignment with an unsupported operator is a diagnostic (7aab279); no known finding left.",
'C37':"**Wave 3:** shorthand assignment (`+= -= *= &= |=`) in `c37_stmt_exact`.",
'C40':"**Wave 3:** `c40_arg_locations_all` (no hypothesis), `c40_stack_args_in_order`, `c40_struct_memory_args`, `c40_call_alignment_blobs`; fixes e9a47c8/7f46b6f (stack-passed float/double and 8/16-bit arguments raised NotImplementedError); by-value structs ≤ 16 bytes go on the stack instead of registers and blob sizes are not rounded to eightbytes (`c40_struct_small_refuted`, `c40_struct_memory_size_refuted`, `c40_call_alignment_blobs_refuted`: 3 known findings).",
}

add2={
'C04':"Thorough tier: random programs are kept only if a UBSan/ASan build agrees with the reference; a native mismatch it found (gen3, -O1 and up) was a genuine back-end defect (read-modify-write destinations not declared written: fix 7a466f1) with an instruction-level witness that runs every time.",
'C01':"Round-3 follow-up: switches on narrow controlling expressions with labels outside the narrow type (labels convert to the PROMOTED type) in both generators. Known: `for (T i = …)` declaration hoisting; unsuffixed decimal constants beyond `int` typed unsigned (found in the last hours, repair drafted in `fixes/deferred/`, not applied).",
'C02':"Round-3 follow-up: 84 deterministic triangle/diamond/chain modules with 1–3 phis of mixed agreement through every pass and the pipeline (`c02_cfgfam.py`).",
'C03':"Round-3 follow-up: 12 constant-cjump shapes (plain block, loop header with back edge, shared block, nested header) through every pass; the pass list is completed by scanning `ppci.opt` for pass subclasses.",
'C06':"Round-3: a thorough-tier alarm on avr frames was a false alarm of `check_spill` (avr spill code writes the physical scratch pair Z); the validator now lets inserted code write physical registers, treats them and their aliases as unknown until rewritten, and `c06_check_spill_sound` is re-proved for the weaker relation.",
'C08':"Round-3 follow-up: ppci's `[base, index, disp]` operand syntax is normalised for llvm-mc (x86_64 compared lines 15k → 74k), width-boundary immediates/displacements in the deterministic pool of all 8 ISAs, C04's addressing-mode stage also runs here.",
'C10':"Round-3 follow-up: call-site stage (`c10_sites.py`): AST inventory of every `wrap_negative`/`inrange` call in `ppci/arch` and a dynamic probe of all 28 pc-relative relocation classes at the lax part of the envelope — accepted-and-aliased values are violations unless listed per site (25 site-keyed known findings; AVR is strict and therefore a regression witness).",
'C11':"Round-3 follow-up: model-free boundary stage for EVERY relocation class of EVERY architecture (`c11_bounds.py`: width, scale and bias calibrated from the class's own `apply`; accepted ⇒ distinct displacements must patch distinct bytes): 38 of 46 classes calibrate, 8 hi/lo slice classes excluded by name, 65 aliased boundaries of 20 lax classes are known findings keyed (class, boundary); strict classes (AVR, msp430, mips, several thumb) are regression witnesses.",
'C26':"Round-3 follow-up: conditional-inclusion differential against gcc (36-case corpus outer kind × inner kind × taken/skipped, + nested generated programs).",
'C27':"Round-3 follow-up: the enum branch of `eval_binop` is now translated (`Gen.ceval.binop_enum_table`) and `c27_enum_branch_same_operators` proves it uses the same operators as the integer branch (a source edit there breaks the proof build); enum-typed operand differential in all constant contexts.",
'C28':"Round-3 follow-up: boundary literals compiled through the back-ends (`c-boundary-cc`, 1440 programs) and C3 boundary constants (4000) are part of the deterministic regression set; regression witnesses are no longer minimised.",
'C30':"Round-3 follow-up: process-history dimension (same-process rebuild in reverse order, build after unrelated modules, fresh process; 6 targets + wasm/python/IR text) and an inventory of class-level/module-level mutable state written during compilation (`c30_state_scan.py`, 4 reviewed `lru_cache` sites; a new site fails the check).",
'C36':"Round-3 follow-up: tuple assignment (`PSTuple`: all values in the old store, then stores left to right) in the semantics, the lowering model, `c36_stmt_exact` and the generator.",
}
for k,v in add2.items():
    add[k]=(add.get(k,'**Wave 3:**')+' '+v) if k in add else '**Wave 3:** '+v

add3={
'C03':"Wave 4: `c03_verifier_complete_partial` (checker accepts ⇒ the verifier model accepts, for every phi-free function incl. calls, branches, self loops, critical edges) and `c03_verifier_iff_wf_partial` (checker ⇒ verifier ⇒ `wf_function` under representation invariants); completeness with phis by correspondence on unusual well-formed modules.",
'C05':"Wave 4: 189 of 232 rows proved — every integer row except `LABEL` ×2 and `MOVB` (`c05_rv_subword_rule_sound`, `c05_rv_mem_address_rule_sound`, `c05_rv_fprel_rule_sound`); the rest are float/soft-float rows.",
'C08':"Wave 4: five more one/two-line encoding repairs (bb6ec56 c.addi sign, d05f7c2 c.andi sign, 71a31e5 thumb strh/ldrh offset scaling, a36369b x86 `shl` opcode extension, cad4ac1 32-bit unary ops without REX.W): 10 findings moved to the clean side, 17 remain (unencoded `rs` operands, RVC corner rows, x86 high-byte registers under REX, m68k long immediates, mips sllv/srlv/srav operand order, `jalr`).",
'C17':"Wave 4: `c17_whole_file_contents` — for every object, with no bound on sections/symbols/relocations, the final file's `.symtab` (null entry + records, locals first, `sh_info`), every `.rela<section>` and `.strtab` sit at their recorded offsets and are read back by the independent reader (`c17_symtab_in_file`, `c17_rela_in_file`, `c17_strtab_in_file`); still bounded: the symbol-id→index map (meaning of `r_sym`) and single-call acceptance by the monolithic reader.",
'C22':"Wave 4: `memory.grow` takes an unsigned page count (fix 7945bf7, `c22_memory_grow_spec_fixed`); `div_s MIN −1` stays known (the IR signed division carries no overflow trap; both candidate repairs change C24's division semantics).",
'C26':"Wave 4: stringification keeps the argument's spelling (a9598a1) and `##` with an empty argument uses placemarker semantics (410e5c1), gcc -E as oracle: 6 findings closed; `#if` unsigned arithmetic, `@` in arguments, pp-number pasting and hide-set loss through nested arguments remain.",
'C21':"Wave 4: `c21_text_def_roundtrip` now covers type, table, memory, global, start, elem (table 0) and func definitions, `c21_text_defs_roundtrip` lists of them and `c21_text_module_roundtrip` the `(module …)` loop over those seven kinds; import/export/data (string tokens), the s-expr lexer, identifiers and abbreviations stay validation only.",
'C11':"Wave 4: thumb `bl` now encodes J1/J2 (fix 3e4af2d), `c11_thumb_bl_full_range` proves the repaired relocation exact over the full ±16 MiB range (probed switch `bl_fixed`, `c11_tie_bodies` ties whichever variant the source contains).",
'C13':"Wave 4: re-alignment after relaxation was examined and left known: the relaxation phase has no access to the layout directives, and rounding sections up locally could push an already shrunk jump out of range.",
'C36':"Wave 4: function calls — `c36_module_exact` (a module of functions calling each other, recursion unrestricted, statement-position calls; expression-position calls and externals differential only); fix 20c3108 (calls to functions defined later in the module raised KeyError, so mutual recursion was impossible).",
}
for k,v in add3.items():
    add[k]=(add[k]+' '+v) if k in add else '**Wave 3:** '+v

add4={
'C01':"Round-4 follow-up: shift family (`<< >> <<= >>=` over every left × right type pair, negative left values) in the search and the gcc differential.",
'C06':"Round-4 follow-up: `check_register_files` — the overlap relation of x86_64 and avr is derived from the architectural register names and compared with the target's alias table on every run (other targets: symmetry and same-class sanity); the validator uses this ground-truth overlap instead of the target's own table.",
'C07':"Round-4 follow-up: the 15 pseudo instructions that `render()` into real instructions are rendered, decoded and executed on the RV32/RVC semantics against their own declared reads/writes (oracle with concrete replays, no per-class theorem).",
'C21':"Round-4 follow-up: `c21_text_default_align_table` — natural alignment is defined independently (`Spec/WasmAlignSpec.v`, 45 memory mnemonics by access width) and the exported text-form table is proved equal to it; every memory instruction assembled from text without `align=` is compared with hand-built bytes.",
'C23':"Round-4 follow-up: `c23_unop_table_exact` (every compiled NEG row incl. the re-wrap leaves the canonical representation of IRSem's negation, MIN included; `c23_unop_unwrapped_refuted`), boundary pool for unary/binary/compare rows in the quick tier.",
'C28':"Round-4 follow-up: 5760 C3 constant programs (18 operators × int/float/mixed × zero divisors × 8 contexts) in the recorded set.",
}
for k,v in add4.items():
    add[k]=(add[k]+' '+v) if k in add else '**Wave 3:** '+v

add5={
'C10':"Wave 5: the int-key branch of `Token.__setitem__` (`Token.set_bit`) is regenerated by the flattening pre-pass as `tok_setbit` and proved exact for all sizes/indices/values (`c10_setbit_exact`: bit i := value≠0, other bits untouched; `c10_setbit_rejects_bad_index`; `c10_setbit_readback`; any value outside {0,1} is silently stored as 1 — `c10_setbit_truncates_refuted`, only ppci caller passes 1), 840 correspondence cases on real token classes per run.",
'C13':"Wave 5: `c13_holes_of_relaxation_ok` / `c13_holes_are_site_halves` discharge the former assumption on hole lists — for any object on which the candidate loop of `do_relaxations` succeeds, each hole is the second halfword of a relocation site, and when a section's relocation sites are ≥ 4 bytes apart (premise evaluated on every generated program) the sorted hole list given to `_apply_relaxation_holes` is sorted, disjoint and positive for every relocation order and subset shrunk; `replace_relocs` bookkeeping remains correspondence-only.",
'C20':"Wave 5: decoders totally characterised on every byte iterator — `c20_decode_truncated` (no terminating byte, incl. empty ⇒ StopIteration), `c20_decode_total` (well-formed prefix decoded to its spec value with exact rest, else StopIteration) and `c20_decode_ok_inv` (any returned (v, rest) stems from exactly one well-formed encoding).",
'C24':"Wave 5: the runtime object itself (`Model/Ir2PyRt.v`: heap/stack bytearrays, `get_memory` dispatch at the exported `HEAP_START`, `alloca`, `free`, `heap_top`; 45 scripts run on the emitted `IrPy` every run) — `c24_rt_alloca_store_load_free` (alloca n; store/load of any integer type inside the block exact, heap and older stack untouched, `free n` restores the state, for every state with stack below `HEAP_START`) and `c24_rt_heap_store_load`; memory instructions inside simulated functions, floats and ptr stay open.",
'C27':"Wave 5: the enumerator-value loop `CContext._calculate_enum_values` is modelled (`Model/CEnum.v`, tie H, 160 enumerator lists per run through the real `get_enum_value`) and `c27_enum_values_exact` proves, for every enumerator list and data model, that each constant gets exactly its C11 6.7.2.2 value and that a diagnostic (never an internal error or a wrapped value) results exactly when a value is not representable as int.",
'C33':"Wave 5: set-algebra laws as equalities of the returned canonical representations (`c33_canonical_ext`, `c33_union_laws` comm/assoc/idem/unit, `c33_inter_comm`, `c33_symdiff_law` a^b=(a|b)-(a&b), `c33_demorgan_law` a-(b|c)=(a-b)&(a-c), `c33_double_diff_law`), with `c33_result_sizes` so fuel hypotheses mention the inputs only; the same laws are run through the implementation's `==`/`hash` on every oracle pair.",
'C34':"Wave 5: the task loop of `TaskRunner.run` with raising tasks (`Model/TasksExec.v`, tied by 1000 quick / 4225 thorough real runs with raising recording tasks): `c34_failure_blocks_dependants` (no dependant of the failed target starts), `c34_started_deps_completed` (every dependency of a started target has completed), `c34_no_failure_all_tasks_run` (a run without failure has run all tasks of exactly the reachable targets); `expand_macros`/`get_task` failures not modelled.",
'C35':"Wave 5: register/memory payloads of `GdbDebugDriver` (`Model/RspRegs.v`, 266 correspondence cases per run against the real driver with a scripted transport): `c35_mem_hex_roundtrip` (write_mem→read_mem for every byte string), `c35_registers_roundtrip` (set_registers→_get_general_registers for every register list and all values on little-endian targets), `c35_set_registers_defined`; observed, outside the property's framing claim and not repaired: `_pack_register` ignores the target byte order.",
'C38':"Wave 5: whole constant-expression trees of any depth (nested Binop/Cast, unknown leaves): a tree that evaluates at run time folds at its root to exactly that in-range value (`c38_tree_fold_exact`), and no well-formed tree — undefined inner operations and chain rules with constant subtrees included — makes the pass raise or create an out-of-range constant (`c38_tree_never_raises`).",
'C39':"Wave 5: also proved for `wrap_negative` (succeeds exactly on [-2^(n-1), 2^n) with result v mod 2^n, else ValueError; inverted by `to_signed` on the signed range), `inrange` (decides the signed n-bit range = `signed_of n v = v`) and `align` (least multiple of m ≥ v, m > 0), with an oracle sweep for the three.",
}
for k,v in add5.items():
    add[k]=(add[k]+' '+v) if k in add else '**Wave 5:** '+v[len('Wave 5: '):]

lines=s.split('\n')
a=next(i for i,l in enumerate(lines) if l.startswith('### 10.2'))
b=next(i for i,l in enumerate(lines) if l.startswith('### 10.3'))
for i in range(a,b):
    m=re.match(r'\| (C\d\d) \| ([^|]*) \| ([^|]*) \| (\d+) \| (.*) \|$',lines[i])
    if not m: continue
    pid=m.group(1)
    n=0
    for f in glob.glob('/verif/coq/Props/%s*.v'%pid):
        n+=len(re.findall(r'^\s*Theorem ',open(f).read(),re.M))
    body=m.group(5)
    body=re.sub(r' \*\*Wave [35]:\*\*.*$','',body)
    if pid in add: body=body.rstrip()+' '+add[pid]
    lines[i]='| %s | %s | %s | %d | %s |'%(pid,m.group(2),m.group(3),n,body)
open(p,'w').write('\n'.join(lines))
print('ok')
