import re,glob,os
p='/verif/DESIGN.md'
s=open(p).read()
add={
'C01':"**Wave 3:** `switch` (case/default/fall-through/break, nested) added to `c01_stmt_exact`/`c01_function_stmt_exact`; fixes 5aee97e (`unsigned int` is `u16` on 16-bit targets, so every theorem applies to msp430: `c01_msp430_faithful_when_unsigned`) and ace08ab (`(p-n)[1]`); new known finding: the declaration of `for (T i = e;…)` is hoisted into the enclosing compound, so a label before the `for` skips the initialisation.",
'C02':"**Wave 3:** the differential covers wide in-range 64-bit constants (`widefold`, C `wide_consts`).",
'C03':"**Wave 3:** `c03_block_refs_inv` — `Block.references` equals the set of referring jumps after ANY sequence of mutators (set_target/change_target/delete/remove_from_block/remove_instruction and all def-use mutators), unbounded; the last two known findings repaired (9d28f16 operand setter with repeated operands, 7126530 `remove_from_block` on a jump); bounded family now 49 632 scenarios.",
'C04':"**Wave 3:** 3988 x86_64 addressing-mode encodings (5 modes × 16 bases × boundary displacements × 4 carriers) compared with llvm-mc on every run; struct-offset/immediate-boundary native programs; 2 defects fixed (ccb49ed `con32` accepted unsigned constants ≥ 2^31, bdfa227 SIB form always used disp8).",
'C05':"**Wave 3:** 180 of 232 rule rows proved (casts/neg/inv/REG rows: `c05_rv_unary_rule_sound`; sub-word conditional jumps after fix 432a838: `c05_rv_ext_correct`, `c05_rv_cjmp_ext_rule_sound`); the 52 unproved rows are 37 float rows, 6 multi-instruction sub-word rows, 9 label/address/misc rows (listed in the evidence).",
'C12':"**Wave 3:** the SECTIONDATA finding is repaired (33fe691) and `c12_sectiondata_relocated` proves every load copy equals the relocated bytes of its source section (`_stale_refuted` kept for the code as found); no known finding left.",
'C13':"**Wave 3:** model-independent layout oracle (each section sits at its unrelaxed address minus 2 bytes per jump shrunk earlier in the SAME image, never below the memory origin) + multi-image deterministic programs.",
'C15':"**Wave 3:** the three known findings are repaired (94eeba1 memcpy reader, 954626b typed `undefined`, 00c894a `volatile` marker): `norm` now only sorts phi inputs (`c15_norm_keeps_volatile`), `printable` no longer excludes CopyBlob/Undefined (`c15_kind_copyblob`, `c15_kind_undefined`, `c15_wave3_fixed`); no known finding left.",
'C16':"**Wave 3:** generator feature `blob_types` (equal-size/different-alignment blob types in every type position) + C modules with by-value struct parameters.",
'C17':"**Wave 3:** table reads of ANY length (`c17_shdr_table_read`, `c17_symtab_read`, `c17_rela_read`, `c17_phdr_read`), writer loops (`c17_writer_symbols`, `c17_writer_relas`, `c17_writer_section_headers`) and `c17_whole_file_tables` (the independent reader decodes the ELF header, every section header and every program header of the final file); still bounded: that the symtab/RELA/strtab *contents* sit at their sh_offset in the whole file.",
'C21':"**Wave 3:** the four text-form findings are repaired (e9b471f u8 operands, b651725 `call_indirect` table, a3a771a v128 load/store, be7f8a2 NaN payload) with the model following through probed switches; `c21_text_instr_list_roundtrip`, `c21_text_def_roundtrip` (memory/table/global/func definitions as printed for a module read from binary); type/import/export/start/elem/data definitions, the module loop, identifiers and abbreviations stay validation only; no known finding left.",
'C22':"**Wave 3:** comparison × consumer search (every int/float comparison alone and fused with eqz/br_if/if/select/local reuse, NaN/±0/±inf operands: 26 202 evaluations per run).",
'C23':"**Wave 3:** `c23_cast_exact` (all integer cast rows after fixes 225d4d4 sub-word sign casts and 1dc314b `i32→u64` sign extension) and `c23_loadstore_table_sound` (9 load + 9 store rows against IRSem's `load_val`/`store_val` on the same bytes); remaining known: ptr uses signed opcodes (renamed to I32 in the generic DAG builder, not a table change).",
'C24':"**Wave 3:** `c24_module_simulates` — whole modules with calls between module functions and external calls (oracle parameter, same trace order), one fuel for call depth and iterations; memory instructions, floats, ptr stay outside (differential against `irsem_py`: value, trace, final global bytes).",
'C26':"**Wave 3:** gcc-differential stream for replacement lists ending in a function-like macro name + the C11 6.10.3.5 examples as fixed corpus (10 regression witnesses, 7 known keyed by (case, class)).",
'C28':"**Wave 3:** 17 more repairs (62 in total); 39 classes remain known (back-end, bit-field lvalues, C3 leftovers).",
'C29':"**Wave 3:** `c29_synth_rules_classes_<t>` — the register class produced by every synthesized rule (UND<ty>, CALL, ASM) equals `value_classes[ty]` (reflected from executing the rule templates); used-Undefined corpus on all targets and levels.",
'C31':"**Wave 3:** fixes a29baca (unreachable error state) and ab5b4aa (empty match loops forever); `c31_dfa_correct_fx`, `c31_scan_total` (fuel `(length input + 2)^2`; `length + 1` is false because scan re-reads the look-ahead: `c31_nonvacuous4`), `c31_scan_correct_fx` without the non-nullable hypothesis; 1 known left (`a*a*` divergence; an ACI-normalising `logical_or` is drafted in `fixes/deferred/` but the model does not follow it yet, so it is not applied).",
'C36':"**Wave 3:** int `/` is now a diagnostic (43eac3d; `c36_int_truediv_rejected`, `c36_expr_exact` quantifies over `/`), augmented assignment with an unsupported operator is a diagnostic (7aab279); no known finding left.",
'C37':"**Wave 3:** shorthand assignment (`+= -= *= &= |=`) in `c37_stmt_exact`.",
'C40':"**Wave 3:** `c40_arg_locations_all` (no hypothesis), `c40_stack_args_in_order`, `c40_struct_memory_args`, `c40_call_alignment_blobs`; fixes e9a47c8/7f46b6f (stack-passed float/double and 8/16-bit arguments raised NotImplementedError); by-value structs ≤ 16 bytes go on the stack instead of registers and blob sizes are not rounded to eightbytes (`c40_struct_small_refuted`, `c40_struct_memory_size_refuted`, `c40_call_alignment_blobs_refuted`: 3 known findings).",
}
lines=s.split('\n')
a=next(i for i,l in enumerate(lines) if l.startswith('### 10.2'))
b=next(i for i,l in enumerate(lines) if l.startswith('### 10.3'))
for i in range(a,b):
    m=re.match(r'\| (C\d\d) \| ([^|]*) \| ([^|]*) \| (\d+) \| (.*) \|$',lines[i])
    if not m: continue
    pid=m.group(1)
    n=0
    for f in glob.glob('/verif/coq/Props/%s*.v'%pid):
        n+=len(re.findall(r'^\s*Theorem ',open(f).read(),re.M))
    body=m.group(5)
    body=re.sub(r' \*\*Wave 3:\*\*.*$','',body)
    if pid in add: body=body.rstrip()+' '+add[pid]
    lines[i]='| %s | %s | %s | %d | %s |'%(pid,m.group(2),m.group(3),n,body)
open(p,'w').write('\n'.join(lines))
print('ok')
