"""replace the seed tables of DESIGN.md §10.5 (from the first table header up to '### 10.6') by the
current output of tools/seedtable.py"""
import os
import subprocess
import sys
V = os.path.dirname(os.path.dirname(os.path.abspath(__file__)))
p = os.path.join(V, 'DESIGN.md')
lines = open(p).read().split('\n')
start = next(i for i, l in enumerate(lines) if l.startswith('### 10.5'))
end = next(i for i, l in enumerate(lines) if l.startswith('### 10.6'))
first = next(i for i in range(start, end) if lines[i].startswith('| seed |') or lines[i].startswith('#### Round 1'))
tab = subprocess.run([sys.executable, os.path.join(V, 'tools', 'seedtable.py')], stdout=subprocess.PIPE,
                     text=True, check=True).stdout.rstrip('\n').split('\n')
lines[first:end] = tab + ['']
open(p, 'w').write('\n'.join(lines))
print('replaced %d lines by %d' % (end - first, len(tab) + 1))
