"""C02 — the optimizer preserves IR behaviour, every pass and every level (DESIGN §4 C02).

Three layers (LEVEL = translation_validation):
  A. Coq, unbounded: soundness of the local rewrite rules the passes apply, over the expression-level
     functions of Spec/IRSem.v (Proofs/C02_rules.v).
  B. Coq, verified validators: Model/OptValidate.v + Proofs/C02_validate.v (check_block: a before/after pair
     of straight-line instruction lists, symbolic evaluation with the rules of A as normalisation, sound
     against IRSem.step_simple) and Model/OptValidateFn.v + Proofs/C02_local.v (check_modul / check_local:
     whole modules transformed by block-local passes, sound against IRSem.run_function / run_main).  Both
     are run (inside coqc) on what the real block-local passes produced from generated and C-derived modules.
  C. Differential execution (always; the search and the replay source): every real pass, random pass
     sequences and api.optimize levels on generated modules, before/after executed by the independent
     reference interpreter tools/irsem_py.py on boundary + random argument vectors.
The pass list of api.optimize is exported from the source (tie I) and must be covered.
"""
import ast
import collections
import importlib
import io
import json
import os
import random
import struct
import sys

from vlib import OkV, REPO, ensure_repo_on_path

LEVEL = 'translation_validation'
RULE = ('modules: tools/gen/irgen.py (SAFE_FEATURES + copyblob + extern) extended by tools/props/c02_gen.py with '
        'triangles/empty-block chains in front of phis, self tail calls, store/CopyBlob/load mixes, cjmp on constants, '
        'x+0 / 0+x / x*1 / (y+c1)+c2 shapes, twin operations on the same operands and store/call/load on a global the '
        'callee writes; every module is transformed by each of the 9 pass classes alone, by random '
        'pass sequences and by api.optimize levels; every function is executed before/after on 6 argument vectors '
        '(boundary values + random) by tools/irsem_py.py. distinct non-trivial = (module, transformation) pairs where the '
        'transformation changed the printed module and at least one argument vector ran to completion on the original '
        'without undefined behaviour')
EXPLANATION = ('Coq: unbounded soundness lemmas for the rewrite rules (x+0, 0+x, x*1, constant folding of an operation on '
               'constants = IRSem.eval_binop, cast of a constant, both chain rules, cjmp on constants, common subexpression, '
               'removal of a pure unused instruction), a verified validator for straight-line block pairs (check_block: pure '
               'instructions may be added, dropped, duplicated and rewritten by the rules incl. both chain rules; memory '
               'instructions must correspond one to one) and a verified validator for WHOLE MODULES transformed by block-local '
               'passes (check_modul / check_local, theorem c02_check_local_sound: same blocks, per-segment check_block, calls '
               'matched in order, phi inputs and terminator operands related by the renaming computed from value names; '
               'conclusion: run_function / run_main of the after-module returns the same result and state with the same fuel '
               'whenever the before-module terminates normally; no typing hypothesis). Both validators are run inside coqc '
               'on the output of the real passes (irgen modules and C-derived modules after mem2reg); pairs they do not decide '
               '(uses replaced across blocks, constants of other blocks, x+0 on a value whose range is not evident, dropped '
               'loads/allocs, LoadAfterStore forwarding) are executed instead. A third verified validator, check_modul_cfg / check_cfg (c02_check_clean_sound), covers CleanPass: after-blocks '
               'correspond to head blocks of the before-function (hint beta by block names), jumps to non-head blocks without phis '
               'are flattened (glued blocks), jump targets are resolved through single-jump blocks (bypassed empty blocks, a '
               'silent step thanks to c02_exec_fuel_mono) and the phi inputs of the resolved edge must be related; it is run on '
               'every real CleanPass pair (about three quarters accepted; glue with phi replacement across blocks is not). '
               'Mem2RegPromotor: NO soundness theorem over IRSem is possible as stated - three real before/after pairs are '
               'proved to differ under IRSem (c02_promote_*_refuted: read of a never-written alloca, address shift of later '
               'allocas observed as an integer, integer constant aliasing the promoted cell); proved instead: the read-after-write '
               'fact c02_rule_las (store then load of an in-range integer at the same address and type). Mem2RegPromotor, '
               'TailCallOptimization, CJumpPass and LoadAfterStore forwarding as passes: differential execution only. '
               'Float arithmetic is outside IRSem; the float rules (x+0.0, CSE of +-0.0) are tested with Python floats.')
TRUSTED = ['coq/Spec/IRSem.v as the meaning of IR; tools/irsem_py.py as its Python twin (cross-checked by the hub self-test)',
           'tools/irimport.py (live ppci.ir objects -> Coq terms) and the vid alignment hints passed to the validator '
           '(hints are untrusted inputs of the validator: a wrong hint can only make it answer false)',
           'frame-slot reading of ir.Alloc (FrameMachine) for the tail-call witness; confirmed once natively on x86_64',
           'Python float arithmetic = IEEE-754 binary64 for the two float witnesses']
ASSUMPTIONS = ['integer constants of well-formed modules are in the range of their type (the generator feature bigconst is '
               'excluded: ConstantFolder and CJumpPass read Const.value unwrapped)',
               'block validator with tl = true: every value in the environment is in the range of its declared type (hypothesis env_typed); the whole-module validator uses tl = false and needs no such hypothesis',
               'runs whose original execution has undefined behaviour, is unsupported (float arithmetic), runs out of fuel or '
               'reads never-written stack memory are skipped',
               'exceptions raised by a pass (KeyError in replace_use etc.) are counted, not judged here: C03 owns "never crash"']

PASS_NAMES = ['Mem2RegPromotor', 'RemoveAddZeroPass', 'ConstantFolder', 'CommonSubexpressionEliminationPass',
              'TailCallOptimization', 'LoadAfterStorePass', 'DeleteUnusedInstructionsPass', 'CleanPass', 'CJumpPass']
BASE_CLASSES = {'ModulePass', 'FunctionPass', 'BlockPass', 'InstructionPass'}
BLOCK_LOCAL = ['RemoveAddZeroPass', 'ConstantFolder', 'CommonSubexpressionEliminationPass',
               'DeleteUnusedInstructionsPass']
FUEL = 300


# ------------------------------------------------------------------------------ ppci access
def _ppci():
    ensure_repo_on_path()
    here = os.path.dirname(os.path.abspath(__file__))
    for p in (here, os.path.join(os.path.dirname(here), 'gen')):
        if p not in sys.path:
            sys.path.insert(0, p)
    import c02_gen
    import logging
    logging.disable(logging.WARNING)          # the ir verifier logs a warning for every use of Undefined
    from ppci import ir, api
    from ppci.irutils import verify_module, print_module
    classes = {}
    for modname in ('mem2reg', 'transform', 'constantfolding', 'cse', 'tailcall', 'load_after_store', 'clean', 'cjmp'):
        mod = importlib.import_module('ppci.opt.' + modname)
        for n in PASS_NAMES:
            if hasattr(mod, n):
                classes[n] = getattr(mod, n)
    return c02_gen, ir, api, verify_module, print_module, classes


def module_text(m):
    from ppci.irutils import print_module
    f = io.StringIO()
    print_module(m, file=f, verify=False)
    return f.getvalue()


# ------------------------------------------------------------------------------ tie I: the pipeline
def export_pipeline():
    """read the pass list of api.optimize from the source: (names in order, multiplier, conditional extras, levels)"""
    src = open(os.path.join(REPO, 'ppci/api.py')).read()
    tree = ast.parse(src)
    levels, names, mult, extras = None, None, 1, []
    for node in tree.body:
        if isinstance(node, ast.Assign) and any(isinstance(t, ast.Name) and t.id == 'OPT_LEVELS' for t in node.targets):
            levels = [str(ast.literal_eval(e)) for e in node.value.elts]
    fn = [n for n in tree.body if isinstance(n, ast.FunctionDef) and n.name == 'optimize']
    if not fn:
        raise ValueError('api.optimize not found')

    def call_names(lst):
        out = []
        for e in lst.elts:
            if isinstance(e, ast.Call) and isinstance(e.func, ast.Name) and not e.args and not e.keywords:
                out.append(e.func.id)
            else:
                raise ValueError('unexpected element in opt_passes: %s' % ast.dump(e)[:80])
        return out
    for node in ast.walk(fn[0]):
        if isinstance(node, ast.Assign) and any(isinstance(t, ast.Name) and t.id == 'opt_passes' for t in node.targets):
            v = node.value
            if isinstance(v, ast.BinOp) and isinstance(v.op, ast.Mult) and isinstance(v.left, ast.List):
                names, mult = call_names(v.left), ast.literal_eval(v.right)
            elif isinstance(v, ast.List):
                names = call_names(v)
            else:
                raise ValueError('cannot read the value of opt_passes')
        if isinstance(node, ast.Call) and isinstance(node.func, ast.Attribute) and node.func.attr in ('append', 'insert', 'extend') \
                and isinstance(node.func.value, ast.Name) and node.func.value.id == 'opt_passes':
            for a in node.args:
                for c in ast.walk(a):
                    if isinstance(c, ast.Call) and isinstance(c.func, ast.Name):
                        extras.append(c.func.id)
    if names is None or levels is None:
        raise ValueError('opt_passes / OPT_LEVELS not found in api.py')
    return names, mult, extras, levels


def discover_pass_classes():
    """every concrete ModulePass subclass defined under ppci.opt"""
    ensure_repo_on_path()
    import pkgutil
    import ppci.opt as optpkg
    from ppci.opt.transform import ModulePass
    found = {}
    for mi in pkgutil.iter_modules(optpkg.__path__):
        mod = importlib.import_module('ppci.opt.' + mi.name)
        for n, obj in vars(mod).items():
            if isinstance(obj, type) and issubclass(obj, ModulePass) and obj.__module__ == mod.__name__ \
                    and n not in BASE_CLASSES:
                found[n] = mod.__name__
    return found


def regen(ctx):
    names, mult, extras, levels = export_pipeline()
    found = discover_pass_classes()
    text = ('(* generated by tools/props/c02.py from ppci/api.py (optimize) and ppci/opt/*.py *)\n'
            'From Coq Require Import String List.\nImport ListNotations.\nLocal Open Scope string_scope.\n'
            'Definition c02_pipeline : list string := [%s].\n'
            'Definition c02_pipeline_rounds : nat := %d.\n'
            'Definition c02_pipeline_extras : list string := [%s].\n'
            'Definition c02_levels : list string := [%s].\n'
            'Definition c02_pass_classes : list string := [%s].\n' % (
                '; '.join('"%s"' % n for n in names), mult, '; '.join('"%s"' % n for n in extras),
                '; '.join('"%s"' % n for n in levels), '; '.join('"%s"' % n for n in sorted(found))))
    ctx.write_gen('c02_pipeline', text)
    ctx.cov['stages']['pipeline'] = {'passes': names, 'rounds': mult, 'conditional': extras, 'levels': levels,
                                     'pass_classes': sorted(found)}
    missing = sorted((set(names) | set(extras) | set(found)) - set(PASS_NAMES))
    if missing:
        msg = 'optimizer passes without C02 coverage: %s' % ', '.join(missing)
        ctx.log(msg)
        ctx.failed_stages.append(('coverage', msg))
    return names, mult, extras, levels


# ------------------------------------------------------------------------------ transformations
class Transform:
    def __init__(self, kind, what):
        self.kind, self.what = kind, what            # ('pass', [names]) | ('level', '2')
        self.name = '+'.join(what) if kind == 'pass' else 'optimize(level=%s)' % what

    def apply(self, m, classes, api):
        import contextlib
        with contextlib.redirect_stdout(io.StringIO()):      # verify_module prints warnings
            if self.kind == 'pass':
                for n in self.what:
                    classes[n]().run(m)
            else:
                api.optimize(m, level=self.what)


def trunc_rem(a, b):
    r = abs(a) % abs(b)
    return -r if a < 0 else r


class patched_rem:
    """run the constant folder with a truncating '%' (attribution of a difference to the C38-owned defect)"""

    def __enter__(self):
        from ppci.opt import constantfolding as cf
        self.cf, self.old = cf, cf.ConstantFolder.__init__

        def init(s):
            self.old(s)
            s.ops['%'] = cf.enhance(trunc_rem)
        cf.ConstantFolder.__init__ = init

    def __exit__(self, *a):
        self.cf.ConstantFolder.__init__ = self.old


def dangling_operands(m, ir):
    """instructions that refer to a value that is no longer in any block (bookkeeping corruption)"""
    out = []
    for f in m.functions:
        inside = {id(i) for b in f.blocks for i in b.instructions}
        for b in f.blocks:
            for i in b.instructions:
                ops = list(i.uses) + list(getattr(i, 'arguments', [])) + list(getattr(i, 'inputs', {}).values())
                for v in ops:
                    if isinstance(v, ir.LocalValue) and not isinstance(v, ir.Parameter) and id(v) not in inside:
                        out.append('%s uses %s' % (i, v.name))
    return out


def arg_vectors(rng, f, irgen, n):
    vs = [[0] * len(f.arguments), [1] * len(f.arguments)] if f.arguments else [[]]
    while len(vs) < n and f.arguments:
        vs.append(irgen.gen_args(rng, f))
    out = []
    for v in vs:
        v = [irgen_wrap(p.ty, x) for p, x in zip(f.arguments, v)]
        if v not in out:
            out.append(v)
    return out


def irgen_wrap(t, x):
    lo = -(1 << (t.bits - 1)) if t.signed else 0
    hi = (1 << (t.bits - 1)) - 1 if t.signed else (1 << t.bits) - 1
    return min(max(x, lo), hi)


CANONICAL = ['Mem2RegPromotor', 'RemoveAddZeroPass', 'ConstantFolder', 'CommonSubexpressionEliminationPass',
             'TailCallOptimization', 'LoadAfterStorePass', 'DeleteUnusedInstructionsPass', 'CleanPass']


class ModSpec:
    """one module under test: how to (re)build it, how to run it, how to describe it in a replay"""

    def __init__(self, source, gen, make, cfg, fuel):
        self.source, self.gen, self.make, self.cfg, self.fuel = source, gen, make, cfg, fuel


def irgen_spec(c02_gen, seed, size, fe):
    import irsem_py
    return ModSpec('irgen', {'source': 'irgen', 'seed': seed, 'size': size, 'features': list(fe)},
                   lambda: c02_gen.gen(random.Random(seed), size, fe), irsem_py.DEFAULT_CFG, FUEL)


def c_spec(c02_csrc, name, src, arch):
    from ppci.binutils.debuginfo import DebugDb   # noqa: F401  (c_to_ir attaches its own debug db)
    return ModSpec('c', {'source': 'c', 'name': name, 'arch': arch, 'c_source': src},
                   lambda: c02_csrc.compile_c(src, arch), c02_csrc.ARCHS[arch], 3000)


def fam_spec(shape, n, mask):
    import irsem_py
    import c02_cfgfam
    ir = _ppci()[1]
    return ModSpec('cfgfam', {'source': 'cfgfam', 'shape': shape, 'phis': n, 'mask': mask},
                   lambda: c02_cfgfam.build(ir, shape, n, mask), irsem_py.DEFAULT_CFG, FUEL)


def spec_from_gen(g):
    c02_gen = _ppci()[0]
    import c02_csrc
    if g.get('source', 'irgen') == 'c':
        return c_spec(c02_csrc, g.get('name', 'replay'), g['c_source'], g['arch'])
    if g.get('source') == 'cfgfam':
        return fam_spec(g['shape'], g['phis'], g['mask'])
    return irgen_spec(c02_gen, g['seed'], g['size'], tuple(g['features']))


def differential(ctx, nmod, thorough, seed0, nc=None):
    """layer C: irgen modules (nmod) + the C corpus + nc generated C modules"""
    c02_gen, ir, api, verify_module, print_module, classes = _ppci()
    import irgen
    import c02_csrc
    names, mult, extras, levels = export_pipeline()
    stats = collections.Counter()
    crashes = collections.Counter()
    feats = c02_gen.FEATS_QUICK
    nontrivial = 0
    specs = []
    for k in range(nmod):
        fe = feats if k % 4 else feats + ('undefined', 'rot', 'initref', 'ub', 'floats')
        specs.append(irgen_spec(c02_gen, seed0 + k, 2 + k % 3, fe))
    archs = sorted(c02_csrc.ARCHS)
    for name, src in c02_csrc.CORPUS:
        for arch in archs:
            specs.append(c_spec(c02_csrc, name, src, arch))
    if nc is None:
        nc = 40 if not thorough else 400
    import c02_cfgfam
    for shape, nphi, mask in c02_cfgfam.members():
        specs.append(fam_spec(shape, nphi, mask))
    for k in range(nc):
        specs.append(c_spec(c02_csrc, 'gen_c_%d' % (seed0 + k), c02_csrc.gen_c(random.Random(seed0 + k)),
                            archs[k % len(archs)]))
    for k, sp in enumerate(specs):
        try:
            m0 = sp.make()
        except Exception as ex:   # noqa: BLE001
            stats['source_not_compiled'] += 1
            if sp.source == 'c' and not sp.gen['name'].startswith('gen_c_'):
                ctx.failed_stages.append(('harness', 'corpus source %s does not compile: %s' % (sp.gen['name'], str(ex)[:200])))
            continue
        text0 = module_text(m0)
        rng = random.Random(seed0 * 7 + k)
        base = {}
        funcs = m0.functions if sp.source in ('irgen', 'cfgfam') else c02_csrc.entries(ir, m0)
        for f in funcs:
            runs = []
            vecs = arg_vectors(rng, f, irgen, 6) if sp.source == 'irgen' else (
                c02_cfgfam.ARGS if sp.source == 'cfgfam' else c02_csrc.c_arg_vectors(rng, f, 7))
            for a in vecs:
                o, ru = c02_gen.run_main(m0, f.name, a, sp.fuel, cfg=sp.cfg)
                stats['orig_' + ('done' if isinstance(o, OkV) else str(o))] += 1
                if isinstance(o, OkV) and ru:
                    stats['orig_reads_unwritten_stack'] += 1
                elif isinstance(o, OkV):
                    runs.append((a, o.v))
            base[f.name] = runs
        trans = [Transform('pass', [n]) for n in PASS_NAMES]
        if sp.source in ('c', 'cfgfam'):
            trans += [Transform('pass', list(CANONICAL)), Transform('pass', ['Mem2RegPromotor', 'CleanPass']),
                      Transform('pass', ['Mem2RegPromotor', 'LoadAfterStorePass', 'DeleteUnusedInstructionsPass',
                                         'CleanPass']),
                      Transform('pass', ['Mem2RegPromotor'] + [rng.choice(PASS_NAMES) for _ in range(rng.randint(2, 5))])]
        nseq = 3 if thorough else 1
        for _ in range(nseq):
            trans.append(Transform('pass', [rng.choice(PASS_NAMES) for _ in range(rng.randint(2, 6))]))
        for lv in (levels[1:] if thorough else [levels[1 + k % (len(levels) - 1)]]):
            trans.append(Transform('level', lv))
        for tr in trans:
            m1 = sp.make()
            short = tr.name if tr.kind == 'level' or len(tr.what) == 1 else 'sequence'

            def record(cls, fn, a, exp, actual, after):
                rec = {'fn': tr.name, 'key': 'diff:%s:%s:%s' % (cls, short, sp.source), 'class': cls, 'function': fn,
                       'args': a, 'expected': repr(exp), 'actual': actual, 'gen': sp.gen,
                       'transformation': {'kind': tr.kind, 'what': tr.what},
                       'module_before': text0, 'module_after': after,
                       'how_to_replay': 'VERIF_REPO=%s PYTHONPATH=/verif/tools:/verif/tools/gen:/verif/tools/props:%s '
                                        '/venv/bin/python /verif/tools/props/c02.py --replay <this file>' % (REPO, REPO)}
                if ctx.violation(rec):
                    stats['violations'] += 1
                else:
                    stats['known_finding_hits'] += 1
            try:
                tr.apply(m1, classes, api)
            except Exception as ex:   # noqa: BLE001
                crashes['%s: %s' % (short, type(ex).__name__)] += 1
                stats['pass_raised'] += 1
                record('pass-raised', None, None, 'a transformed module', '%s: %s' % (type(ex).__name__, str(ex)[:200]),
                       '')
                continue
            stats['transformed'] += 1
            changed = module_text(m1) != text0
            ran = False
            for fn, runs in base.items():
                for a, exp in runs:
                    o1, _ = c02_gen.run_main(m1, fn, a, 4 * sp.fuel, cfg=sp.cfg)
                    ctx.cov['evaluations'] += 1
                    ran = True
                    if isinstance(o1, OkV) and o1.v == exp:
                        continue
                    cls = classify(c02_gen, ir, api, classes, tr, sp, fn, a, exp, m1)
                    record(cls or 'behaviour-changed', fn, a, exp, repr(o1.v) if isinstance(o1, OkV) else str(o1),
                           module_text(m1))
                    break
            if changed and ran:
                nontrivial += 1
        if k < 2 or (sp.source == 'c' and k % 37 == 0):
            ctx.note_sample({'source': sp.source, 'gen': {x: y for x, y in sp.gen.items() if x != 'c_source'},
                             'functions': [f.name for f in m0.functions],
                             'blocks': sum(len(f.blocks) for f in m0.functions),
                             'instructions': sum(len(b.instructions) for f in m0.functions for b in f.blocks)})
    ctx.cov['distinct_nontrivial'] += nontrivial
    ctx.cov['stages']['differential'] = {'irgen_modules': nmod, 'c_corpus_modules': len(c02_csrc.CORPUS) * len(archs),
                                         'c_generated_modules': nc, 'cfg_family_modules': len(c02_cfgfam.members()),
                                         'stats': dict(stats),
                                         'pass_exceptions': dict(crashes)}
    return stats


def classify(c02_gen, ir, api, classes, tr, sp, fn, a, exp, m1):
    """attribute a behaviour difference to a defect owned by another property, or None"""
    d = dangling_operands(m1, ir)
    if d:
        return 'dangling-operand'
    with patched_rem():
        try:
            m2 = sp.make()
            tr.apply(m2, classes, api)
            o2, _ = c02_gen.run_main(m2, fn, a, 4 * sp.fuel, cfg=sp.cfg)
            if isinstance(o2, OkV) and o2.v == exp:
                return 'folder-rem-arithmetic'     # the difference disappears with an exact truncating '%' fold
        except Exception:   # noqa: BLE001
            pass
    return None


# ------------------------------------------------------------------------------ witnesses (known defects)
def _mod(ir):
    from ppci.binutils.debuginfo import DebugDb
    return ir.Module('w', debug_db=DebugDb())


def _fn(ir, m, name, rt, params):
    f = ir.Function(name, ir.Binding.GLOBAL, rt) if rt is not None else ir.Procedure(name, ir.Binding.GLOBAL)
    m.add_function(f)
    ps = []
    for n, t in params:
        p = ir.Parameter(n, t)
        f.add_parameter(p)
        ps.append(p)
    e = ir.Block(name + '_entry')
    f.add_block(e)
    f.entry = e
    return f, e, ps


def w_las_forward(ir):
    m = _mod(ir)
    f, e, (x,) = _fn(ir, m, 'f', ir.i32, [('x', ir.i32)])
    a = ir.Alloc('a', 4, 4); e.add_instruction(a)
    pa = ir.AddressOf(a, 'pa'); e.add_instruction(pa)
    b = ir.Alloc('b', 4, 4); e.add_instruction(b)
    pb = ir.AddressOf(b, 'pb'); e.add_instruction(pb)
    five = ir.Const(5, 'five', ir.i32); e.add_instruction(five)
    e.add_instruction(ir.Store(x, pb))
    e.add_instruction(ir.Store(five, pa))
    e.add_instruction(ir.CopyBlob(pa, pb, 4))
    l = ir.Load(pa, 'l', ir.i32); e.add_instruction(l)
    e.add_instruction(ir.Return(l))
    return m


def w_las_deadstore(ir):
    m = _mod(ir)
    f, e, (x,) = _fn(ir, m, 'f', ir.i32, [('x', ir.i32)])
    a = ir.Alloc('a', 4, 4); e.add_instruction(a)
    pa = ir.AddressOf(a, 'pa'); e.add_instruction(pa)
    b = ir.Alloc('b', 4, 4); e.add_instruction(b)
    pb = ir.AddressOf(b, 'pb'); e.add_instruction(pb)
    six = ir.Const(6, 'six', ir.i32); e.add_instruction(six)
    e.add_instruction(ir.Store(x, pa))
    e.add_instruction(ir.CopyBlob(pb, pa, 4))
    e.add_instruction(ir.Store(six, pa))
    l = ir.Load(pb, 'l', ir.i32); e.add_instruction(l)
    e.add_instruction(ir.Return(l))
    return m


def w_clean_phi(ir):
    m = _mod(ir)
    f, e, (x,) = _fn(ir, m, 'f', ir.i32, [('x', ir.i32)])
    mid, join = ir.Block('mid'), ir.Block('join')
    f.add_block(mid); f.add_block(join)
    z = ir.Const(0, 'z', ir.i32); e.add_instruction(z)
    c1 = ir.Const(1, 'c1', ir.i32); e.add_instruction(c1)
    c2 = ir.Const(2, 'c2', ir.i32); e.add_instruction(c2)
    e.add_instruction(ir.CJump(x, '==', z, mid, join))
    mid.add_instruction(ir.Jump(join))
    p = ir.Phi('p', ir.i32); join.add_instruction(p)
    p.set_incoming(e, c1); p.set_incoming(mid, c2)
    join.add_instruction(ir.Return(p))
    return m


def w_tailcall(ir):
    m = _mod(ir)
    f, e, (p, n) = _fn(ir, m, 'f', ir.i32, [('p', ir.ptr), ('n', ir.i32)])
    b1, b2 = ir.Block('base'), ir.Block('rec')
    f.add_block(b1); f.add_block(b2)
    a = ir.Alloc('a', 4, 4); e.add_instruction(a)
    pa = ir.AddressOf(a, 'pa'); e.add_instruction(pa)
    e.add_instruction(ir.Store(n, pa))
    z = ir.Const(0, 'z', ir.i32); e.add_instruction(z)
    e.add_instruction(ir.CJump(n, '==', z, b1, b2))
    l = ir.Load(p, 'l', ir.i32); b1.add_instruction(l); b1.add_instruction(ir.Return(l))
    one = ir.Const(1, 'one', ir.i32); b2.add_instruction(one)
    n1 = ir.Binop(n, '-', one, 'n1', ir.i32); b2.add_instruction(n1)
    r = ir.FunctionCall(f, [pa, n1], 'r', ir.i32); b2.add_instruction(r)
    b2.add_instruction(ir.Return(r))
    g, ge, (k,) = _fn(ir, m, 'main', ir.i32, [('k', ir.i32)])
    s = ir.Alloc('s', 4, 4); ge.add_instruction(s)
    ps = ir.AddressOf(s, 'ps'); ge.add_instruction(ps)
    c7 = ir.Const(77, 'c7', ir.i32); ge.add_instruction(c7)
    ge.add_instruction(ir.Store(c7, ps))
    r2 = ir.FunctionCall(f, [ps, k], 'r2', ir.i32); ge.add_instruction(r2)
    ge.add_instruction(ir.Return(r2))
    return m


def w_cse_zero(ir):
    m = _mod(ir)
    g = ir.Variable('g', ir.Binding.GLOBAL, 8, 8); m.add_variable(g)
    f, e, _ = _fn(ir, m, 'f', ir.f64, [])
    a = ir.Const(0.0, 'a', ir.f64); e.add_instruction(a)
    b = ir.Const(-0.0, 'b', ir.f64); e.add_instruction(b)
    e.add_instruction(ir.Store(a, g))
    e.add_instruction(ir.Return(b))
    return m


def w_rem(ir):
    m = _mod(ir)
    f, e, _ = _fn(ir, m, 'f', ir.i32, [])
    a = ir.Const(-7, 'a', ir.i32); e.add_instruction(a)
    b = ir.Const(2, 'b', ir.i32); e.add_instruction(b)
    c = ir.Binop(a, '%', b, 'c', ir.i32); e.add_instruction(c)
    e.add_instruction(ir.Return(c))
    return m


def w_repeated_arg(ir):
    m = _mod(ir)
    xp = ir.ExternalProcedure('xp', [ir.i64, ir.i64]); m.add_external(xp)
    f, e, _ = _fn(ir, m, 'f', ir.i32, [])
    c = ir.Const(5, 'c', ir.i32); e.add_instruction(c)
    x = ir.Cast(c, 'x', ir.i64); e.add_instruction(x)
    e.add_instruction(ir.ProcedureCall(xp, [x, x]))
    e.add_instruction(ir.Return(c))
    return m


def w_addzero_float(ir):
    m = _mod(ir)
    f, e, (x,) = _fn(ir, m, 'f', ir.f64, [('x', ir.f64)])
    z = ir.Const(0.0, 'z', ir.f64); e.add_instruction(z)
    s = ir.Binop(x, '+', z, 's', ir.f64); e.add_instruction(s)
    e.add_instruction(ir.Return(s))
    return m


def float_bits(x):
    return int.from_bytes(struct.pack('<d', x), 'little')


def run_float_block(ir, f, args):
    """value returned by a one-block f64 function, f64 arithmetic = Python float arithmetic"""
    env = {id(p): a for p, a in zip(f.arguments, args)}
    for i in f.blocks[0].instructions:
        if isinstance(i, ir.Const):
            env[id(i)] = float(i.value)
        elif isinstance(i, ir.Binop):
            a, b = env[id(i.a)], env[id(i.b)]
            env[id(i)] = {'+': a + b, '-': a - b, '*': a * b}[i.operation]
        elif isinstance(i, ir.Return):
            return ('f', float_bits(env[id(i.result)]))
        else:
            raise ValueError('run_float_block: %s' % i)


WITNESSES = [
    # key, builder, passes, function, argument vectors, machine, owner
    ('las-forward-across-copyblob', w_las_forward, ['LoadAfterStorePass'], 'f', [[9], [0]], 'track'),
    ('las-dead-store-read-by-copyblob', w_las_deadstore, ['LoadAfterStorePass'], 'f', [[9], [0]], 'track'),
    ('clean-phi-input-overwritten', w_clean_phi, ['CleanPass'], 'f', [[0], [1], [7]], 'track'),
    ('tailcall-escaping-alloc', w_tailcall, ['TailCallOptimization'], 'main', [[0], [1], [3]], 'frame'),
    ('cse-signed-zero', w_cse_zero, ['CommonSubexpressionEliminationPass'], 'f', [[]], 'track'),
    ('addzero-float', w_addzero_float, ['RemoveAddZeroPass'], 'f', [[-0.0], [1.5]], 'float'),
    ('rem-floor-fold', w_rem, ['ConstantFolder'], 'f', [[]], 'track'),
    ('dangling-operand', w_repeated_arg, ['ConstantFolder', 'DeleteUnusedInstructionsPass'], 'f', [[]], 'track'),
]


def run_witnesses(ctx):
    c02_gen, ir, api, verify_module, print_module, classes = _ppci()
    res = {}
    for key, build, passes, fname, vecs, mach in WITNESSES:
        def ev(m):
            out = []
            for a in vecs:
                if mach == 'float':
                    out.append(run_float_block(ir, m.get_function(fname), a))
                else:
                    o, _ = c02_gen.run_main(m, fname, a, FUEL, machine=c02_gen.FrameMachine if mach == 'frame'
                                            else c02_gen.TrackMachine)
                    out.append(o.v if isinstance(o, OkV) else o)
            return out
        m = build(ir)
        verify_module(m)
        before = ev(m)
        text0 = module_text(m)
        try:
            for n in passes:
                classes[n]().run(m)
            after = ev(m)
        except Exception as ex:   # noqa: BLE001
            res[key] = 'pass raised %s' % type(ex).__name__
            continue
        ctx.cov['evaluations'] += 2 * len(vecs)
        if before == after:
            res[key] = 'agrees (defect not present)'
            continue
        res[key] = 'STILL FAILS'
        bad = [i for i in range(len(vecs)) if before[i] != after[i]][0]
        ctx.violation({'fn': '+'.join(passes), 'key': 'witness:' + key, 'class': key, 'function': fname,
                       'args': vecs[bad], 'expected': repr(before[bad]), 'actual': repr(after[bad]),
                       'semantics': {'track': 'tools/irsem_py.py', 'frame': 'irsem_py + one slot per ir.Alloc per activation',
                                     'float': 'Python float arithmetic'}[mach],
                       'module_before': text0, 'module_after': module_text(m),
                       'how_to_replay': 'build the module printed in module_before, run %s, execute %s%r'
                                        % ('+'.join(passes), fname, tuple(vecs[bad]))})
    ctx.cov['stages']['witnesses'] = res
    return res


# ------------------------------------------------------------------------------ layer B: validator on real pairs
def validator_cases(ctx, nmod, seed0):
    """run Model.OptValidate.check_spec (inside coqc) on the before/after block pairs produced by the real
    block-local passes.  true = the pair is proved equivalent (theorem c02_check_block_sound); false = not
    decided by the validator: the function is then executed before/after on argument vectors (layer C)."""
    import re
    c02_gen, ir, api, verify_module, print_module, classes = _ppci()
    import c02_export
    import irgen
    reqs = []
    stats = collections.Counter()
    for k in range(nmod):
        seed = seed0 + k
        size = 2 + k % 2
        for pname in BLOCK_LOCAL:
            m0 = c02_gen.gen(random.Random(seed), size, c02_gen.FEATS_QUICK)
            m1 = c02_gen.gen(random.Random(seed), size, c02_gen.FEATS_QUICK)
            try:
                classes[pname]().run(m1)
            except Exception:   # noqa: BLE001
                stats['pass_raised'] += 1
                continue
            if dangling_operands(m1, ir):
                stats['skipped_dangling_operand'] += 1
                continue
            for f0, f1 in zip(m0.functions, m1.functions):
                r = c02_export.func_requests(ir, m0, m1, f0, f1)
                if r is None or not any(i['changed'] for i in r[1]):
                    continue
                reqs.append((r[0], r[1], seed, size, pname, f0.name))
    if not reqs:
        ctx.failed_stages.append(('validator', 'no block pairs produced'))
        return
    accepted = rejected = unchanged_rejected = 0
    rejected_recs = []
    for k in range(0, len(reqs), 40):
        chunk = reqs[k:k + 40]
        out = ctx.eval_terms('validate_%d' % (k // 40), ['Spec.IRSyntax', 'Spec.IRSem', 'Model.OptValidate'],
                             [t for t, *_ in chunk])
        lists = re.findall(r'=\s*VL\s*\[(.*?)\]\s*:\s*val', out, re.S)
        if len(lists) != len(chunk):
            ctx.log('validator: cannot parse coqc output', out[-800:])
            ctx.failed_stages.append(('validator', 'coqc failed on validation requests'))
            return
        ctx.cov['evaluations'] += len(chunk)
        for (term, infos, seed, size, pname, fn), txt in zip(chunk, lists):
            res = re.findall(r'VB (true|false)', txt)
            if len(res) != len(infos):
                ctx.failed_stages.append(('validator', 'result list length mismatch'))
                return
            for info, r in zip(infos, res):
                if r == 'true':
                    accepted += info['changed']
                    stats['accepted_' + pname] += info['changed']
                elif info['changed']:
                    rejected += 1
                    stats['undecided_' + pname] += 1
                    rejected_recs.append((seed, size, pname, fn, info['block']))
                else:
                    unchanged_rejected += 1
    # fallback for undecided pairs: execute
    for seed, size, pname, fn, block in rejected_recs[:200]:
        m0 = c02_gen.gen(random.Random(seed), size, c02_gen.FEATS_QUICK)
        m1 = c02_gen.gen(random.Random(seed), size, c02_gen.FEATS_QUICK)
        classes[pname]().run(m1)
        f = m0.get_function(fn)
        for a in arg_vectors(random.Random(seed), f, irgen, 6):
            o, ru = c02_gen.run_main(m0, fn, a, FUEL)
            if not isinstance(o, OkV) or ru:
                continue
            o1, _ = c02_gen.run_main(m1, fn, a, 4 * FUEL)
            if not (isinstance(o1, OkV) and o1.v == o.v):
                ctx.violation({'fn': pname, 'key': 'validator-undecided:' + pname, 'class': 'behaviour-changed',
                               'function': fn, 'block': block, 'args': a, 'expected': repr(o.v),
                               'actual': repr(o1.v) if isinstance(o1, OkV) else str(o1),
                               'gen': {'seed': seed, 'size': size, 'features': list(c02_gen.FEATS_QUICK)},
                               'transformation': {'kind': 'pass', 'what': [pname]},
                               'module_before': module_text(m0), 'module_after': module_text(m1)})
                break
    ctx.cov['stages']['validator'] = {'function_pairs': len(reqs), 'changed_blocks_proved_equivalent': accepted,
                                      'changed_blocks_undecided': rejected,
                                      'unchanged_blocks_undecided': unchanged_rejected, 'stats': dict(stats)}
    ctx.cov['distinct_nontrivial'] += accepted
    if accepted < 2 * rejected:
        ctx.failed_stages.append(('validator', 'the validator decides only %d of %d changed block pairs'
                                  % (accepted, accepted + rejected)))


LOCAL_PASSES = ['RemoveAddZeroPass', 'ConstantFolder', 'CommonSubexpressionEliminationPass',
                'DeleteUnusedInstructionsPass', 'LoadAfterStorePass']


def validator_modules(ctx, n_irgen, n_corpus, seed0):
    """layer B, whole modules: Model.OptValidateFn.check_modul / check_local (inside coqc) on the before/after
    modules of the real block-local passes (each alone and all five in sequence), for irgen modules and for
    C-derived modules after Mem2RegPromotor.  true = proved equivalent by c02_check_local_sound; a function pair
    that is not decided is executed before/after (layer C) instead."""
    import re
    c02_gen, ir, api, verify_module, print_module, classes = _ppci()
    import irimport
    import irgen
    import c02_csrc
    reqs = []

    def add(sp, pre, passes, cfg_mode=False):
        m0, m1 = sp.make(), sp.make()
        try:
            for pn in pre:
                classes[pn]().run(m0)
                classes[pn]().run(m1)
            for pn in passes:
                classes[pn]().run(m1)
            p0, p1 = irimport.module_to_py(m0), irimport.module_to_py(m1)
        except Exception:   # noqa: BLE001  (pass exceptions are reported by the differential stage)
            return
        changed = [a[0] for a, b in zip(p0[3], p1[3]) if a != b]
        if not changed:
            return
        if cfg_mode:
            # beta: after block id -> before block id, by block name (untrusted hint of check_cfg)
            hs = []
            for fa, fb in zip(p0[3], p1[3]):
                ids = {b[1]: b[0] for b in fa[4]}
                hs.append('[%s]' % '; '.join('(%d, %d)' % (b[0], ids[b[1]]) for b in fb[4] if b[1] in ids))
            term = ('(let m := %s in let m1 := %s in let hs := [%s]%%positive in '
                    '(check_modul_cfg (mk_cfg %d %d %d) m m1 hs, '
                    'map (fun t => check_cfg (mk_cfg %d %d %d) (fst (fst t)) (snd (fst t)) (snd t)) '
                    '(combine (combine (m_funcs m) (m_funcs m1)) hs)))'
                    % ((irimport.py_to_coq(p0), irimport.py_to_coq(p1), '; '.join(hs)) + tuple(sp.cfg) + tuple(sp.cfg)))
        else:
            term = ('(let m := %s in let m1 := %s in (check_modul (mk_cfg %d %d %d) m m1, '
                    'map (fun p => check_local (mk_cfg %d %d %d) (fst p) (snd p)) (combine (m_funcs m) (m_funcs m1))))'
                    % ((irimport.py_to_coq(p0), irimport.py_to_coq(p1)) + tuple(sp.cfg) + tuple(sp.cfg)))
        reqs.append((term, sp, pre, passes, [f[0] for f in p0[3]], changed))
    for k in range(n_irgen):
        sp = irgen_spec(c02_gen, seed0 + k, 2 + k % 2, c02_gen.FEATS_QUICK)
        for pn in LOCAL_PASSES:
            add(sp, [], [pn])
        add(sp, [], LOCAL_PASSES)
        add(sp, [], ['CleanPass'], True)
        add(sp, [], ['DeleteUnusedInstructionsPass', 'CleanPass'], True)
    for k in range(n_corpus):
        name, src = c02_csrc.CORPUS[(seed0 + k) % len(c02_csrc.CORPUS)]
        sp = c_spec(c02_csrc, name, src, sorted(c02_csrc.ARCHS)[k % 2])
        for pn in LOCAL_PASSES:
            add(sp, ['Mem2RegPromotor'], [pn])
        add(sp, ['Mem2RegPromotor'], LOCAL_PASSES)
        add(sp, ['Mem2RegPromotor'], ['CleanPass'], True)
        add(sp, ['Mem2RegPromotor', 'DeleteUnusedInstructionsPass'], ['CleanPass'], True)
    stats = collections.Counter()
    undecided = []
    from concurrent.futures import ThreadPoolExecutor
    CH = 8
    with ThreadPoolExecutor(max_workers=4) as ex:
        outs = list(ex.map(lambda k: ctx.eval_terms('modul_%d' % (k // CH),
                                                    ['Spec.IRSyntax', 'Spec.IRSem', 'Model.OptValidate',
                                                     'Model.OptValidateFn', 'Model.OptValidateCfg'], [r[0] for r in reqs[k:k + CH]]),
                           range(0, len(reqs), CH)))
    for k, out in zip(range(0, len(reqs), CH), outs):
        chunk = reqs[k:k + CH]
        res = re.findall(r'=\s*VT\s*\[VB (true|false);\s*VL\s*\[(.*?)\]\]', out, re.S)
        if len(res) != len(chunk):
            ctx.log('validator (modules): cannot parse coqc output', out[-600:])
            ctx.failed_stages.append(('validator', 'coqc failed on module validation requests'))
            return
        ctx.cov['evaluations'] += len(chunk)
        for (modres, fl), (term, sp, pre, passes, fnames, changed) in zip(res, chunk):
            key = passes[0] if len(passes) == 1 else ('all_local_passes' if 'CleanPass' not in passes
                                                      else '+'.join(passes))
            stats['modules_%s_%s' % (sp.source, 'proved' if modres == 'true' else 'undecided')] += 1
            fres = re.findall(r'VB (true|false)', fl)
            for fn, r in zip(fnames, fres):
                if fn in changed:
                    stats['functions_%s_%s' % (key, 'proved' if r == 'true' else 'undecided')] += 1
                    stats['functions_%s' % ('proved' if r == 'true' else 'undecided')] += 1
                    if r != 'true':
                        undecided.append((sp, pre, passes, fn))
    # undecided function pairs: execute
    for sp, pre, passes, fn in undecided[:150]:
        m0, m1 = sp.make(), sp.make()
        for pn in pre:
            classes[pn]().run(m0)
            classes[pn]().run(m1)
        for pn in passes:
            classes[pn]().run(m1)
        f = m0.get_function(fn)
        if sp.source == 'c' and f not in c02_csrc.entries(ir, m0):
            continue
        vecs = arg_vectors(random.Random(seed0), f, irgen, 6) if sp.source == 'irgen' else \
            c02_csrc.c_arg_vectors(random.Random(seed0), f, 10)
        for a in vecs:
            o, ru = c02_gen.run_main(m0, fn, a, sp.fuel, cfg=sp.cfg)
            if not isinstance(o, OkV) or ru:
                continue
            o1, _ = c02_gen.run_main(m1, fn, a, 4 * sp.fuel, cfg=sp.cfg)
            ctx.cov['evaluations'] += 1
            if not (isinstance(o1, OkV) and o1.v == o.v):
                ctx.violation({'fn': '+'.join(pre + passes), 'key': 'modul-undecided:' + '+'.join(passes),
                               'class': 'behaviour-changed', 'function': fn, 'args': a, 'expected': repr(o.v),
                               'actual': repr(o1.v) if isinstance(o1, OkV) else str(o1), 'gen': sp.gen,
                               'transformation': {'kind': 'pass', 'what': pre + passes},
                               'module_before': module_text(m0), 'module_after': module_text(m1)})
                break
    ctx.cov['stages']['validator_modules'] = {'module_pairs': len(reqs), 'stats': dict(stats)}
    ctx.cov['distinct_nontrivial'] += stats['functions_proved']


def promote_witness_tie(ctx):
    """the three modules of Proofs/C02_promote.v are the importer's rendering of what the real Mem2RegPromotor
    produces today: rebuild them and compare with the text of the Coq file"""
    c02_gen, ir, api, verify_module, print_module, classes = _ppci()
    import irimport

    def r1():
        m = _mod(ir); f, e, _ = _fn(ir, m, 'f', ir.i32, [])
        a = ir.Alloc('a', 4, 4); e.add_instruction(a); p = ir.AddressOf(a, 'p'); e.add_instruction(p)
        l = ir.Load(p, 'l', ir.i32); e.add_instruction(l); e.add_instruction(ir.Return(l)); return m

    def r2():
        m = _mod(ir); f, e, (x,) = _fn(ir, m, 'f', ir.i64, [('x', ir.i32)])
        a = ir.Alloc('a', 4, 4); e.add_instruction(a); p = ir.AddressOf(a, 'p'); e.add_instruction(p)
        e.add_instruction(ir.Store(x, p)); l = ir.Load(p, 'l', ir.i32); e.add_instruction(l)
        b = ir.Alloc('b', 8, 8); e.add_instruction(b); pb = ir.AddressOf(b, 'pb'); e.add_instruction(pb)
        c = ir.Cast(pb, 'c', ir.i64); e.add_instruction(c); e.add_instruction(ir.Return(c)); return m

    def r3():
        m = _mod(ir); f, e, _ = _fn(ir, m, 'f', ir.i32, [])
        a = ir.Alloc('a', 4, 4); e.add_instruction(a); p = ir.AddressOf(a, 'p'); e.add_instruction(p)
        five = ir.Const(5, 'five', ir.i32); e.add_instruction(five); e.add_instruction(ir.Store(five, p))
        q = ir.Const(16777216, 'q', ir.ptr); e.add_instruction(q)
        seven = ir.Const(7, 'seven', ir.i32); e.add_instruction(seven); e.add_instruction(ir.Store(seven, q))
        l = ir.Load(p, 'l', ir.i32); e.add_instruction(l); e.add_instruction(ir.Return(l)); return m
    from vlib import COQ
    text = ' '.join(open(os.path.join(COQ, 'Proofs/C02_promote.v')).read().split())
    res = {}
    for k, b in enumerate((r1, r2, r3)):
        m0, m1 = b(), b()
        try:
            classes['Mem2RegPromotor']().run(m1)
            ok = ' '.join(irimport.module_to_coq(m0).split()) in text and ' '.join(irimport.module_to_coq(m1).split()) in text
        except Exception:   # noqa: BLE001
            ok = False
        res['r%d' % (k + 1)] = 'matches Proofs/C02_promote.v' if ok else 'DIFFERS'
        if not ok:
            ctx.failed_stages.append(('translate', 'Mem2RegPromotor output for witness r%d differs from Proofs/C02_promote.v'
                                      % (k + 1)))
    ctx.cov['stages']['promote_witnesses'] = res


def search(ctx):
    run_witnesses(ctx)
    differential(ctx, 60 if ctx.quick() else 600, not ctx.quick(), ctx.seed * 1000)


def run(ctx):
    try:
        regen(ctx)
    except (ValueError, OSError, SyntaxError) as ex:
        ctx.log('cannot export the optimizer pipeline: %s' % ex)
        ctx.failed_stages.append(('translate', 'api.optimize pipeline: %s' % ex))
    ok, _ = ctx.build(['Proofs/C02_rules.vo', 'Proofs/C02_validate.vo', 'Proofs/C02_local.vo', 'Proofs/C02_clean.vo', 'Proofs/C02_promote.vo',
                       'Gen/c02_pipeline.vo'])
    if ok:
        ctx.check_props('Props/C02.v')
    run_witnesses(ctx)
    promote_witness_tie(ctx)
    thorough = (not ctx.quick()) or bool(ctx.failed_stages)
    if ok:
        validator_cases(ctx, 12 if ctx.quick() else 60, ctx.seed * 1000 + 500000)
        validator_modules(ctx, 3 if ctx.quick() else 12, 3 if ctx.quick() else 8, ctx.seed * 1000 + 700000)
    differential(ctx, 150 if not thorough else 2000, thorough, ctx.seed * 1000)
    ctx.cov['exhaustive'] = False


MANIFEST = {
    'text': 'translation validation + differential execution: every optimizer pass class of ppci/opt (the list is read from '
            'api.optimize and ppci/opt on every run and must be covered), random pass sequences, the canonical pipeline order '
            'and api.optimize levels are run on generated IR modules (phis, loops, shared successors, allocas, globals, calls, '
            'self tail calls, CopyBlob, aliasing pointers, type punning) and on C functions compiled by ppci (hand-written '
            'idiom corpus + generated C, x86_64 and arm); the before/after modules are executed by the reference IR '
            'interpreter on boundary and random argument vectors: return value, final globals and external call trace must '
            'agree whenever the original run is defined; an exception raised by a pass is a violation. Coq proves, unbounded, '
            'the soundness of the local rewrite rules (add-zero, mul-one, constant folding as IRSem.eval_binop, chain folding, '
            'cjmp on constants, common subexpressions, dead pure instructions), of a validator for straight-line block pairs '
            'and of a validator for whole modules transformed by block-local passes (c02_check_local_sound: the after-module '
            'returns the same result, memory and trace with the same fuel whenever the before-module terminates normally). '
            'The validators run inside coqc on the output of the real RemoveAddZero / ConstantFolder / CSE / DeleteUnused / '
            'LoadAfterStore passes; about 60 % of the changed functions (86 % of the changed blocks) are decided in Coq, the rest is '
            'executed. '
            'A third verified validator (c02_check_clean_sound: glued blocks, bypassed empty blocks, re-routed phi inputs) is run '
            'on every real CleanPass pair (about three quarters accepted). Mem2RegPromotor cannot be a refinement under the '
            'concrete-address reference semantics (three real pairs proved to differ: c02_promote_*_refuted); it, tail call, '
            'cjump and LoadAfterStore forwarding rest on differential execution, plus the proved read-after-write rule c02_rule_las',
    'note': 'trusted: IRSem.v reading of the IR, irsem_py twin, irimport; float rules tested with Python floats; frame-slot '
            'reading of Alloc for the tail-call witness. Not decided by the Coq validators (executed instead): uses replaced '
            'across blocks, constants defined in other blocks, x+0 on values whose range is not evident, dropped loads/allocs, '
            'store-to-load forwarding. Defects found and fixed: LoadAfterStore vs CopyBlob, CleanPass phi overwrite, tail call '
            'with live stack memory, CSE of +-0.0, x+0.0; % folding and replace_use on repeated operands were fixed by C38/C03',
    'technique': 'verified validators (block, whole module for block-local passes, CFG validator for CleanPass) and rule lemmas '
                 'in Coq; differential execution against the reference interpreter for everything else',
}


if __name__ == '__main__':
    # replay a violation record: regenerate the module, apply the transformation, execute before/after
    if len(sys.argv) == 3 and sys.argv[1] == '--replay':
        rec = json.load(open(sys.argv[2]))
        c02_gen, ir, api, verify_module, print_module, classes = _ppci()
        sp = spec_from_gen(rec['gen'])
        tr = Transform(rec['transformation']['kind'], rec['transformation']['what'])
        m0, m1 = sp.make(), sp.make()
        tr.apply(m1, classes, api)
        if rec.get('function') is None:
            print('transformation applied without exception')
            sys.exit(0)
        for m in (m0, m1):
            o, _ = c02_gen.run_main(m, rec['function'], rec['args'], 4 * sp.fuel, cfg=sp.cfg)
            print(o.v if isinstance(o, OkV) else o)
