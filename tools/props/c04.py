"""C04 — x86-64 native code reproduces C program behaviour (DESIGN §4 C04) — PARTIAL (level other).

Proved cores (Coq, Props/C04.v):
  * Model/PhiCopy.v (tie H of irdag.py copy_phis_of_successors / do_phi): the emitted move sequence is a
    parallel assignment; with isolated phi registers the whole control-flow edge is correct; without
    (the code as found) the branch condition / values live across the edge are corrupted (refuted, witness
    replayed natively on every run while it still fails).
  * Model/Peephole.v (tie H of peephole.py PeepHoleStream) + Spec/StreamSem.v: the filtered stream is a
    stuttering bisimulation of the original one.
  * Gen/Tab_effects.v (tie I): every instruction class of every arch that defines `effect` is the Label class
    or the class the arch's selection pattern for the IR JMP tree emits, with effect = [set pc <target>].
Searched, NOT proved: end-to-end native behaviour (differential run against gcc -O0, both link paths).
"""
import io
import os
import re
import shutil
import subprocess
import sys
import time

from vlib import TieBroken, Internal, OkV

LEVEL = 'other'
RULE = ('peephole: seeded random streams of real instruction objects (Label, x86_64 NearJump with names from a pool of 4, '
        'other x86_64/arm/riscv/generic instructions); non-trivial = stream in which the real filter removed at least one item. '
        'phi copies: every block with successor phis of hand-written swap/chain/self-input/duplicate-edge IR functions, of '
        'mem2reg-optimised generated C functions and of tools/gen/irgen.py modules, lowered by the real SelectionGraphBuilder + '
        'DagSplitter for x86_64, arm and riscv; non-trivial = block whose copy sequence has at least two phis or a phi-register source. '
        'native search: generated UB-free C translation units (unsigned/int/long arithmetic, loops with swapped and carried variables, '
        'do-while, arrays, switch, calls with up to 6 arguments, globals) at -O0/1/2/s, linked by gcc and by the ppci linker, '
        'stdout+exit status compared with the gcc -O0 build; counted under evaluations, not under distinct_nontrivial. '
        'systematic native programs (tools/gen/csysgen.py, every run, -O0 and -O2): all 100 integer conversions S->D over 10 types on '
        '{0,1,-1,MIN,MAX,MAX/2+1} as return/assignment/cast/argument/inside xor,add,compare; + - * / % & | ^ << >> and the six '
        'comparisons on every type over 9 boundary operands (undefined combinations excluded by exact arithmetic); loads/stores/'
        'struct fields of every width; calls with 9-11 integer arguments - validation only')
EXPLANATION = ('Partial by nature. Unbounded Coq theorems about two logical cores of the x86-64 path (phi lowering, peephole '
               'filter) over hand models tied to the code by differential correspondence, plus a reflected check of an exported '
               'table. NOT modelled: x86-64 instruction semantics and encodings, instruction selection rules, register allocation '
               '(C06), calling convention (C40), the linker (C12), ELF writing/loading (C15), gcc, libc. End-to-end native '
               'behaviour is only searched by differential execution against gcc.')
TRUSTED = ['hand models Model/PhiCopy.v and Model/Peephole.v correspond to irdag.py / peephole.py (checked by per-run differential '
           'correspondence on the real SelectionGraphBuilder+DagSplitter output and the real PeepHoleStream, not proved)',
           'Spec/StreamSem.v: an instruction with an `effect` is fully described by it; instructions without are arbitrary',
           'the exporter of Gen/Tab_effects.v (class walk + execution of each arch JMP selection pattern on a probe tree)',
           'the register numbering / source abstraction done by tools/props/c04.py when comparing trees with model moves']
ASSUMPTIONS = ['phi copy theorem: temporaries are fresh (new_vreg never returns a register already in use) and phis of one block '
               'have distinct phi registers; the same successor listed twice is covered',
               'edge theorem: phi registers are isolated (read only by the head move of their own block); holds for the code with '
               'fixes/C04-phi-lost-copy.diff, checked dynamically on every lowered function; refuted for the code as found',
               'peephole theorem: label definitions in the stream are pairwise distinct (duplicate symbols are rejected later); '
               'shown necessary',
               'native search needs gcc and an x86-64 Linux host; skipped (and said so) otherwise']

MANIFEST = {
    'text': 'partial (level other). PROVED in Coq over hand models of two logical cores of the native x86-64 path: (1) the moves '
            'that irdag.copy_phis_of_successors emits at a block end implement a parallel assignment for every list of phis and '
            'every register state (swaps, chains, self inputs, one value feeding two phis, a successor listed twice; fresh '
            'temporaries); with phi registers isolated (the proposed fix) the whole control-flow edge - copies for all successors, '
            'terminator operand, head moves of the taken successor - gives every phi of the taken successor the old value of its '
            'input and changes no other value register; for the code as found this is refuted (branch condition evaluated on '
            'overwritten phi register; lost copy on the loop exit) and the witness is a real -O1/-O2 miscompilation; '
            '(2) PeepHoleStream equals "drop an item when the next item has an equal effect and it is no Label" and, in an abstract '
            'semantics where an instruction with an effect is a label definition or an unconditional jump and every other '
            'instruction is arbitrary, the filtered stream simulates the original step for step up to stuttering (same state, '
            'same stop reason) and conversely, given unique labels; every instruction class with an `effect` in every arch is '
            'the Label class or the unconditional jump emitted for the IR JMP tree with effect "pc := target" (reflected table '
            'check). ONLY SEARCHED, not proved: that generated defined-behaviour C programs compiled for x86-64 at -O0/1/2/s and '
            'linked by gcc or by the ppci linker print and exit like the gcc -O0 build. Not covered by any proof: x86-64 '
            'instruction semantics/encodings, selection rules, register allocation, ABI (see C40), linking, ELF, libc.',
    'note': 'trusted: Coq kernel; the two hand models are tied to the Python only by per-run differential correspondence (real '
            'SelectionGraphBuilder/DagSplitter trees for x86_64, arm, riscv; real PeepHoleStream on random streams); the abstract '
            'stream semantics; the table exporter. No axioms.',
    'technique': 'Coq proofs over hand models + exported table, differential correspondence, differential native execution vs gcc',
}

PEEP_SRC = 'ppci/codegen/peephole.py'
DAG_SRC = 'ppci/codegen/irdag.py'
MODEL_IMPORTS = ['Model.PhiCopy', 'Model.Peephole']


# ================================================================ tie I: classes that define `effect`
def _all_subclasses(c, seen=None):
    seen = seen if seen is not None else set()
    for s in c.__subclasses__():
        if s not in seen:
            seen.add(s)
            _all_subclasses(s, seen)
    return seen


class _ProbeCtx:
    """stand-in for InstructionContext: records what a selection pattern emits"""

    def __init__(self):
        self.out = []

    def emit(self, ins):
        self.out.append(ins)
        return ins

    def new_reg(self, cls):
        return cls('probe')

    def new_label(self):
        from ppci.arch.generic_instructions import Label
        return Label('probe_fresh')

    def move(self, dst, src):
        self.out.append(('move', dst, src))


def jmp_pattern_classes():
    """for every arch: the instruction list its selection pattern for the IR tree JMP emits for a probe label"""
    import ppci.arch.target_list as tl
    from ppci.arch.generic_instructions import Label
    res = {}
    for name in tl.target_names:
        try:
            arch = tl.create_arch(name)
        except Exception:      # noqa: BLE001
            continue
        for pat in arch.isa.patterns:
            if str(pat.tree) != 'JMP':
                continue
            for probe in ('c04_La', 'c04_Lb', 'c04_Lc'):
                lab = Label(probe)

                class T:
                    value = lab
                    children = []
                    name = 'JMP'
                pc = _ProbeCtx()
                try:
                    pat.method(pc, T)
                except Exception:      # noqa: BLE001
                    pc.out = None
                res.setdefault(name, []).append((probe, lab, pc.out))
    return res


def effect_rows():
    import ppci.arch.target_list  # noqa: F401  (imports every arch)
    from ppci.arch.encoding import Instruction
    from ppci.arch.generic_instructions import Label
    classes = _all_subclasses(Instruction)
    jm = jmp_pattern_classes()
    rows = []
    for c in sorted(classes, key=lambda c: (c.__module__, c.__qualname__)):
        if not hasattr(c, 'effect'):
            continue
        is_label = issubclass(c, Label)
        is_jmp = False
        eff_ok = False
        if is_label:
            eff_ok = all(c(n).effect() == [('set', 'pc', n)] for n in ('c04_La', 'c04_Lb', 'c04_Lc'))
        else:
            hits = []
            for arch, probes in jm.items():
                for (probe, lab, out) in probes:
                    if out and any(type(o) is c for o in out if not isinstance(o, tuple)):
                        only = len(out) == 1 and type(out[0]) is c
                        o = out[0] if only else None
                        hits.append(only and getattr(o, 'jumps', None) == [lab]
                                    and o.effect() == [('set', 'pc', probe)])
            is_jmp = bool(hits) and all(hits)
            eff_ok = is_jmp
        rows.append((c.__module__, c.__qualname__, is_label, is_jmp, eff_ok))
    return rows, len(classes), sorted(jm)


def coq_s(s):
    return '"%s"' % s.replace('"', '""')


def coq_b(b):
    return 'true' if b else 'false'


def regen(ctx):
    try:
        rows, nclasses, archs = effect_rows()
    except Exception as ex:      # noqa: BLE001
        ctx.log('effect class export failed: %r' % (ex,))
        ctx.failed_stages.append(('export', repr(ex)))
        raise TieBroken(str(ex))
    t = ['(* generated by tools/props/c04.py from the instruction classes of every ppci arch: the classes that define',
         '   an `effect` method (what PeepHoleStream looks at). DO NOT EDIT. *)',
         'From Coq Require Import List String Bool ZArith.', 'Import ListNotations.', 'Local Open Scope string_scope.',
         '(* module, class, issubclass Label, is the single instruction (with jumps=[target]) that an arch selection',
         '   pattern for the IR tree JMP emits, effect() == [("set","pc",<label name / target>)] on three probes *)',
         'Definition effect_classes : list (string * string * bool * bool * bool) := [',
         ';\n'.join('  (%s, %s, %s, %s, %s)' % (coq_s(m), coq_s(n), coq_b(a), coq_b(b), coq_b(c)) for m, n, a, b, c in rows),
         '].',
         'Definition classes_scanned : Z := %d%%Z.' % nclasses, '']
    changed = ctx.write_gen('Tab_effects', '\n'.join(t))
    ctx.cov['stages']['gen_Tab_effects'] = {'classes_scanned': nclasses, 'archs_with_JMP_pattern': archs,
                                            'with_effect': ['%s.%s' % (m, n) for m, n, *_ in rows],
                                            'changed_on_disk': changed}
    return rows


# ================================================================ peephole: model vs real PeepHoleStream
def instruction_pool():
    """constructors of real instruction objects without an effect (several archs) and with one"""
    from ppci.arch.generic_instructions import Label, Alignment, SectionInstruction, Comment, Global
    from ppci.arch.x86_64 import instructions as x
    from ppci.arch.x86_64 import registers as xr
    others = [lambda: x.Ret(), lambda: x.Push(xr.rbx), lambda: x.Pop(xr.rbx), lambda: x.Syscall(),
              lambda: x.MovRegRm(xr.rax, x.RmReg(xr.rcx)), lambda: Alignment(8), lambda: Comment('c'),
              lambda: SectionInstruction('code'), lambda: Global('g')]
    for cond in ('Je', 'Jne', 'Jl', 'Jge'):
        others.append(lambda c=cond: getattr(x, c)('L0'))
    others.append(lambda: x.Call('L1'))
    try:
        from ppci.arch.arm import arm_instructions as a
        from ppci.arch.arm import registers as ar
        others += [lambda: a.B('L0'), lambda: a.Mov2(ar.R0, ar.R1, a.NoShift()), lambda: a.Bl('L1')]
    except Exception:      # noqa: BLE001
        pass
    try:
        from ppci.arch.riscv import instructions as rv
        from ppci.arch.riscv import registers as rr
        others += [lambda: rv.B('L0'), lambda: rv.Bl(rr.R1, 'L1'), lambda: rv.Addi(rr.R1, rr.R2, 4)]
    except Exception:      # noqa: BLE001
        pass
    good = []
    for mk in others:
        try:
            mk()
            good.append(mk)
        except Exception:      # noqa: BLE001
            pass
    return Label, x.NearJump, good


def show_ins(i):
    try:
        return '%s(%s)' % (type(i).__name__, str(i))
    except Exception:      # noqa: BLE001
        return repr(i)


def real_peephole(stream):
    from ppci.codegen.peephole import PeepHoleStream
    from ppci.binutils.outstream import OutputStream

    class Rec(OutputStream):
        def __init__(self):
            super().__init__()
            self.items = []

        def do_emit(self, item):
            self.items.append(item)
    rec = Rec()
    ps = PeepHoleStream(rec)
    for it in stream:
        ps.emit(it)
    ps.flush()
    return rec.items


def gen_stream(rng, Label, NearJump, others, n):
    names = ['L0', 'L1', 'L2', 'L3']
    st = []
    for _ in range(n):
        r = rng.random()
        if r < 0.33:
            st.append(NearJump(rng.choice(names[: rng.choice([1, 2, 4])])))
        elif r < 0.62:
            st.append(Label(rng.choice(names[: rng.choice([1, 2, 4])])))
        else:
            st.append(rng.choice(others)())
    return st


def item_term(idx, it, Label):
    eff = None
    if hasattr(it, 'effect'):
        eff = repr(it.effect())
    return '(%d, %s, %s)' % (idx, 'Some %s%%string' % coq_s(eff) if eff is not None else 'None', coq_b(isinstance(it, Label)))


def peephole_oracle(stream, Label):
    """independent statement of what is allowed: only `jmp L` directly followed (in the input) by `L:` or `jmp L` may go"""
    out = []
    for i, it in enumerate(stream):
        nxt = stream[i + 1] if i + 1 < len(stream) else None
        cls = type(it).__name__
        if (cls == 'NearJump' and nxt is not None and
                ((isinstance(nxt, Label) and nxt.name == it.target) or
                 (type(nxt).__name__ == 'NearJump' and nxt.target == it.target))):
            continue
        out.append(i)
    return out


def peephole_stage(ctx, thorough):
    Label, NearJump, others = instruction_pool()
    rng = ctx.rng
    nstreams = 900 if thorough else 260
    streams = []
    # directed streams first
    J, Lb, O = NearJump, Label, others[0]
    directed = [[], [J('L0')], [Lb('L0')], [J('L0'), Lb('L0')], [J('L0'), Lb('L1')], [J('L0'), J('L0')],
                [J('L0'), J('L0'), Lb('L0')], [J('L0'), J('L0'), J('L0'), Lb('L0'), O()],
                [Lb('L0'), Lb('L0')], [Lb('L0'), J('L0')], [Lb('L0'), J('L0'), Lb('L0')],
                [J('L0'), O(), Lb('L0')], [O(), J('L1'), Lb('L1'), J('L1'), Lb('L1')],
                [J('L0'), Lb('L0'), Lb('L0')], [J('L1'), J('L0'), Lb('L0')], [J('L0'), Lb('L0'), J('L0'), Lb('L0'), J('L0')]]
    streams += directed
    for _ in range(nstreams):
        streams.append(gen_stream(rng, Label, NearJump, others, rng.choice([1, 2, 3, 5, 8, 13, 21])))
    cases, removed_any, bad_oracle = [], 0, []
    for st in streams:
        try:
            out = real_peephole(st)
        except Exception as ex:      # noqa: BLE001
            ctx.violation({'fn': 'PeepHoleStream', 'args': [show_ins(i) for i in st], 'expected': 'no exception',
                           'actual': repr(ex), 'how_to_replay': 'emit the items into PeepHoleStream(recorder); flush()'})
            continue
        idx = {id(it): k for k, it in enumerate(st)}
        got = [idx.get(id(o), -1) for o in out]
        if len(got) < len(st):
            removed_any += 1
        cases.append(('case_peephole [%s]' % '; '.join(item_term(k, it, Label) for k, it in enumerate(st)), got))
        want = peephole_oracle(st, Label)
        if got != want:
            bad_oracle.append((st, got, want))
    ctx.cov['stages']['peephole_corr'] = {'streams': len(streams), 'streams_with_removal': removed_any,
                                          'other_instruction_kinds': len(others)}
    ctx.cov['distinct_nontrivial'] += removed_any
    ctx.note_sample({'fn': 'PeepHoleStream', 'input': [repr(i) for i in streams[len(directed) + 1]][:8]})
    for st, got, want in bad_oracle[:3]:
        ctx.violation({'fn': 'PeepHoleStream', 'key': 'peephole-oracle', 'args': [show_ins(i) for i in st],
                       'expected': 'kept indices %r (only `jmp L` directly followed by `L:`/`jmp L` may be dropped)' % (want,),
                       'actual': 'kept indices %r' % (got,),
                       'how_to_replay': 'emit the items into ppci.codegen.peephole.PeepHoleStream(recorder); flush(); compare'})
    bad = ctx.run_cases('peephole', MODEL_IMPORTS, cases)
    if bad:
        ctx.failed_stages.append(('correspondence', 'Model.Peephole disagrees with %s on %d streams' % (PEEP_SRC, len(bad))))
    return bad_oracle


# ================================================================ phi copies: model vs real lowering
def lower(arch, f):
    """run the real SelectionGraphBuilder + DagSplitter; -> (function_info, temps per block, trees per block)"""
    from ppci.codegen.irdag import SelectionGraphBuilder, FunctionInfo, prepare_function_info
    from ppci.codegen.dagsplit import DagSplitter
    from ppci.binutils.debuginfo import DebugDb
    from ppci.arch.generic_instructions import Label
    frame = arch.new_frame(f.name, f)
    dbg = DebugDb()
    fi = FunctionInfo(frame)
    prepare_function_info(arch, fi, f)
    sgb = SelectionGraphBuilder(arch)
    temps = {}
    orig = SelectionGraphBuilder.copy_phis_of_successors

    def wrapped(self, blk):
        made = []
        nv = self.new_vreg

        def rec(ty):
            r = nv(ty)
            made.append(r)
            return r
        self.new_vreg = rec
        try:
            return orig(self, blk)
        finally:
            del self.new_vreg
            temps[blk] = made
    SelectionGraphBuilder.copy_phis_of_successors = wrapped
    try:
        sg = sgb.build(f, fi, dbg)
    finally:
        SelectionGraphBuilder.copy_phis_of_successors = orig
    forest = DagSplitter(arch).split_into_trees(sg, f, fi, dbg)
    lab2blk = {fi.label_map[b]: b for b in f}
    per, cur = {}, None
    for t in forest:
        if isinstance(t, Label):
            cur = lab2blk.get(t)
            if cur is not None:
                per[cur] = []
            continue
        if cur is not None:
            per[cur].append(t)
    return fi, temps, per


def tree_leaves(tree):
    out = []

    def go(t):
        if str(t.name).startswith('REG'):
            out.append(t.value)
        for c in t.children:
            go(c)
    go(tree)
    return out


def is_mov(t):
    return str(t.name).startswith('MOV') and len(t.children) == 1 and not str(t.name).startswith('MOVB')


def is_self_move(t):
    c = t.children[0]
    return str(c.name).startswith('REG') and not c.children and c.value is t.value


class Numbering:
    def __init__(self):
        self.m = {}

    def __call__(self, r):
        if id(r) not in self.m:
            self.m[id(r)] = (len(self.m) + 1, r)
        return self.m[id(r)][0]


def src_of_tree(c, num):
    """abstraction of the source operand of a MOV tree: ('r', n) | ('c', v) | ('f', [n..])"""
    nm = str(c.name)
    if nm.startswith('REG') and not c.children:
        return ('r', num(c.value))
    if nm.startswith('CONST') and not c.children and isinstance(c.value, int):
        return ('c', c.value)
    return ('f', [num(r) for r in tree_leaves(c)])


def src_term(s):
    if s[0] == 'r':
        return 'SReg %d' % s[1]
    if s[0] == 'c':
        return 'SConst (%d)' % s[1]
    return 'SFun [%s] (fun _ => 0)' % '; '.join(str(x) for x in s[1])


def src_py(s):
    return (s[0], s[1])


def analyse_function(arch, f, stats):
    """-> (cases, problems, isolated flag, nblocks) for one function"""
    fi, temps, per = lower(arch, f)
    phi_regs = {id(v): p for p, v in fi.phi_map.items()}
    isolated = all(fi.value_map[p].vreg is not fi.phi_map[p] for p in fi.phi_map) if fi.phi_map else None
    cases, problems = [], []
    for b in f:
        trees = per.get(b, [])
        allphis = [(s, p) for s in b.successors for p in s.phis]
        tset = {id(t) for t in temps.get(b, [])}
        own = {id(fi.value_map[p].vreg): p for p in b.phis}
        # ---- head moves of this block
        first_tmp = next((k for k, t in enumerate(trees) if is_mov(t) and id(t.value) in tset), len(trees))
        head = [t for t in trees[:first_tmp] if is_mov(t) and id(t.value) in own and not is_self_move(t)]
        if isolated:
            num = Numbering()
            triple = []
            for p in b.phis:
                triple.append((num(fi.phi_map[p]), num(fi.value_map[p].vreg), 0))
            got = [(num(t.value), src_py(src_of_tree(t.children[0], num))) for t in head]
            if b.phis:
                cases.append(('case_head [%s]' % '; '.join('(%d, %d, %d)' % x for x in triple), got,
                              ('head', f.name, b.name)))
        elif head:
            problems.append(('head', f.name, b.name, 'unexpected non-self head moves in un-isolated lowering'))
        # ---- isolation hypothesis: a phi register is read only by the head move of its own block
        if isolated:
            for t in trees:
                for r in tree_leaves(t):
                    if id(r) in phi_regs:
                        p = phi_regs[id(r)]
                        ok = (is_mov(t) and p.block is b and t.value is fi.value_map[p].vreg
                              and not t.children[0].children)
                        if not ok:
                            problems.append(('isolation', f.name, b.name, 'phi register %s read by %s' % (r, t)))
        if not allphis:
            continue
        # ---- copy sequence at the block end
        num = Numbering()
        keys = {}
        triple = []
        for (s, p) in allphis:
            fv = p.get_value(b)
            k = keys.setdefault(id(fv), len(keys) + 1)
            triple.append((num(fi.phi_map[p]), num(fi.value_map[p].vreg), k, fv))
        succ_phi_regs = {id(fi.phi_map[p]) for (_, p) in allphis}
        seq = [t for t in trees[first_tmp:] if is_mov(t) and not is_self_move(t) and (id(t.value) in tset or id(t.value) in succ_phi_regs)]
        # sources of step 1, derived from the IR value (independently of the emitted MOV where possible)
        step1 = [t for t in seq if id(t.value) in tset]
        vml = {}
        for (pr, pv, k, fv), t in zip(triple, step1):
            sv = fi.value_map[fv]
            if sv.vreg is not None:
                s = ('r', num(sv.vreg))
            elif str(sv.node.name.op) == 'CONST' and isinstance(sv.node.value, int):
                s = ('c', sv.node.value)
            else:
                s = ('f', [num(r) for r in tree_leaves(t.children[0])])
            vml.setdefault(k, s)
        nxt = len(num.m) + 1
        for t in temps.get(b, []):        # temporaries numbered next, next+1, ... in creation order
            num(t)
        got = [(num(t.value), src_py(src_of_tree(t.children[0], num))) for t in seq]
        term = 'case_copy [%s] [%s] %d' % ('; '.join('(%d, %s)' % (k, src_term(s)) for k, s in vml.items()),
                                           '; '.join('(%d, %d, %d)' % x[:3] for x in triple), nxt)
        cases.append((term, got, ('copy', f.name, b.name)))
        # anything else between the first copy and the terminator must not write a phi register or a temporary
        for t in trees[first_tmp:-1]:
            if t not in seq and is_mov(t) and not is_self_move(t) and (id(t.value) in tset or id(t.value) in phi_regs):
                problems.append(('copy', f.name, b.name, 'unexpected write %s inside the copy sequence' % (t,)))
        if len(seq) != 2 * len(allphis):
            problems.append(('copy', f.name, b.name, '%d moves for %d phis' % (len(seq), len(allphis))))
        stats['blocks'] += 1
        if len(allphis) >= 2 or any(s[0] == 'r' and any(s[1] == x[0] for x in triple) for s in vml.values()):
            stats['nontrivial'] += 1
        stats['maxphis'] = max(stats['maxphis'], len(allphis))
        if len(set(x[0] for x in triple)) < len(triple):
            stats['dup_successor'] += 1
        if len(keys) < len(set(x[0] for x in triple)):
            stats['shared_source'] += 1
    return cases, problems, isolated


def ir_swap_functions():
    """hand-written IR: swap, 3-cycle, chain, self input, one value feeding two phis, the same successor twice"""
    from ppci import ir
    m = ir.Module('c04phis')

    def loop_fn(name, nphi, perm, extra=None):
        f = ir.Function(name, ir.Binding.GLOBAL, ir.i32)
        m.add_function(f)
        n = ir.Parameter('n', ir.i32)
        f.add_parameter(n)
        entry, head, body, done = (ir.Block(name + '_' + s) for s in ('entry', 'head', 'body', 'done'))
        for b in (entry, head, body, done):
            f.add_block(b)
        f.entry = entry
        consts = [ir.Const(10 + k, 'c%d' % k, ir.i32) for k in range(nphi)]
        zero = ir.Const(0, 'zero', ir.i32)
        one = ir.Const(1, 'one', ir.i32)
        for c in consts + [zero, one]:
            entry.add_instruction(c)
        entry.add_instruction(ir.Jump(head))
        phis = [ir.Phi('p%d' % k, ir.i32) for k in range(nphi)]
        cnt = ir.Phi('cnt', ir.i32)
        for p in phis + [cnt]:
            head.add_instruction(p)
        head.add_instruction(ir.CJump(cnt, '<', n, body, done))
        inc = ir.Binop(cnt, '+', one, 'inc', ir.i32)
        body.add_instruction(inc)
        body.add_instruction(ir.Jump(head))
        for k, p in enumerate(phis):
            p.set_incoming(entry, consts[k])
            src = perm[k]
            p.set_incoming(body, phis[src] if isinstance(src, int) else {'inc': inc, 'one': one}[src])
        cnt.set_incoming(entry, zero)
        cnt.set_incoming(body, inc)
        acc = phis[0]
        for k, p in enumerate(phis[1:]):
            acc = ir.Binop(acc, '+', p, 'acc%d' % k, ir.i32)
            done.add_instruction(acc)
            ten = ir.Const(10, 'ten%d' % k, ir.i32)
            done.add_instruction(ten)
            acc = ir.Binop(acc, '*', ten, 'm%d' % k, ir.i32)
            done.add_instruction(acc)
        done.add_instruction(ir.Return(acc))
        return f

    loop_fn('swap2', 2, [1, 0])
    loop_fn('cycle3', 3, [1, 2, 0])
    loop_fn('chain3', 3, [1, 2, 2])
    loop_fn('selfin', 2, [0, 0])
    loop_fn('shared', 3, ['inc', 'inc', 0])
    loop_fn('mixed4', 4, [3, 'one', 1, 0])

    # the same successor twice: cjmp a < b ? L : L, L has phis
    f = ir.Function('dupedge', ir.Binding.GLOBAL, ir.i32)
    m.add_function(f)
    a = ir.Parameter('a', ir.i32)
    b_ = ir.Parameter('b', ir.i32)
    f.add_parameter(a)
    f.add_parameter(b_)
    e, t = ir.Block('dupedge_entry'), ir.Block('dupedge_t')
    f.add_block(e)
    f.add_block(t)
    f.entry = e
    e.add_instruction(ir.CJump(a, '<', b_, t, t))
    p, q = ir.Phi('dp', ir.i32), ir.Phi('dq', ir.i32)
    t.add_instruction(p)
    t.add_instruction(q)
    p.set_incoming(e, b_)
    q.set_incoming(e, a)
    s = ir.Binop(p, '-', q, 'ds', ir.i32)
    t.add_instruction(s)
    t.add_instruction(ir.Return(s))
    return m


PHI_C_SRC = '''
int lost(int n){ int i=0, j; do { j=i; i=i+1; } while (i<n); return j; }
int swp(int n){ int a=1, b=2, t, k; for(k=0;k<n;k++){ t=a; a=b; b=t; } return a*10+b; }
int dw(int n){ int i=0; int j; do { j = i; i = i + 1; } while (j < n); return i; }
int rot(int n){ int a=1,b=2,c=3,t,k=0; while(k<n){ t=a; a=b; b=c; c=t; k=k+1; } return a*100+b*10+c; }
int fib(int n){ int a=0,b=1,t; while(n>0){ t=a+b; a=b; b=t; n=n-1; } return a; }
int nest(int n){ int s=0,i,j; for(i=0;i<n;i++){ for(j=i;j<n;j++){ s=s+j; if (s&1) s=s+i; } } return s; }
'''


def c_functions(src, arch_name, level=2):
    from ppci import api
    m = api.c_to_ir(io.StringIO(src), arch_name)
    api.optimize(m, level=level)
    return m


def phi_stage(ctx, thorough):
    from ppci.arch import get_arch
    import importlib
    stats = {'blocks': 0, 'nontrivial': 0, 'maxphis': 0, 'dup_successor': 0, 'shared_source': 0, 'functions': 0,
             'lowering_errors': 0}
    cases, problems, iso_flags = [], [], set()
    mods = []
    mods.append(('hand', ir_swap_functions()))
    for an in ('x86_64', 'arm', 'riscv'):
        try:
            mods.append(('c:' + an, c_functions(PHI_C_SRC, an)))
        except Exception as ex:      # noqa: BLE001
            ctx.log('phi stage: cannot compile C sample for %s: %r' % (an, ex))
    try:
        sys.path.insert(0, os.path.join(os.path.dirname(os.path.dirname(os.path.abspath(__file__))), 'gen'))
        irgen = importlib.import_module('irgen')
        for k in range(30 if thorough else 8):
            mods.append(('irgen', irgen.gen_module(ctx.rng, size=ctx.rng.choice([2, 3, 4]), name='g%d' % k)))
    except Exception as ex:      # noqa: BLE001
        ctx.log('phi stage: irgen unavailable: %r' % (ex,))
    archs = {n: get_arch(n) for n in ('x86_64', 'arm', 'riscv')}
    for origin, m in mods:
        names = [origin[2:]] if origin.startswith('c:') else (['x86_64', 'arm', 'riscv'] if origin == 'hand' else ['x86_64'])
        for an in names:
            for f in m.functions:
                try:
                    cs, pr, iso = analyse_function(archs[an], f, stats)
                except Exception as ex:      # noqa: BLE001   (irgen types an arch cannot hold, etc.)
                    stats['lowering_errors'] += 1
                    if origin != 'irgen':
                        problems.append(('lower', f.name, '-', repr(ex)))
                    continue
                stats['functions'] += 1
                cases += [(t, g, w + (an,)) for (t, g, w) in cs]
                problems += pr
                if iso is not None:
                    iso_flags.add(iso)
    ctx.cov['stages']['phi_corr'] = dict(stats, cases=len(cases), isolated_phi_registers=sorted(iso_flags))
    ctx.cov['distinct_nontrivial'] += stats['nontrivial']
    for t, g, w in cases[:: max(1, len(cases) // 4)][:4]:
        ctx.note_sample({'fn': 'copy_phis_of_successors', 'where': list(w), 'input': t[:160]})
    for pr in problems[:5]:
        ctx.log('phi lowering problem:', pr)
    if problems:
        kinds = sorted(set(p[0] for p in problems))
        ctx.failed_stages.append(('phi_hypotheses', '%d problems (%s), first: %r' % (len(problems), ','.join(kinds), problems[0])))
    bad = ctx.run_cases('phicopy', MODEL_IMPORTS, [(t, g) for t, g, _ in cases])
    if bad:
        for i in bad[:4]:
            ctx.log('phi model/implementation disagree at', cases[i][2], cases[i][0][:200], '=> real', cases[i][1])
        ctx.failed_stages.append(('correspondence', 'Model.PhiCopy disagrees with %s on %d blocks, first %r'
                                  % (DAG_SRC, len(bad), cases[bad[0]][2])))
    if len(iso_flags) > 1:
        ctx.failed_stages.append(('phi_hypotheses', 'some phis isolated, some not'))
    return (True in iso_flags) and (False not in iso_flags)


# ================================================================ native differential search (NOT a proof)
class CGen:
    """small UB-free C translation units. All arithmetic is done in unsigned / unsigned long (wrap-around is defined);
    signed types only in comparisons and in divisions by a positive divisor; shift counts and array indices are masked;
    calls are statements of their own (no unspecified evaluation order); every variable is initialised."""

    def __init__(self, rng, nfunc=3):
        self.rng = rng
        self.nfunc = nfunc
        self.funcs = []       # (name, [param types])
        self.lines = []

    CONSTS = ['0u', '1u', '2u', '3u', '7u', '10u', '31u', '32u', '255u', '256u', '1000u', '65535u', '65536u',
              '0x7fffffffu', '0x80000000u', '0xffffffffu', '0xdeadbeefu', '12345u', '0xfffffffeu']

    def uexpr(self, d, env):
        r = self.rng
        if d <= 0 or r.random() < 0.22:
            k = r.random()
            if k < 0.55 and env['u']:
                return r.choice(env['u'])
            if k < 0.65 and env['i']:
                return '(unsigned)%s' % r.choice(env['i'])
            if k < 0.72 and env['l']:
                return '(unsigned)%s' % r.choice(env['l'])
            if k < 0.8 and env.get('arr'):
                return '%s[%s & 7u]' % (env['arr'], r.choice(env['u']) if env['u'] else '3u')
            if k < 0.86:
                return r.choice(['g0', 'g1', 'garr[%s & 3u]' % (r.choice(env['u']) if env['u'] else '1u')])
            return r.choice(self.CONSTS)
        a = self.uexpr(d - 1, env)
        b = self.uexpr(d - 1, env)
        k = r.randrange(24)
        if k < 6:
            return '(%s %s %s)' % (a, r.choice(['+', '-', '*']), b)
        if k < 9:
            return '(%s %s %s)' % (a, r.choice(['&', '|', '^']), b)
        if k == 9:
            return '(%s << (%s & 31u))' % (a, b)
        if k == 10:
            return '(%s >> (%s & 31u))' % (a, b)
        if k == 11:
            return '(%s %s ((%s & 15u) + 1u))' % (a, r.choice(['/', '%']), b)
        if k == 12:
            return '(unsigned)((int)%s %s (int)((%s & 7u) + 1u))' % (a, r.choice(['/', '%']), b)
        if k == 13:
            return '(unsigned)(%s %s %s)' % (a, r.choice(['<', '<=', '>', '>=', '==', '!=']), b)
        if k == 14:
            return '(unsigned)((int)%s %s (int)%s)' % (a, r.choice(['<', '<=', '>', '>=']), b)
        if k == 15:
            c = self.uexpr(d - 1, env)
            return '(%s %s %s ? %s : %s)' % (a, r.choice(['<', '==', '>=']), b, c, self.uexpr(d - 2, env))
        if k == 16:
            return r.choice(['(~%s)', '(0u - %s)', '(unsigned)(!%s)']) % a
        if k == 17:
            return '(unsigned)(%s)%s' % (r.choice(['unsigned char', 'unsigned short']), a)
        if k == 18:
            return '(unsigned)(int)(%s)%s' % (r.choice(['signed char', 'short']), a)
        if k == 19:
            return '(unsigned)(%s >> 32)' % self.lexpr(d - 1, env)
        if k == 20:
            return '(unsigned)%s' % self.lexpr(d - 1, env)
        if k == 21:
            return '(unsigned)(%s && %s)' % (a, b) if r.random() < 0.5 else '(unsigned)(%s || %s)' % (a, b)
        if k == 22 and env.get('arr'):
            return '%s[%s & 7u]' % (env['arr'], a)
        return '(%s + %s)' % (a, b)

    def lexpr(self, d, env):
        r = self.rng
        a = '(unsigned long)%s' % self.uexpr(d - 1, env)
        if env['l'] and r.random() < 0.4:
            a = r.choice(env['l'])
        b = '(unsigned long)%s' % self.uexpr(d - 1, env)
        k = r.randrange(7)
        if k < 3:
            return '(%s %s %s)' % (a, r.choice(['+', '-', '*']), b)
        if k == 3:
            return '(%s << (%s & 63u))' % (a, self.uexpr(0, env))
        if k == 4:
            return '(%s >> (%s & 63u))' % (a, self.uexpr(0, env))
        if k == 5:
            return '(%s ^ (%s << 32))' % (a, b)
        return '(%s / ((%s & 255ul) + 1ul))' % (a, b)

    def stmts(self, n, depth, env, ind, inloop):
        out = []
        for _ in range(n):
            out += self.stmt(depth, env, ind, inloop)
        return out

    def stmt(self, depth, env, ind, inloop):
        r = self.rng
        sp = '    ' * ind
        U = env['uw']             # writable unsigned variables
        k = r.randrange(20)
        e = lambda d=2: self.uexpr(d, env)
        if depth <= 0:
            k = r.choice([0, 1, 2, 3, 13])
        if k <= 2:
            return ['%s%s %s %s;' % (sp, r.choice(U), r.choice(['=', '=', '=', '+=', '^=', '-=', '*=']), e(3))]
        if k == 3:
            if env['lw'] and r.random() < 0.6:
                return ['%s%s = %s;' % (sp, r.choice(env['lw']), self.lexpr(2, env))]
            return ['%sg0 = g0 * 3u + %s;' % (sp, e(1)), '%sgarr[%s & 3u] ^= %s;' % (sp, e(0), e(1))]
        if k in (4, 5):
            body = self.stmts(r.choice([1, 2]), depth - 1, env, ind + 1, inloop)
            o = ['%sif (%s %s %s) {' % (sp, e(1), r.choice(['<', '==', '!=', '>=']), e(1))] + body
            if r.random() < 0.5:
                o += ['%s} else {' % sp] + self.stmts(r.choice([1, 2]), depth - 1, env, ind + 1, inloop)
            return o + ['%s}' % sp]
        if k in (6, 7):
            iv = 'i%d' % ind
            lim = r.choice(['%d' % r.randrange(1, 7), '(int)((%s & 3u) + 1u)' % e(0)])
            env2 = dict(env, i=env['i'] + [iv])
            body = self.stmts(r.choice([1, 2, 3]), depth - 1, env2, ind + 1, True)
            return ['%s{ int %s; for (%s = 0; %s < %s; %s++) {' % (sp, iv, iv, iv, lim, iv)] + body + ['%s} }' % sp]
        if k == 8:        # swap / rotate inside a counted while loop
            iv = 'w%d' % ind
            vs = r.sample(U, min(len(U), r.choice([2, 3])))
            body = ['%s    t = %s;' % (sp, vs[0])]
            for a, b in zip(vs, vs[1:]):
                body.append('%s    %s = %s;' % (sp, a, b))
            body.append('%s    %s = t;' % (sp, vs[-1]))
            if r.random() < 0.5:
                body.append('%s    %s += %s;' % (sp, vs[0], e(1)))
            return (['%s{ int %s = %s; unsigned t = 0u; while (%s > 0) {' % (sp, iv, r.choice(['3', '4', '5', '(int)(%s & 7u)' % e(0)]), iv)]
                    + body + ['%s    %s = %s - 1;' % (sp, iv, iv), '%s} %s ^= t; }' % (sp, r.choice(U))])
        if k in (9, 10):   # do-while with a value carried out of / tested after the update
            cv = 'c%d' % ind
            v = r.choice(U)
            pv = 'prev%d' % ind
            cond = r.choice(['%s < %d' % (cv, r.randrange(1, 6)),
                             '(%s & 7u) != %du && %s < 9' % (pv, r.randrange(8), cv),
                             '(%s & 3u) != 1u && %s < 7' % (v, cv)])
            return ['%s{ int %s = 0; unsigned %s = 0u; do {' % (sp, cv, pv),
                    '%s    %s = %s;' % (sp, pv, v), '%s    %s = %s + %s;' % (sp, v, v, e(1)),
                    '%s    %s = %s + 1;' % (sp, cv, cv),
                    '%s} while (%s); %s = %s * 31u + %s; }' % (sp, cond, r.choice(U), r.choice(U), pv)]
        if k == 11:
            o = ['%sswitch (%s & 3u) {' % (sp, e(1))]
            for c in range(r.choice([2, 3, 4])):
                o.append('%scase %d:' % (sp, c))
                o += self.stmts(1, 0, env, ind + 1, inloop)
                if r.random() < 0.8:
                    o.append('%s    break;' % sp)
            o.append('%sdefault:' % sp)
            o += self.stmts(1, 0, env, ind + 1, inloop)
            return o + ['%s}' % sp]
        if k == 12 and env.get('arr'):
            return ['%s%s[%s & 7u] = %s;' % (sp, env['arr'], e(1), e(2))]
        if k == 13 and self.funcs:
            name, ptys = r.choice(self.funcs)
            args = []
            for t in ptys:
                args.append({'unsigned': e(1), 'int': '(int)%s' % e(1), 'unsigned long': self.lexpr(1, env),
                             'unsigned char': '(unsigned char)%s' % e(1), 'short': '(short)%s' % e(1)}[t])
            return ['%s%s = %s(%s);' % (sp, r.choice(U), name, ', '.join(args))]
        if k == 14 and inloop:
            return ['%sif (%s == %s) %s;' % (sp, e(0), e(0), r.choice(['break', 'continue']))] if False else \
                   ['%sif ((%s & 7u) == 5u) break;' % (sp, e(1))]
        return ['%s%s = %s;' % (sp, r.choice(U), e(3))]

    def function(self, idx):
        r = self.rng
        np = r.choice([0, 1, 2, 3, 4, 6, 6])
        ptys = [r.choice(['unsigned', 'unsigned', 'int', 'unsigned long', 'unsigned char', 'short']) for _ in range(np)]
        name = 'f%d' % idx
        env = {'u': [], 'i': [], 'l': [], 'uw': [], 'lw': [], 'arr': None}
        for k, t in enumerate(ptys):
            (env['u'] if t == 'unsigned' else env['l'] if t == 'unsigned long' else env['i']).append('p%d' % k)
        body = []
        nv = r.choice([2, 3, 4])
        for k in range(nv):
            body.append('    unsigned v%d = %s;' % (k, self.uexpr(1, env)))
            env['u'].append('v%d' % k)
            env['uw'].append('v%d' % k)
        if r.random() < 0.6:
            body.append('    unsigned long q0 = %s;' % self.lexpr(1, env))
            env['l'].append('q0')
            env['lw'].append('q0')
        if r.random() < 0.6:
            body.append('    unsigned arr[8]; { int k; for (k = 0; k < 8; k++) arr[k] = %s + (unsigned)k; }' % self.uexpr(1, env))
            env['arr'] = 'arr'
        body += self.stmts(r.choice([3, 4, 6]), 3, env, 1, False)
        ret = self.uexpr(2, env)
        for v in env['uw']:
            ret = '(%s * 33u + %s)' % (ret, v)
        body.append('    return %s;' % ret)
        self.lines.append('unsigned %s(%s)\n{\n%s\n}\n' % (
            name, ', '.join('%s p%d' % (t, k) for k, t in enumerate(ptys)) or 'void', '\n'.join(body)))
        self.funcs.append((name, ptys))

    def program(self):
        r = self.rng
        self.lines = ['unsigned char outbuf[512];', 'static int pos;',
                      'static void put_hex(unsigned v)\n{\n    int k;\n    for (k = 28; k >= 0; k -= 4) {\n'
                      '        unsigned d = (v >> k) & 15u;\n        outbuf[pos] = (unsigned char)(d < 10u ? 48u + d : 87u + d);\n'
                      '        pos = pos + 1;\n    }\n    outbuf[pos] = 10;\n    pos = pos + 1;\n}\n',
                      'unsigned g0 = %s;' % r.choice(self.CONSTS), 'unsigned g1 = %s;' % r.choice(self.CONSTS),
                      'unsigned garr[4] = {1u, 2u, 3u, 0x80000001u};', '']
        for k in range(self.nfunc):
            self.function(k)
        ent = ['int entry(void)', '{', '    pos = 0;']
        for name, ptys in self.funcs:
            for _ in range(2):
                args = []
                for t in ptys:
                    v = r.choice([0, 1, 2, 3, 5, 7, 100, 255, 256, 65535, 0x7fffffff, 0x80000000, 0xffffffff, r.randrange(1 << 32)])
                    if t == 'unsigned':
                        args.append('%uu' % v)
                    elif t == 'int':
                        args.append('(int)%uu' % v)
                    elif t == 'unsigned long':
                        args.append('%uul' % (v * 0x100000001 + r.randrange(7) & 0xffffffffffffffff))
                    elif t == 'unsigned char':
                        args.append('(unsigned char)%uu' % (v & 255))
                    else:
                        args.append('(short)%uu' % (v & 0x7fff))
                ent.append('    put_hex(%s(%s));' % (name, ', '.join(args)))
        ent += ['    put_hex(g0); put_hex(g1); put_hex(garr[0] ^ garr[1] ^ garr[2] ^ garr[3]);', '    return pos;', '}', '']
        return '\n'.join(self.lines + ent)


DRIVER_GCC = '''#include <unistd.h>
extern unsigned char outbuf[512]; int entry(void);
int main(void){ int n = entry(); if (write(1, outbuf, n) != n) return 200; return n & 0x7f; }
'''
START_C = '''long bsp_syscall(long nr, long a, long b, long c);
extern unsigned char outbuf[512]; int entry(void);
void start_c(void){ int n = entry(); bsp_syscall(1, 1, (long)outbuf, n); bsp_syscall(60, n & 0x7f, 0, 0); }
'''
START_ASM = '''
section code
global start
global start_c
global bsp_syscall
start:
    call start_c
bsp_syscall:
    mov rax, rdi
    mov rdi, rsi
    mov rsi, rdx
    mov rdx, rcx
    syscall
    ret
'''
MMAP = '''
ENTRY(start)
MEMORY code LOCATION=0x40000 SIZE=0x80000 { SECTION(code) }
MEMORY ram LOCATION=0x20000000 SIZE=0x80000 { SECTION(data) }
'''

WITNESS_SRC = '''unsigned char outbuf[512];
static int pos;
static void put_hex(unsigned v)
{
    int k;
    for (k = 28; k >= 0; k -= 4) {
        unsigned d = (v >> k) & 15u;
        outbuf[pos] = (unsigned char)(d < 10u ? 48u + d : 87u + d);
        pos = pos + 1;
    }
    outbuf[pos] = 10;
    pos = pos + 1;
}
int lost(int n){ int i=0, j; do { j=i; i=i+1; } while (i<n); return j; }
int dw(int n){ int i=0; int j; do { j = i; i = i + 1; } while (j < n); return i; }
int swp(int n){ int a=1, b=2, t, k; for(k=0;k<n;k++){ t=a; a=b; b=t; } return a*10+b; }
int entry(void)
{
    pos = 0;
    put_hex((unsigned)lost(5)); put_hex((unsigned)dw(10)); put_hex((unsigned)swp(3)); put_hex((unsigned)swp(4));
    return pos;
}
'''


# ================================================================ x86_64 addressing modes vs llvm-mc (validation, NOT proof)
DISPS = [-129, -128, -127, -1, 0, 1, 126, 127, 128, 129, 255, 256, 32767, 32768, -32768, -32769,
         (1 << 31) - 1, -(1 << 31), (1 << 31) - 2, -(1 << 31) + 1]
X86ENC_FN = 'x86-addressing-encoding'


def x86_addressing_stage(ctx):
    """every memory addressing-mode constructor of ppci/arch/x86_64/instructions.py x every base register x boundary
    displacements, inside load / store / lea / byte-load carriers: the bytes ppci encodes must be llvm-mc's bytes for the
    intended operand, or at least disassemble (llvm-mc) to the same instruction (equivalent encodings are counted, not reported)."""
    if not shutil.which('llvm-mc'):
        ctx.cov['stages']['x86_addressing'] = 'skipped: llvm-mc not installed'
        return
    import importlib
    C = importlib.import_module('props.c08_llvm')          # read-only use of build-C08's llvm-mc helpers
    from ppci.arch.x86_64 import instructions as x, registers as r
    _, args, prologue = C.TARGETS['x86_64']
    regs = [r.rax, r.rcx, r.rdx, r.rbx, r.rsp, r.rbp, r.rsi, r.rdi, r.r8, r.r9, r.r10, r.r11, r.r12, r.r13, r.r14, r.r15]
    B = x.bits64
    carriers = [('load64', lambda m: B.MovRegRm(r.rcx, m), 'mov rcx, qword ptr %s'),
                ('store64', lambda m: B.MovRmReg(m, r.r9), 'mov qword ptr %s, r9'),
                ('lea', lambda m: x.Lea(r.rdx, m), 'lea rdx, %s'),
                ('load8', lambda m: x.MovRegRm8(r.cl, m), 'mov cl, byte ptr %s')]

    def sgn(d):
        return ('+ %d' % d) if d >= 0 else ('- %d' % -d)
    ops = []          # (description, constructor thunk, intel text)
    for b in regs:
        ops.append(('RmMem(%s)' % b.name, lambda b=b: x.RmMem(b), '[%s]' % b.name))
        for d in DISPS:
            ops.append(('RmMemDisp(%s, %d)' % (b.name, d), lambda b=b, d=d: x.RmMemDisp(b, d), '[%s %s]' % (b.name, sgn(d))))
        for i in (r.rax, r.rbp, r.r9, r.r13):        # index: sib forms (rsp cannot be an index; ppci also refuses r12)
            for d in (-129, -128, -127, -1, 0, 1, 126, 127, 128, 129):
                ops.append(('RmMemDisp2(%s, %s, %d)' % (b.name, i.name, d), lambda b=b, i=i, d=d: x.RmMemDisp2(b, i, d),
                            '[%s + %s %s]' % (b.name, i.name, sgn(d))))
    for d in DISPS:
        ops.append(('RmRip(%d)' % d, lambda d=d: x.RmRip(d), '[rip %s]' % sgn(d)))
    for a in (0, 1, 127, 128, 255, 256, 32768, (1 << 31) - 1):
        ops.append(('RmAbs(%d)' % a, lambda a=a: x.RmAbs(a), '[%d]' % a))
    items = []
    refused = 0
    for desc, mk, text in ops:
        for cname, build, fmt in carriers:
            if cname == 'load8' and ('RmRip' in desc or 'RmAbs' in desc):
                continue                    # rm8_modes has no rip / absolute forms
            try:
                bs = bytes(build(mk()).encode())
            except Exception:      # noqa: BLE001   a refusal (ValueError / assert) is not a wrong encoding
                refused += 1
                continue
            items.append((cname, desc, fmt % text, bs))
    ref = C.run_llvm(args, prologue, [it[2] for it in items])
    diff = [(it, rb) for it, rb in zip(items, ref) if rb is not None and rb != it[3]]
    norej = sum(1 for rb in ref if rb is None)
    dis = C.disasm_many(args, C.DISASM_ARGS.get('x86_64', []), [it[3] for it, _ in diff] + [rb for _, rb in diff]) if diff else {}
    equiv, bad = 0, []
    for it, rb in diff:
        mine, theirs = dis.get(it[3]), dis.get(rb)
        if mine is not None and mine == theirs:
            equiv += 1
        else:
            bad.append((it, rb, mine, theirs))
    ctx.cov['evaluations'] += len(items)
    ctx.cov['stages']['x86_addressing'] = {'encodings_compared': len(items), 'identical_bytes': len(items) - len(diff) - norej,
                                           'equivalent_encoding': equiv, 'llvm_rejected': norej, 'ppci_refused': refused,
                                           'mismatches': len(bad), 'note': 'validation against llvm-mc, no proof'}
    classes = {}
    for it, rb, mine, theirs in bad:
        cls = it[1].split('(')[0]
        d = int(it[1].rstrip(')').split(', ')[-1]) if ',' in it[1] else 0
        case = '%s displacement %s' % (cls, 'outside -128..127' if not -128 <= d <= 127 else 'inside -128..127')
        classes.setdefault(case, []).append((it, rb, mine, theirs))
    for case, lst in classes.items():
        it, rb, mine, theirs = lst[0]
        ctx.violation({'fn': X86ENC_FN, 'case': case, 'key': 'x86enc:' + case, 'args': [it[0], it[1]],
                       'expected': {'operand': it[2], 'llvm_mc_bytes': rb.hex(), 'means': theirs},
                       'actual': {'ppci_bytes': it[3].hex(), 'means': mine}, 'count': len(lst),
                       'more': ['%s %s' % (a[0][0], a[0][1]) for a in lst[1:6]],
                       'how_to_replay': 'from ppci.arch.x86_64 import instructions as x, registers as r; build the carrier '
                                        '(bits64.MovRegRm / MovRmReg / Lea / MovRegRm8) with the constructor in args, .encode(); '
                                        'compare with llvm-mc -triple=x86_64 -show-encoding on the intel-syntax operand'})


X86RMW_FN = 'x86-rmw-destination-not-defined'


def x86_rmw_witness(ctx):
    """deterministic witness of the spill miscompilation found by the native search (gen3, -O1..): a read-modify-write
    instruction whose destination is a register r/m operand must report that register in defined_registers, otherwise
    the register allocator emits no store after it when the destination is spilled (validation, NOT proof)."""
    from ppci.arch.x86_64 import instructions as x, registers as r
    probes = []
    for bits, rm, cls in ((64, x.RmReg64, r.Register64), (32, x.RmReg32, r.Register32), (16, x.RmReg16, r.Register16)):
        col = {64: x.bits64, 32: x.bits32, 16: x.bits16}[bits]
        for name in ('ShrCl', 'SarCl', 'ShlCl', 'NegRm', 'NotRm'):
            probes.append(('%s/%d' % (name, bits), getattr(col, name), rm, cls))
    for name in ('ShrCl8', 'SarCl8', 'ShlCl8'):
        probes.append((name, getattr(x, name), x.RmReg8, r.Register8))
    missing = []
    for label, ins_cls, rm, reg_cls in probes:
        v = reg_cls('c04probe')
        ins = ins_cls(rm(v))
        if not (ins.writes_register(v) and ins.reads_register(v)):
            missing.append(label)
    ctx.cov['stages']['x86_rmw_defs'] = {'probed': len(probes), 'destination_not_defined': missing}
    if missing:
        ctx.violation({'fn': X86RMW_FN, 'case': 'shift-by-cl / neg / not on a register r/m operand', 'key': X86RMW_FN,
                       'args': missing, 'expected': 'defined_registers contains the destination register',
                       'actual': 'destination only reported as read: no spill store is emitted after the instruction '
                                 '(mov eax,[slot]; shr eax,cl; mov eax,[slot])',
                       'how_to_replay': 'from ppci.arch.x86_64 import instructions as x, registers as r; v = r.Register32("v"); '
                                        'x.bits32.ShrCl(x.RmReg32(v)).defined_registers  -> [] ; native: replays/C04 gen3 program at -O1'})


def csys():
    """tools/gen/csysgen.py: the systematic C programs"""
    import importlib
    g = os.path.join(os.path.dirname(os.path.dirname(os.path.abspath(__file__))), 'gen')
    if g not in sys.path:
        sys.path.insert(0, g)
    return importlib.import_module('csysgen')


def native_available():
    import platform
    return bool(shutil.which('gcc')) and platform.machine() == 'x86_64' and platform.system() == 'Linux'


class Native:
    def __init__(self, ctx):
        self.ctx = ctx
        self.dir = os.path.join(ctx.work, 'native')
        os.makedirs(self.dir, exist_ok=True)
        with open(os.path.join(self.dir, 'main.c'), 'w') as f:
            f.write(DRIVER_GCC)
        self.start_objs = {}

    def sh(self, cmd, timeout=20):
        # own process group: on a timeout the compiled program (a grandchild of the shell) is killed too,
        # a miscompiled loop must not survive the check
        p = subprocess.Popen(cmd, shell=True, cwd=self.dir, stdout=subprocess.PIPE, stderr=subprocess.DEVNULL,
                             start_new_session=True)
        try:
            out, _ = p.communicate(timeout=timeout)
            return (p.returncode, out.decode('latin1'))
        except subprocess.TimeoutExpired:
            try:
                os.killpg(p.pid, 9)
            except OSError:
                pass
            p.communicate()
            return ('timeout', '')

    def reference(self, src):
        with open(os.path.join(self.dir, 't.c'), 'w') as f:
            f.write(src)
        return self.sh('gcc -O0 -w -fwrapv -fno-strict-aliasing main.c t.c -o ref.exe && ./ref.exe')

    def reference_opt(self, src):
        """second opinion (gcc -O2 -fwrapv): when the two gcc builds differ the program is not trusted as oracle"""
        return self.sh('gcc -O2 -w -fwrapv -fno-strict-aliasing main.c t.c -o ref2.exe && ./ref2.exe')

    def reference_ubsan(self, src):
        """third opinion: the program must run clean under UBSan/ASan with the same output (else it is not used as oracle)"""
        return self.sh('gcc -O1 -w -fsanitize=undefined,address -fno-sanitize-recover=all main.c t.c -o ref3.exe && ./ref3.exe',
                       timeout=60)

    def ppci_build(self, src, opt):
        from ppci import api
        return api.cc(io.StringIO(src), 'x86_64', opt_level=opt)

    def run_gcc_link(self, obj):
        from ppci.format.elf import write_elf
        with open(os.path.join(self.dir, 't.o'), 'wb') as f:
            write_elf(obj, f, type='relocatable')
        return self.sh('gcc -no-pie main.c t.o -o a.exe && ./a.exe')

    def run_ppci_link(self, obj, opt):
        from ppci import api
        if 'objs' not in self.start_objs:
            self.start_objs['objs'] = [api.asm(io.StringIO(START_ASM), 'x86_64'),
                                       api.cc(io.StringIO(START_C), 'x86_64', opt_level=0)]
        exe = api.link(self.start_objs['objs'] + [obj], layout=io.StringIO(MMAP))
        path = os.path.join(self.dir, 'b.elf')
        api.objcopy(exe, 'prog', 'elf', path)
        os.chmod(path, 0o755)
        return self.sh('./b.elf')


CHILD = r'''
import sys, io, os, json, subprocess, logging
logging.disable(logging.CRITICAL)
wd, opt, link = sys.argv[1], sys.argv[2], sys.argv[3]
opt = int(opt) if opt.isdigit() else opt
def sh(cmd):
    p = subprocess.Popen(cmd, shell=True, cwd=wd, stdout=subprocess.PIPE, stderr=subprocess.DEVNULL, start_new_session=True)
    try:
        out, _ = p.communicate(timeout=20)
        return [p.returncode, out.decode('latin1')]
    except subprocess.TimeoutExpired:
        try:
            os.killpg(p.pid, 9)
        except OSError:
            pass
        p.communicate()
        return ['timeout', '']
try:
    from ppci import api
    from ppci.format.elf import write_elf
    rd = lambda n: open(os.path.join(wd, n)).read()
    obj = api.cc(io.StringIO(rd('t.c')), 'x86_64', opt_level=opt)
    if link == 'gcc':
        with open(os.path.join(wd, 'tc.o'), 'wb') as f:
            write_elf(obj, f, type='relocatable')
        res = sh('gcc -no-pie main.c tc.o -o ac.exe && ./ac.exe')
    else:
        objs = [api.asm(io.StringIO(rd('start.asm')), 'x86_64'), api.cc(io.StringIO(rd('start.c')), 'x86_64', opt_level=0)]
        exe = api.link(objs + [obj], layout=io.StringIO(rd('mmap.txt')))
        api.objcopy(exe, 'prog', 'elf', os.path.join(wd, 'bc.elf'))
        os.chmod(os.path.join(wd, 'bc.elf'), 0o755)
        res = sh('./bc.elf')
except Exception as ex:
    res = ['exception', repr(ex)[:200]]
print('C04RESULT ' + json.dumps(res))
'''


class PendingFixes:
    """ATTRIBUTION ONLY: a copy of the ppci package with fix diffs from /verif/fixes applied. When a native mismatch
    disappears there, it is caused by a defect that already has a proposed fix (possibly of another property)."""

    def __init__(self, ctx, nat):
        self.ctx, self.nat, self.trees, self.cache = ctx, nat, {}, {}
        import vlib
        self.repo, self.verif = vlib.REPO, vlib.VERIF
        self.diffs = sorted(f for f in os.listdir(os.path.join(self.verif, 'fixes')) if f.endswith('.diff'))
        for n, text in (('start.asm', START_ASM), ('start.c', START_C), ('mmap.txt', MMAP), ('child.py', CHILD)):
            with open(os.path.join(nat.dir, n), 'w') as f:
                f.write(text)

    def tree(self, names):
        key = tuple(names)
        if key in self.trees:
            return self.trees[key]
        root = os.path.join(self.ctx.work, 'patched%d' % len(self.trees))
        shutil.rmtree(root, ignore_errors=True)
        shutil.copytree(os.path.join(self.repo, 'ppci'), os.path.join(root, 'ppci'),
                        ignore=shutil.ignore_patterns('__pycache__', '*.pyc'))
        applied = []
        for n in names:
            d = os.path.join(self.verif, 'fixes', n)
            if subprocess.run('patch -p1 --forward --dry-run -s -d %s < %s' % (root, d), shell=True,
                              stdout=subprocess.DEVNULL, stderr=subprocess.DEVNULL).returncode == 0:
                subprocess.run('patch -p1 --forward -s -d %s < %s' % (root, d), shell=True,
                               stdout=subprocess.DEVNULL, stderr=subprocess.DEVNULL)
                applied.append(n)
        self.trees[key] = (root, applied)
        return self.trees[key]

    def run(self, names, opt, link):
        root, applied = self.tree(names)
        env = dict(os.environ, PYTHONPATH=root, PYTHONHASHSEED='0')
        try:
            p = subprocess.run([sys.executable, os.path.join(self.nat.dir, 'child.py'), self.nat.dir, str(opt), link],
                               env=env, stdout=subprocess.PIPE, stderr=subprocess.DEVNULL, text=True, timeout=120, cwd=root)
        except subprocess.TimeoutExpired:
            return None, applied
        m = re.search(r'^C04RESULT (.*)$', p.stdout, re.M)
        if not m:
            return None, applied
        import json
        r = json.loads(m.group(1))
        return (r[0], r[1]), applied

    def attribute(self, opt, link, ref):
        """t.c in the native directory is the failing program. -> (fn, text) or None"""
        # only C04's own, single, named fix diffs: a mismatch is written off only as the one specific defect whose fix
        # removes it (known_findings.json has one entry per diff, keyed by this fn); no catch-all
        mine = [d for d in self.diffs if d.startswith('C04-')]
        for d in mine:
            got, applied = self.run([d], opt, link)
            if applied and got == ref:
                return 'native:fix:' + d[:-5], 'mismatch disappears with fixes/%s (and nothing else) applied' % d
        return None


LOST_COPY_FN = 'native:phi-lost-copy'


def native_compare(ctx, nat, src, label, pending, levels=(0, 1, 2, 's'), both_links=True, groups=None):
    """-> number of executions; reports mismatches"""
    from ppci.common import CompilerError
    ref = nat.reference(src)
    if ref[0] == 'timeout' or not isinstance(ref[0], int) or ref[0] > 127:
        return 0, 'reference failed'
    if nat.reference_opt(src) != ref:
        return 0, 'gcc -O0 and gcc -O2 disagree (generator bug: program not UB-free?)'
    if groups is None and nat.reference_ubsan(src) != ref:
        return 0, 'UBSan/ASan build disagrees or traps (generator bug: program not UB-free)'
    runs = 0
    for opt in levels:
        obj = None
        try:
            obj = nat.ppci_build(src, opt)
        except CompilerError as ex:
            return runs, 'ppci rejects the program: %s' % (str(ex)[:100],)
        except Exception as ex:      # noqa: BLE001
            crash = ('exception', repr(ex)[:200])
        for link in (('gcc', 'ppci') if both_links else ('gcc',)):
            if obj is None:
                got = crash
            else:
                try:
                    got = nat.run_gcc_link(obj) if link == 'gcc' else nat.run_ppci_link(obj, opt)
                except Exception as ex:      # noqa: BLE001
                    got = ('link-error', repr(ex)[:200])
            runs += 1
            if got == ref:
                continue
            rec = {'fn': 'native:%s-link' % link, 'key': 'native-mismatch-O%s-%s' % (opt, got[0] if obj is None else 'run'),
                   'opt_level': str(opt), 'program': label, 'source': src,
                   'expected': {'exit': ref[0], 'stdout': ref[1]}, 'actual': {'exit': got[0], 'stdout': got[1]},
                   'how_to_replay': 'save source as t.c; reference: gcc -O0 main.c t.c (main.c = DRIVER_GCC of tools/props/c04.py); '
                                    'ppci: api.cc(t.c, "x86_64", opt_level) -> write_elf(relocatable) -> gcc -no-pie main.c t.o '
                                    '(or api.link with START_ASM/START_C/MMAP + objcopy elf); compare stdout and exit status'}
            if groups is not None:
                # systematic program: name the function / type pair of the first differing output line, keep the replay small
                fd = csys().first_difference(groups, ref[1], got[1]) if isinstance(got[0], int) else None
                case = fd[0] if fd else 'exit status / crash'
                rec.update({'fn': 'native:systematic', 'case': case, 'key': 'systematic:%s:%s' % (label, case),
                            'expected': {'exit': ref[0], 'first_differing_line': fd[1:] if fd else None},
                            'actual': {'exit': got[0], 'stdout_or_error': str(got[1])[:300] if not fd else '(see first_differing_line: line, gcc, ppci)'}})
            sig = (label, str(got[0]), re.sub(r'0x[0-9a-f]+', '0x', str(got[1]))[:4000], rec.get('case'))
            try:
                if ctx.failed_stages:
                    # the code no longer corresponds to the models / proofs: no mismatch is written off as a known finding
                    pending.cache[sig] = None
                if sig not in pending.cache:       # the same wrong output of the same program: attributed once
                    pending.cache[sig] = pending.attribute(opt, link, ref)
                att = pending.cache[sig]
            except Exception as ex:      # noqa: BLE001
                ctx.log('attribution failed: %r' % (ex,))
                att = None
            if att:
                rec['fn'], rec['attribution'] = att
                rec['key'] = att[0]
            ctx.violation(rec)
            if obj is None:
                break
    return runs, None


def native_stage(ctx, thorough, isolated, deep):
    if not native_available():
        ctx.cov['stages']['native_search'] = 'skipped: needs gcc on x86-64 Linux; nothing about native behaviour was checked'
        ctx.log('native search skipped (no gcc / not x86-64 Linux)')
        return
    nat = Native(ctx)
    pending = PendingFixes(ctx, nat)
    t0 = time.time()
    runs, progs, skipped = 0, 0, {}
    # the witness of the refuted theorem, replayed on the real compiler on every run
    n, why = native_compare(ctx, nat, WITNESS_SRC, 'witness:lost-copy', pending)
    runs += n
    if why:
        ctx.log('witness program:', why)
    # systematic programs (validation, NOT proof; x86-64 selection rules have no Coq model): full integer conversion matrix,
    # binary-operator matrix on boundary operands, loads/stores/struct fields of every width, calls with 9-11 arguments;
    # every quick run, -O0 and -O2, one native run each, compared with gcc -O0
    ts = time.time()
    sysres = {}
    for (lab, ssrc, groups) in csys().programs():
        n, why = native_compare(ctx, nat, ssrc, 'systematic:' + lab, pending, levels=(0, 2), both_links=False, groups=groups)
        runs += n
        sysres[lab] = {'native_runs': n, 'groups': len(groups)}
        if why:
            sysres[lab]['problem'] = why
            ctx.violation({'fn': 'native:systematic', 'case': 'build', 'key': 'systematic:%s:build' % lab, 'program': lab,
                           'expected': 'gcc -O0/-O2 agree and ppci compiles the program', 'actual': why,
                           'how_to_replay': 'tools/gen/csysgen.py programs(); build as in native_compare'})
    ctx.cov['stages']['native_systematic'] = dict(sysres, wall_s=round(time.time() - ts, 1),
                                                  note='validation only: differential execution against gcc -O0')
    t0 = time.time()
    nprog = 60 if thorough else (24 if deep else 8)
    budget = 600 if thorough else (200 if deep else 45)
    for k in range(nprog):
        if time.time() - t0 > budget:
            break
        g = CGen(ctx.rng, nfunc=ctx.rng.choice([2, 3, 4]))
        src = g.program()
        n, why = native_compare(ctx, nat, src, 'gen%d' % k, pending,
                                levels=(0, 1, 2, 's') if (thorough or k % 2 == 0) else (0, 2),
                                both_links=thorough or k % 3 == 0)
        runs += n
        progs += 1
        if why:
            skipped[why[:40]] = skipped.get(why[:40], 0) + 1
    ctx.cov['evaluations'] += runs
    ctx.cov['stages']['native_search'] = {'programs': progs, 'native_runs': runs, 'not_usable': skipped,
                                          'wall_s': round(time.time() - t0, 1),
                                          'note': 'search only: differential execution against gcc -O0, no proof'}


# ================================================================ driver
def run(ctx):
    import logging
    logging.getLogger().addHandler(logging.NullHandler())     # ppci warnings about the generated programs
    t0 = time.time()
    lap = lambda what: ctx.log('%-30s t=%.1fs' % (what, time.time() - t0))
    thorough = not ctx.quick()
    try:
        rows = regen(ctx)
    except TieBroken:
        rows = None
    lap('effect classes exported')
    ok, _ = ctx.build(['Proofs/C04_phicopy.vo', 'Proofs/C04_peephole.vo', 'Proofs/C04_tables.vo'])
    lap('proofs built (incl. lock wait)')
    if ok:
        ctx.check_props('Props/C04.v')
    lap('props checked')
    isolated = False
    if ctx.build(['Model/PhiCopy.vo', 'Model/Peephole.vo', 'Lib/Val.vo'])[0]:
        try:
            peephole_stage(ctx, thorough)
        except Exception as ex:      # noqa: BLE001
            ctx.log('peephole correspondence crashed: %r' % (ex,))
            ctx.failed_stages.append(('correspondence', 'peephole harness: %r' % (ex,)))
        lap('peephole correspondence')
        try:
            isolated = phi_stage(ctx, thorough)
        except Exception as ex:      # noqa: BLE001
            ctx.log('phi correspondence crashed: %r' % (ex,))
            ctx.failed_stages.append(('correspondence', 'phi harness: %r' % (ex,)))
        lap('phi correspondence')
    ctx.cov['stages']['phi_registers_isolated'] = isolated
    try:
        x86_addressing_stage(ctx)
    except Exception as ex:      # noqa: BLE001
        ctx.log('x86 addressing stage crashed: %r' % (ex,))
        ctx.failed_stages.append(('x86_addressing', repr(ex)))
    try:
        x86_rmw_witness(ctx)
    except Exception as ex:      # noqa: BLE001
        ctx.log('x86 rmw witness crashed: %r' % (ex,))
        ctx.failed_stages.append(('x86_rmw', repr(ex)))
    lap('x86 addressing modes vs llvm-mc')
    if rows is not None:
        bad_rows = [r for r in rows if not (r[4] and (r[2] or r[3]))]
        for r in bad_rows[:3]:
            ctx.violation({'fn': 'effect', 'key': 'effect-class', 'args': ['%s.%s' % (r[0], r[1])],
                           'expected': 'a class with an effect() is Label or the unconditional jump of the JMP selection pattern '
                                       'with effect [("set","pc",target)]',
                           'actual': {'is_label': r[2], 'is_jmp_pattern_class': r[3], 'effect_is_pc_target': r[4]},
                           'how_to_replay': 'PeepHoleStream drops an instance of this class when the next instruction reports an equal '
                                            'effect(): emit two equal instances into PeepHoleStream and count what comes out'})
    native_stage(ctx, thorough, isolated, deep=bool(ctx.failed_stages))
    lap('native search')
    ctx.cov['exhaustive'] = False
