"""C10 — fail-closed flattening pre-pass (tie T for ppci/arch/token.py and ppci/utils/bitfun.py:BitView).

Token.__getitem__/__setitem__ (slice branch), the getter/setter closures made by bit_range and bit_concat and
BitView.__setitem__ are methods / closures over objects; py2coq translates plain functions over ints and lists.
This pre-pass extracts their bodies with `ast`, checks every structural assumption it relies on (anything
unexpected raises py2coq.Unsupported = tie broken) and emits plain module-level functions:
  self.bit_value -> parameter bit_value (returned by the setters), self.Info.size via self.mask -> parameter size,
  key.start/key.stop -> start/stop (`assert key.step is None` dropped: the closures only use s[b:e]),
  closure variables b, e -> parameters; partials -> parallel lists bs, es of the (flattened) bit_range parts,
  at._bitsize -> es[i]-bs[i], at._mask -> (1 << (es[i]-bs[i])) - 1  (checked against _p2.__init__/bit_range),
  at.__get__(s)/at.__set__(s, x) -> range_get/range_set;  self.data/begin/length -> parameters.
The emitted source is then translated by tools/py2coq.py into coq/Gen/token_fields.v."""
import ast
import copy
import py2coq
U = py2coq.Unsupported

def src(n): return ast.unparse(n)

def find_class(tree, name):
    for n in tree.body:
        if isinstance(n, ast.ClassDef) and n.name == name:
            return n
    raise U('class %s not found' % name)

def find_def(body, name):
    for n in body:
        if isinstance(n, ast.FunctionDef) and n.name == name:
            return n
    raise U('def %s not found' % name)

def strip_doc(body):
    if body and isinstance(body[0], ast.Expr) and isinstance(body[0].value, ast.Constant) and isinstance(body[0].value.value, str):
        return body[1:]
    return body

class Subst(ast.NodeTransformer):
    """replace attribute chains / names by expressions given as source text; any other use of the
    replaced base names (self, key, at, s) is an error (fail-closed)"""
    def __init__(self, amap, forbidden):
        self.amap = amap            # 'self.bit_value' -> 'bit_value'
        self.forbidden = forbidden  # names that must not survive
    def visit_Attribute(self, node):
        t = src(node)
        if t in self.amap:
            return ast.parse(self.amap[t], mode='eval').body
        return self.generic_visit(node)
    def check(self, nodes):
        for n in nodes:
            for x in ast.walk(n):
                if isinstance(x, ast.Name) and x.id in self.forbidden:
                    raise U('unexpected use of %s in %s' % (x.id, src(n)[:60]))

def expect(cond, what):
    if not cond:
        raise U('token.py shape changed: ' + what)

def slice_branch(fn, keyname):
    """the statements executed for a slice key: if isinstance(key, slice): ... ; everything else must
    be other isinstance branches / raise KeyError"""
    body = strip_doc(fn.body)
    expect(len(body) == 1 and isinstance(body[0], ast.If), fn.name + ' body is one if-chain')
    node = body[0]
    while True:
        t = src(node.test)
        if t == 'isinstance(%s, slice)' % keyname or t == 'type(%s) is slice' % keyname:
            return node.body
        expect(len(node.orelse) == 1 and isinstance(node.orelse[0], ast.If), fn.name + ' has a slice branch')
        node = node.orelse[0]

def drop_step_assert(stmts, keyname):
    expect(stmts and src(stmts[0]) == 'assert %s.step is None' % keyname, 'first statement asserts key.step is None')
    return stmts[1:]

def mkfn(name, params, stmts):
    f = ast.FunctionDef(name=name, args=ast.arguments(posonlyargs=[], args=[ast.arg(arg=p) for p in params],
                        kwonlyargs=[], kw_defaults=[], defaults=[]), body=stmts, decorator_list=[], type_params=[])
    return ast.fix_missing_locations(f)

def flatten_token(token_py):
    tree = ast.parse(open(token_py).read())
    Token = find_class(tree, 'Token')
    init = find_def(Token.body, '__init__')
    inits = [src(s) for s in strip_doc(init.body)]
    expect('self.bit_value = initial_bit_value' in inits, 'Token.__init__ sets self.bit_value')
    expect('self.mask = (1 << self.Info.size) - 1' in inits, 'Token.__init__ sets self.mask = (1 << self.Info.size) - 1')
    out = []
    # ---- __getitem__
    g = find_def(Token.body, '__getitem__')
    expect([a.arg for a in g.args.args] == ['self', 'key'], '__getitem__(self, key)')
    st = drop_step_assert(copy.deepcopy(slice_branch(g, 'key')), 'key')
    sub = Subst({'self.bit_value': 'bit_value', 'key.start': 'start', 'key.stop': 'stop',
                 'self.mask': '((1 << size) - 1)'}, {'self', 'key'})
    st = [sub.visit(s) for s in st]; sub.check(st)
    out.append(mkfn('tok_getitem', ['bit_value', 'start', 'stop'], st))
    # ---- __setitem__
    s_ = find_def(Token.body, '__setitem__')
    expect([a.arg for a in s_.args.args] == ['self', 'key', 'value'], '__setitem__(self, key, value)')
    st = drop_step_assert(copy.deepcopy(slice_branch(s_, 'key')), 'key')
    st = [sub.visit(s) for s in st]; sub.check(st)
    st.append(ast.parse('return bit_value').body[0])
    out.append(mkfn('tok_setitem', ['size', 'bit_value', 'start', 'stop', 'value'], st))
    # ---- _p2 / bit_range / bit_concat
    p2 = find_def(find_class(tree, '_p2').body, '__init__')
    p2s = [src(s) for s in p2.body]
    expect([a.arg for a in p2.args.args] == ['self', 'getter', 'setter', 'bitsize', 'signed'], '_p2.__init__ signature')
    expect('self._bitsize = bitsize' in p2s and 'self._mask = (1 << bitsize) - 1' in p2s, '_p2 sets _bitsize and _mask')
    br = find_def(tree.body, 'bit_range')
    expect([a.arg for a in br.args.args] == ['b', 'e', 'signed'], 'bit_range(b, e, signed)')
    expect(src(strip_doc(br.body)[-1]) == 'return _p2(getter, setter, e - b, signed)', 'bit_range returns _p2(getter, setter, e - b, signed)')
    bg, bs = find_def(br.body, 'getter'), find_def(br.body, 'setter')
    expect(src(bg.body[0]) == 'return s[b:e]' and len(bg.body) == 1, 'bit_range getter is s[b:e]')
    expect(src(bs.body[0]) == 's[b:e] = v' and len(bs.body) == 1, 'bit_range setter is s[b:e] = v')
    out.append(ast.parse('def range_get(bit_value, b, e):\n    return tok_getitem(bit_value, b, e)').body[0])
    out.append(ast.parse('def range_set(size, bit_value, b, e, v):\n    return tok_setitem(size, bit_value, b, e, v)').body[0])
    bc = find_def(tree.body, 'bit_concat')
    expect(bc.args.vararg is not None and bc.args.vararg.arg == 'partials' and not bc.args.args, 'bit_concat(*partials)')
    cg, cs = copy.deepcopy(find_def(bc.body, 'getter')), copy.deepcopy(find_def(bc.body, 'setter'))
    # partials -> parallel lists bs, es of the (flattened) bit_range parts
    class Parts(ast.NodeTransformer):
        def visit_For(self, node):
            node = self.generic_visit(node)
            it = src(node.iter)
            expect(src(node.target) == 'at' and it in ('partials', 'reversed(partials)'), 'loop over partials')
            node.target = ast.Name(id='i', ctx=ast.Store())
            node.iter = ast.parse('range(len(bs))' if it == 'partials' else 'reversed(range(len(bs)))', mode='eval').body
            return node
        def visit_Attribute(self, node):
            t = src(node)
            if t == 'at._bitsize':
                return ast.parse('(es[i] - bs[i])', mode='eval').body
            if t == 'at._mask':
                return ast.parse('((1 << (es[i] - bs[i])) - 1)', mode='eval').body
            return self.generic_visit(node)
        def visit_Call(self, node):
            node = self.generic_visit(node)
            f = src(node.func)
            if f == 'at.__get__':
                expect(len(node.args) == 1 and src(node.args[0]) == 's', 'at.__get__(s)')
                return ast.parse('range_get(bit_value, bs[i], es[i])', mode='eval').body
            return node
        def visit_Expr(self, node):
            c = node.value
            if isinstance(c, ast.Call) and src(c.func) == 'at.__set__':
                expect(len(c.args) == 2 and src(c.args[0]) == 's', 'at.__set__(s, x)')
                x = self.visit(c.args[1])
                return ast.parse('bit_value = range_set(size, bit_value, bs[i], es[i], %s)' % src(x)).body[0]
            return self.generic_visit(node)
    P = Parts()
    expect([a.arg for a in cg.args.args] == ['s'] and [a.arg for a in cs.args.args] == ['s', 'v'], 'bit_concat getter(s)/setter(s, v)')
    gb = [P.visit(s) for s in cg.body]
    sb = [P.visit(s) for s in cs.body] + [ast.parse('return bit_value').body[0]]
    for n in gb + sb:
        for x in ast.walk(n):
            if isinstance(x, ast.Name) and x.id in ('at', 's', 'partials'):
                raise U('unexpected use of %s in bit_concat closure: %s' % (x.id, src(n)[:60]))
    out.append(mkfn('concat_get', ['bit_value', 'bs', 'es'], gb))
    out.append(mkfn('concat_set', ['size', 'bit_value', 'bs', 'es', 'v'], sb))
    return out

def flatten_bitview(bitfun_py):
    tree = ast.parse(open(bitfun_py).read())
    BV = find_class(tree, 'BitView')
    init = [src(s) for s in strip_doc(find_def(BV.body, '__init__').body)]
    expect(init[:3] == ['self.data = data', 'self.begin = begin', 'self.length = length'], 'BitView.__init__')
    f = find_def(BV.body, '__setitem__')
    st = drop_step_assert(copy.deepcopy(slice_branch(f, 'key')), 'key')
    sub = Subst({'self.data': 'data', 'self.begin': 'begin', 'self.length': 'length',
                 'key.start': 'start', 'key.stop': 'stop'}, {'self', 'key'})
    st = [sub.visit(s) for s in st]; sub.check(st)
    st.append(ast.parse('return data').body[0])
    return [mkfn('bitview_setitem', ['data', 'begin', 'length', 'start', 'stop', 'value'], st)]


def flatten_setbit(token_py):
    """wave 5: the int-key branch of Token.__setitem__ (`self.set_bit(key, value)`) and Token.set_bit.
    `value = bool(value)` followed by `if value:` becomes `if value != 0:` on the int parameter (bool(v) is v != 0 for
    every Python int, bools included); self.bit_value -> parameter/return value, self.Info.size -> parameter size."""
    tree = ast.parse(open(token_py).read())
    Token = find_class(tree, 'Token')
    s_ = find_def(Token.body, '__setitem__')
    body = strip_doc(s_.body)
    expect(len(body) == 1 and isinstance(body[0], ast.If), '__setitem__ body is one if-chain')
    node, found = body[0], False
    while True:
        if src(node.test) in ('isinstance(key, int)', 'type(key) is int'):
            expect(len(node.body) == 1 and src(node.body[0]) == 'self.set_bit(key, value)', 'int branch is self.set_bit(key, value)')
            found = True
            break
        if len(node.orelse) == 1 and isinstance(node.orelse[0], ast.If):
            node = node.orelse[0]
        else:
            break
    expect(found, '__setitem__ has an int-key branch')
    f = find_def(Token.body, 'set_bit')
    expect([a.arg for a in f.args.args] == ['self', 'i', 'value'], 'set_bit(self, i, value)')
    st = copy.deepcopy(strip_doc(f.body))
    expect(st and src(st[0]) == 'value = bool(value)', 'set_bit starts with value = bool(value)')
    st = st[1:]
    sub = Subst({'self.bit_value': 'bit_value', 'self.Info.size': 'size'}, {'self'})
    st = [sub.visit(x) for x in st]; sub.check(st)
    n_if = 0
    for x in st:
        for y in ast.walk(x):
            if isinstance(y, ast.If):
                expect(src(y.test) == 'value', 'set_bit branches on `value` itself')
                y.test = ast.parse('value != 0', mode='eval').body
                n_if += 1
    expect(n_if == 1, 'set_bit has exactly one `if value:`')
    for x in st:
        for y in ast.walk(x):
            if isinstance(y, ast.Name) and y.id == 'value' and not isinstance(getattr(y, 'ctx', None), ast.Load):
                raise U('set_bit assigns value again')
    uses = sum(1 for x in st for y in ast.walk(x) if isinstance(y, ast.Name) and y.id == 'value')
    expect(uses == 1, 'value is used only in the `if value:` test')
    st.append(ast.parse('return bit_value').body[0])
    return [mkfn('tok_setbit', ['size', 'bit_value', 'i', 'value'], st)]


ENTRIES = [{'name': 'tok_getitem'}, {'name': 'tok_setitem'}, {'name': 'range_get'}, {'name': 'range_set'},
           {'name': 'concat_get', 'params': {'bs': 'list', 'es': 'list'}},
           {'name': 'concat_set', 'params': {'bs': 'list', 'es': 'list'}},
           {'name': 'bitview_setitem', 'params': {'data': 'bytes'}},
           {'name': 'tok_setbit'}]


def flat_source(repo):
    import os
    fns = flatten_token(os.path.join(repo, 'ppci/arch/token.py')) + \
        flatten_bitview(os.path.join(repo, 'ppci/utils/bitfun.py')) + \
        flatten_setbit(os.path.join(repo, 'ppci/arch/token.py'))
    return '\n\n'.join(src(f) for f in fns) + '\n'
