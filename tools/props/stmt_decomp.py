"""stmt_decomp -- decompile the CFG of a ppci IR function (as emitted by the Python and C3
front-ends) into the tree form of coq/Model/StmtCode.v, rendered as nested tuples equal to
`code_val` of the Coq model.  Used by tools/props/c36.py and c37.py (tie H for statements).

The CFG is unfolded along forward edges (a block reached from several predecessors is inlined at
each); targets of back edges are loop heads ("loop", level, body) / ("back", level).  Values that
live across blocks become registers: a phi -> register 2*depth, any other value used outside its
defining block -> register 2*depth+1 for the Python for-loop bound, 2*depth for a C3 switch value
(`cross_reg`), set when control leaves the defining block.  Stores of function parameters into
their stack slots at entry are not part of the tree (the model's environment starts with them).
Anything unexpected raises Unexpected (reported by the caller as a correspondence failure).
"""
from ppci import ir


class Unexpected(Exception):
    pass


class Decompiler:
    def __init__(self, func, var_index, typed, cross_reg, max_nodes=20000, fun_index=None):
        self.f = func
        self.fun_index = fun_index or {}    # callee name -> function number
        self.var_index = var_index        # name -> slot number
        self.typed = typed
        self.cross_reg = cross_reg        # depth -> register of a non-phi cross-block value
        self.slot = {}                    # AddressOf value -> slot number
        self.reg = {}                     # value -> register
        self.nodes = 0
        self.max_nodes = max_nodes
        self.heads = self._loop_heads()
        self.cross = self._cross_values()
        for b in func:
            for i in b:
                if isinstance(i, ir.AddressOf) and isinstance(i.src, ir.Alloc):
                    name = i.src.name
                    for pre in ('alloc_', 'var_'):
                        if name.startswith(pre):
                            name = name[len(pre):]
                    if name not in var_index:
                        raise Unexpected('slot %s' % i.src.name)
                    self.slot[i] = var_index[name]

    def _loop_heads(self):
        heads, state = set(), {}

        def dfs(b):
            state[b] = 1
            for s in b.successors:
                if state.get(s) == 1:
                    heads.add(s)
                elif s not in state:
                    dfs(s)
            state[b] = 2
        dfs(self.f.entry)
        return heads

    def _cross_values(self):
        cross = set()
        for b in self.f:
            for i in b:
                if isinstance(i, (ir.Phi, ir.Alloc, ir.AddressOf)) or not isinstance(i, ir.Value):
                    continue
                for u in i.used_by:
                    if isinstance(u, ir.Phi):
                        continue
                    if u.block is not b:
                        cross.add(i)
        return cross

    def reaches(self, t, head, avoid):
        seen, todo = set(), [t]
        while todo:
            b = todo.pop()
            if b is head:
                return True
            if b in seen or b in avoid:
                continue
            seen.add(b)
            todo += list(b.successors)
        return False

    def ty(self, v):
        return [str(v.ty)] if self.typed else []

    def tree(self, v):
        self.nodes += 1
        if self.nodes > self.max_nodes:
            raise Unexpected('too large')
        if isinstance(v, ir.Const):
            return tuple(['c'] + self.ty(v) + [v.value])
        if isinstance(v, ir.Load):
            if v.address not in self.slot:
                raise Unexpected('load from %s' % v.address)
            return tuple(['v'] + self.ty(v) + [self.slot[v.address]])
        if isinstance(v, ir.Binop):
            return tuple(['b'] + self.ty(v) + [v.operation, self.tree(v.a), self.tree(v.b)])
        if isinstance(v, ir.Unop):
            if v.operation != '-':
                raise Unexpected('unop ' + v.operation)
            return tuple(['n'] + self.ty(v) + [self.tree(v.a)])
        if isinstance(v, ir.Cast):
            return tuple(['k'] + self.ty(v) + [self.tree(v.src)])
        raise Unexpected('value %s' % v)

    def rop(self, v):
        if v in self.reg:
            return ('r', self.reg[v])
        if isinstance(v, ir.Const):
            return ('k', v.value)
        raise Unexpected('operand %s of a register compare' % v)

    def goto(self, src, t, loops):
        """code for leaving block src towards t"""
        # leaving loops: t is outside a loop when it cannot get back to its head
        while loops and t is not loops[-1] and not self.reaches(t, loops[-1], set(loops[:-1])):
            loops = loops[:-1]
        d = len(loops)
        sets = []
        # phi inputs of the target on this edge
        for phi in t.phis:
            val = phi.inputs.get(src)
            if val is None:
                raise Unexpected('phi without input')
            if t in loops:        # back edge: must be phi + 1
                if not (isinstance(val, ir.Binop) and val.operation == '+' and val.a is phi
                        and isinstance(val.b, ir.Const) and val.b.value == 1):
                    raise Unexpected('back-edge phi input is not phi + 1')
                sets.append(('inc', self.reg[phi]))
            else:
                self.reg[phi] = 2 * d
                sets.append(('set', 2 * d, self.tree(val)))
        # other values defined in src and used in later blocks
        for i in src:
            if i in self.cross:
                self.reg[i] = self.cross_reg(d)
                sets.append(('set', self.reg[i], self.tree(i)))
        if t in loops:
            code = ('back', loops.index(t))
        elif t in self.heads:
            code = ('loop', d, self.walk(t, loops + [t]))
        else:
            code = self.walk(t, loops)
        for s in reversed(sets):
            code = s + (code,)
        return code

    def walk(self, b, loops):
        self.nodes += 1
        if self.nodes > self.max_nodes:
            raise Unexpected('too large')
        items = []
        term = None
        for i in b:
            if isinstance(i, (ir.Alloc, ir.AddressOf, ir.Phi, ir.Const, ir.Load, ir.Binop, ir.Unop, ir.Cast,
                              ir.FunctionCall)):
                continue
            if isinstance(i, ir.Store):
                if isinstance(i.value, ir.Parameter):
                    continue
                if i.address not in self.slot:
                    raise Unexpected('store to %s' % i.address)
                if isinstance(i.value, ir.FunctionCall):
                    callee = i.value.callee.name
                    if callee not in self.fun_index:
                        raise Unexpected('call of %s' % callee)
                    items.append(('call', self.slot[i.address], self.fun_index[callee],
                                  [self.tree(a) for a in i.value.arguments]))
                elif i.value in self.reg and isinstance(i.value, ir.Phi):
                    items.append(('get', self.slot[i.address], self.reg[i.value]))
                else:
                    items.append(('st', self.slot[i.address], self.tree(i.value)))
                continue
            term = i
            break
        if term is None or isinstance(term, ir.Exit):
            code = 'stuck'
        elif isinstance(term, ir.Return):
            code = ('ret', self.tree(term.result))
        elif isinstance(term, ir.Jump):
            code = self.goto(b, term.target, loops)
        elif isinstance(term, ir.CJump):
            if term.a in self.reg or term.b in self.reg or term.a in self.cross:
                if term.a in self.cross and term.a not in self.reg:
                    raise Unexpected('cross-block value compared before it was set')
                code = ('rcj', term.cond, self.rop(term.a), self.rop(term.b),
                        self.goto(b, term.lab_yes, loops), self.goto(b, term.lab_no, loops))
            else:
                code = ('cj', term.cond, self.tree(term.a), self.tree(term.b),
                        self.goto(b, term.lab_yes, loops), self.goto(b, term.lab_no, loops))
        else:
            raise Unexpected('terminator %s' % term)
        for it in reversed(items):
            code = it + (code,)
        return code


def decompile(func, var_index, typed, cross_reg, fun_index=None):
    d = Decompiler(func, var_index, typed, cross_reg, fun_index=fun_index)
    return d.walk(func.entry, [])
