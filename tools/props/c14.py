"""C14 — object files and archives survive save and load (DESIGN §4 C14).

tie H: coq/Model/ObjectFile.v mirrors objectfile.serialize/deserialize, Archive.save/load,
binary_txt.bin2asc/asc2bin (+ chunk.chunks), common.make_num and the builtins hex()/int(s, base)/
hexlify/unhexlify; coq/Model/DebugInfo.v mirrors debuginfo.DictSerializer / DictDeserializer (type
ids in first-use order, lazy get_type with memo and worklist); coq/Model/ObjectFileFull.v joins them
(objects and archives WITH debug info).  tie I: coq/Gen/objarch.v (architecture id strings) and
coq/Gen/dbgclasses.v (debug type / address / record classes of debuginfo.py, by introspection) are
exported from /repo on every run.  Props/C14.v proves the round trips on the models.

Every run:
  (a) real `serialize` output of generated and compiler-produced ObjectFile instances is compared
      structurally (keys in insertion order) with the model's JSON value;
  (c) model `deserialize` vs real `deserialize` on those JSON values and on well-typed mutations
      (missing keys, duplicate ids / global names, unknown sections, bad hex text, unknown arch);
  (d) make_num, hex(), bin2asc, asc2bin on pools;
  (e) debug info, both directions: model dbg_serialize vs debuginfo.serialize and model loader vs
      debuginfo.deserialize on c3c/cc output (arm, x86_64, riscv, msp430, debug=True), hand-built
      DebugInfo of every record kind, random type graphs with cycles in random registration order,
      well-typed mutations of the JSON; whole objects and archives with debug info.  The check first
      determines which loader the source implements (KeyError on the pointer-first cycle = the
      unrepaired one, model dbg_deserialize_v1; otherwise dbg_deserialize) and compares with that one;
  search oracle (independent of the models): real save -> text -> load round trip compared PER
      FIELD (entry_symbol_id, arch, section identity inside images and debug info included — the
      implementation's __eq__ ignores some of them), archives, and link(reloaded) == link(original).
"""
import copy
import io
import itertools
import json

from vlib import OkV, Diag, Internal, call_impl, to_term, coq_str, coq_z, boundary_pool, TieBroken

LEVEL = 'proof'
RULE = ('objects are built through the ObjectFile API from ctx.rng: 0-4 sections (unique names from a pool of 12, '
        'sizes 0,1,29,30,31,59,60,61,70 and random 0-70, alignments 1..4096, boundary addresses incl. negative), '
        '0-6 symbols (unique ids, local/global/undefined/absolute, negative and 70-bit values, typ/size None or set), '
        '0-4 relocations (negative addends), 0-2 images of several sections, entry id None/0/other, all 67 arch ids; '
        'plus c3c/cc/asm output for arm, x86_64, riscv, msp430 with debug=True and linked images. '
        'debug info: c3c/cc output, 5 hand-built DebugInfo, random type graphs (0-6 types, cycles, shuffled registration, '
        '4% unregistered references) with variables/functions/locations, JSON mutations. '
        'distinct non-trivial = distinct serialized objects that have at least one non-empty section and one symbol, plus '
        'distinct serialized DebugInfo with at least one type and one variable or function')
EXPLANATION = ('Unbounded Coq theorems on the hand models: hex text of every integer and of every byte list (chunked) '
               'decodes back; deserialize(serialize o) = Ok o with full record equality for every well-formed object, '
               'without (c14_roundtrip) and WITH debug information (c14_roundtrip_full); debuginfo.deserialize(serialize d) '
               '= Ok d for every DebugInfo whose referenced types are registered — all record kinds, arbitrary type cycles and '
               'registration orders, ids in first-use order (c14_debug_roundtrip, repaired loader); the unrepaired loader '
               'fails on a well-formed witness (c14_debug_pointer_first_refuted), is correct whenever its lazy construction '
               'goes through (c14_debug_roundtrip_v1, decidable side condition) and is refined by the repaired one; archives '
               'with debug members; serialize is injective; the introspected class list of debuginfo.py equals the model\'s '
               'constructor list (c14_debug_classes_covered / _exact).')
TRUSTED = ['hand models coq/Model/ObjectFile.v, DebugInfo.v, ObjectFileFull.v (cross-checked against the implementation on '
           'every run: serialize, deserialize incl. error outcomes, make_num, hex, bin2asc, asc2bin, debuginfo.serialize / '
           'deserialize incl. KeyError outcomes of the lazy loader on random type graphs)',
           'json.dump(indent=2, sort_keys=True) followed by json.load is the identity on values built from None, bool, '
           'int (< 10**4300 for raw ints: CPython int->str digit limit), str, list and str-keyed dict (key order is '
           'irrelevant to the loaders, which index by key); exercised by the oracle, not proved',
           'CPython builtins hex(), int(str, base) on digit strings, binascii.hexlify/unhexlify behave as specified '
           'in the model (cross-checked on boundary pools)',
           'abstraction: an Image is modelled by the list of its section names (exact when section names are unique; '
           'the oracle checks that reloaded images point at the reloaded object\'s own Section objects)',
           'abstraction: a debug type object is modelled by its position in DebugInfo.types (identity -> position; the '
           'correspondence renders real object graphs that way in both directions); get_type_id numbering is modelled '
           'as first-use order over the call sequence of the serializer',
           'architecture = Architecture.make_id_str(); exporter of Gen/objarch.v checks '
           'get_arch(id).make_id_str() == id for all 67 ids',
           'exporter of Gen/dbgclasses.v: subclasses of DebugType / DebugBaseInfo and *Address classes of debuginfo.py; '
           'an *Address class that occurs nowhere in ppci except its own definition (TemporalDebugAddress) is listed '
           'in the evidence and not exported']
ASSUMPTIONS = ['wf_obj: bytes in 0..255, unique section names, unique symbol ids, unique global symbol names, undefined '
               'symbols have section None, relocations/images name existing sections, arch is a canonical id of a ppci '
               'target; field types are str/int/None as produced by ppci',
               'wf_dbg: every type referenced by a type, variable, parameter or function is registered in DebugInfo.types; '
               'addresses are DebugAddress / FpOffsetAddress(StackLocation) / UnknownAddress (a DebugFunction with the '
               'default begin=0/end=0 or a DebugLocation with address None cannot be serialized by ppci at all)',
               'int() leniencies (white space, "_", sign or repeated prefix after 0x), ill-typed JSON fields and type tables '
               'with repeated ids are outside the models of the loaders (never produced by the serializers)',
               'SourceLocation.source (cached source text) is not counted as debug information']

NAME_POOL = ['code', 'data', '.text', 'bss', 'a', 'b', 'main', 'x_1', 'sec 2', 'q"t', 'rom', 'Z9']
RELOC_POOL = ['abs32', 'rel8', 'imm24', 'apply_b_imm24', 'rel_imm20', 'abs64', 'rel32']
SIZES = [0, 1, 2, 29, 30, 31, 59, 60, 61, 70]

C3_SRC = """
module main;
type struct { int x; int* p; } T;
var int g;
var T t;
function int add(int a, int b) { var int c; c = a + b; g = c; return c; }
function void main() { var int x; x = add(1, 2); }
"""
C_SRC = """
struct node { struct node *next; int v; char c[3]; };
struct node head;
struct node *p;
int k = 5;
int f(struct node *n, int k) { int s = 0; while (n) { s += n->v; n = n->next; } return s + k; }
"""
ASM_SRC = {
    'arm': "section code\nglobal foo\nfoo: mov r0, 5\n bl bar\n b foo\nsection data\nglobal d1\nd1: dd 0x11223344\n",
    'x86_64': "section code\nglobal foo\nfoo: mov rax, 5\n call bar\n jmp foo\nsection data\nd1: db 5\n",
    # `dq 5` makes ppci's x86_64 assembler emit a symbol whose *name* is the int 5 (oracle only: not a model record)
    'x86_64/intname': "section data\nd1: dq 5\n",
    'riscv': "section code\nglobal foo\nfoo: addi x1, x0, 5\n jal x1, bar\n j foo\n",
}


# ------------------------------------------------------------------ arch table export (tie I)
def arch_table():
    from ppci.api import get_arch
    from ppci.arch.target_list import target_names
    ids = []
    for n in target_names:
        a = get_arch(n)
        opts = list(a.option_settings.keys())
        for k in range(len(opts) + 1):
            for sub in itertools.combinations(opts, k):
                s = ':'.join([n] + list(sub))
                got = get_arch(s).make_id_str()
                if got != s:
                    raise TieBroken('get_arch(%r).make_id_str() == %r' % (s, got))
                ids.append(s)
    return ids


def regen(ctx):
    ids = arch_table()
    text = ('(* generated by tools/props/c14.py from ppci.arch.target_list and Architecture.option_settings;\n'
            '   every entry satisfies get_arch(id).make_id_str() == id *)\n'
            'From Coq Require Import String List.\nImport ListNotations.\nOpen Scope string_scope.\n'
            'Definition arch_ids : list string := [\n  ' + ';\n  '.join('"%s"' % s for s in ids) + '].\n')
    changed = ctx.write_gen('objarch', text)
    ctx.cov['stages']['gen_objarch'] = {'ids': len(ids), 'changed_on_disk': changed}
    cls = debug_classes()
    text = ('(* generated by tools/props/c14.py by introspection of ppci.binutils.debuginfo:\n'
            '   strict subclasses of DebugType / DebugBaseInfo and the *Address classes that are used in ppci *)\n'
            'From Coq Require Import String List.\nImport ListNotations.\nOpen Scope string_scope.\n')
    for k in ('type', 'addr', 'record'):
        text += 'Definition dbg_%s_classes : list string := [%s].\n' % (k, '; '.join('"%s"' % c for c in cls[k]))
    changed = ctx.write_gen('dbgclasses', text)
    ctx.cov['stages']['gen_dbgclasses'] = dict(cls, changed_on_disk=changed)
    return ids


def debug_classes():
    """tie I: the debug record classes of debuginfo.py, by introspection"""
    import glob
    import inspect
    import os
    import re
    from ppci.binutils import debuginfo as di
    mine = [(n, c) for n, c in inspect.getmembers(di, inspect.isclass) if c.__module__ == di.__name__]
    types = sorted(n for n, c in mine if issubclass(c, di.DebugType) and c is not di.DebugType)
    records = sorted(n for n, c in mine if issubclass(c, di.DebugBaseInfo) and c is not di.DebugBaseInfo)
    root = os.path.dirname(os.path.dirname(os.path.abspath(di.__file__)))
    src = ''
    for f in glob.glob(os.path.join(root, '**', '*.py'), recursive=True):
        with open(f, encoding='utf-8', errors='replace') as fh:
            src += fh.read()
    addrs, unused = [], []
    for n, c in mine:
        if n.endswith('Address'):
            uses = len(re.findall(r'\b%s\b' % n, src)) - len(re.findall(r'class\s+%s\b' % n, src))
            (addrs if uses > 0 else unused).append(n)
    return {'type': types, 'addr': sorted(addrs), 'record': records, 'declared_but_never_used': sorted(unused)}


# ------------------------------------------------------------------ rendering
def json_term(v):
    if v is None:
        return 'JNull'
    if isinstance(v, bool):
        return 'JBool true' if v else 'JBool false'
    if isinstance(v, int):
        return 'JNum %s' % coq_z(v)
    if isinstance(v, str):
        return 'JStr %s' % coq_str(v)
    if isinstance(v, list):
        return 'JList [%s]' % '; '.join(json_term(x) for x in v)
    if isinstance(v, dict):
        return 'JObj [%s]' % '; '.join('(%s, %s)' % (coq_str(k), json_term(x)) for k, x in v.items())
    raise TypeError(v)


def json_val(v):
    """python JSON value -> value whose vlib.to_val rendering equals Lib.Json.json_to_val"""
    if isinstance(v, list):
        return [json_val(x) for x in v]
    if isinstance(v, dict):
        return tuple((k, json_val(x)) for k, x in v.items())
    return v


def opt(f, v):
    return 'None' if v is None else '(Some %s)' % f(v)


def obj_term(o):
    """real ObjectFile -> Coq objectfile term (images as section-name lists)"""
    secs = '; '.join('mkSection %s %s %s %s' % (coq_str(s.name), coq_z(s.address), coq_z(s.alignment),
                                                to_term(bytes(s.data))) for s in o.sections)
    syms = '; '.join('mkSymbol %s %s %s %s %s %s %s' % (
        coq_z(y.id), coq_str(y.name), coq_str(y.binding), opt(coq_z, y.value), opt(coq_str, y.section),
        opt(coq_str, y.typ), opt(coq_z, y.size)) for y in o.symbols)
    rels = '; '.join('mkReloc %s %s %s %s %s' % (coq_str(r.reloc_type), coq_z(r.symbol_id), coq_str(r.section),
                                                 coq_z(r.offset), coq_z(r.addend)) for r in o.relocations)
    imgs = '; '.join('mkImage %s %s [%s]' % (coq_str(i.name), coq_z(i.address),
                                             '; '.join(coq_str(s.name) for s in i.sections)) for i in o.images)
    return '(mkObj %s [%s] [%s] [%s] [%s] %s)' % (coq_str(o.arch.make_id_str()), secs, syms, rels, imgs,
                                                  opt(coq_z, o.entry_symbol_id))


def obj_fields(o):
    """real ObjectFile -> tuple rendered like ToVal_objectfile"""
    return (o.arch.make_id_str(),
            [(s.name, s.address, s.alignment, bytes(s.data)) for s in o.sections],
            [(y.id, y.name, y.binding, y.value, y.section, y.typ, y.size) for y in o.symbols],
            [(r.reloc_type, r.symbol_id, r.section, r.offset, r.addend) for r in o.relocations],
            [(i.name, i.address, [s.name for s in i.sections]) for i in o.images],
            o.entry_symbol_id)


def typed(o):
    """field types of the model records (ppci's own producers use these; e.g. an int symbol name is not modelled)"""
    def st(x):
        return isinstance(x, str)

    def it(x):
        return isinstance(x, int) and not isinstance(x, bool)
    return (all(st(s.name) and it(s.address) and it(s.alignment) for s in o.sections)
            and all(it(y.id) and st(y.name) and st(y.binding) and (y.value is None or it(y.value))
                    and (y.section is None or st(y.section)) and (y.typ is None or st(y.typ))
                    and (y.size is None or it(y.size)) for y in o.symbols)
            and all(st(r.reloc_type) and it(r.symbol_id) and st(r.section) and it(r.offset) and it(r.addend)
                    for r in o.relocations)
            and all(st(i.name) and it(i.address) for i in o.images)
            and (o.entry_symbol_id is None or it(o.entry_symbol_id)))


def model_wf(o):
    """python mirror of wf_objb (used only to count / label cases)"""
    names = [s.name for s in o.sections]
    gl = [y.name for y in o.symbols if y.binding == 'global']
    ids = [y.id for y in o.symbols]
    return (len(set(names)) == len(names) and len(set(ids)) == len(ids) and len(set(gl)) == len(gl)
            and all(y.value is not None or y.section is None for y in o.symbols)
            and all(r.section in names for r in o.relocations)
            and all(s.name in names for i in o.images for s in i.sections))


# ------------------------------------------------------------------ generators
def gen_object(ctx, arch_ids, ascii_only=True, small=False):
    from ppci.api import get_arch
    from ppci.binutils.objectfile import ObjectFile, Image, RelocationEntry
    rng = ctx.rng
    pool = boundary_pool(70)
    names = list(NAME_POOL) if ascii_only else NAME_POOL + ['üß', 'tab\there', 'nl\nx', '☃', '']
    o = ObjectFile(get_arch(rng.choice(arch_ids)))
    for nm in rng.sample(names, rng.randrange(0, 5)):
        s = o.create_section(nm)
        n = rng.randrange(0, 4) if small else (rng.choice(SIZES) if rng.random() < 0.6 else rng.randrange(0, 71))
        s.add_data(bytes(rng.randrange(256) if rng.random() < 0.8 else rng.choice([0, 255, 0x0a, 0xf0])
                         for _ in range(n)))
        s.alignment = rng.choice([1, 2, 4, 4, 8, 16, 0x1000])
        s.address = rng.choice(pool) if rng.random() < 0.5 else rng.choice([0, 0x100, 0x8000000, -4])
    secn = [s.name for s in o.sections]
    ids = rng.sample(range(0, 12), rng.randrange(0, 7))
    if ids and rng.random() < 0.2:
        ids[0] = rng.choice([1 << 40, 10 ** 30])
    globs = set()
    for i in ids:
        nm = rng.choice(names)
        binding = rng.choice(['local', 'global'])
        if binding == 'global' and nm in globs:
            binding = 'local'
        if binding == 'global':
            globs.add(nm)
        kind = rng.randrange(4)
        if kind == 0:
            value, sec = None, None                      # undefined
        elif kind == 1:
            value, sec = rng.choice(pool), None          # absolute
        else:
            value = rng.choice(pool) if rng.random() < 0.5 else rng.randrange(0, 100)
            sec = rng.choice(secn + ['nosuch']) if rng.random() < 0.95 else None
        o.add_symbol(i, nm, binding, value, sec, rng.choice(['func', 'object', 'object', None]),
                     rng.choice([0, 0, 4, 12, None, 1 << 33]))
    if secn:
        for _ in range(rng.randrange(0, 5)):
            o.add_relocation(RelocationEntry(rng.choice(RELOC_POOL), rng.choice(ids + [99, -1]) if ids else 7,
                                             rng.choice(secn), rng.choice([0, 1, 4, 60, rng.choice(pool)]),
                                             rng.choice([0, -4, -12, 8, rng.choice(pool)])))
    for k in range(rng.randrange(0, 3)):
        img = Image(rng.choice(['flash', 'ram', 'img%d' % k]), rng.choice([0, 0x100, 0x8000000, rng.choice(pool)]))
        for s in rng.sample(o.sections, rng.randrange(0, len(o.sections) + 1)):
            img.add_section(s)
        o.add_image(img)
    o.entry_symbol_id = rng.choice([None, None, 0, 3, rng.choice(ids) if ids else 5, 1 << 35])
    return o


def compiled_objects(ctx, with_debug=True):
    """real compiler / assembler / linker output; returns list of (label, obj)"""
    from ppci.api import c3c, cc, asm, link
    out = []
    archs = ['arm', 'x86_64', 'riscv', 'msp430']
    for a in archs:
        try:
            o = c3c([io.StringIO(C3_SRC)], [], a, debug=with_debug)
            out.append(('c3c:%s' % a, o))
        except Exception as ex:   # noqa: BLE001
            ctx.log('c3c failed for', a, repr(ex)[:200])
    for a in ['x86_64', 'arm', 'riscv']:
        try:
            out.append(('cc:%s' % a, cc(io.StringIO(C_SRC), a, debug=with_debug)))
        except Exception as ex:   # noqa: BLE001
            ctx.log('cc failed for', a, repr(ex)[:200])
    for a, src in ASM_SRC.items():
        try:
            out.append(('asm:%s' % a, asm(io.StringIO(src), a.split('/')[0])))
        except Exception as ex:   # noqa: BLE001
            ctx.log('asm failed for', a, repr(ex)[:200])
    for lbl, o in list(out):
        if lbl.startswith('c3c:'):
            try:
                out.append(('link:' + lbl, link([o], partial_link=True, debug=with_debug)))
            except Exception as ex:   # noqa: BLE001
                ctx.log('link failed for', lbl, repr(ex)[:200])
    try:
        from ppci.binutils.layout import Layout
        lay = Layout.load(io.StringIO('MEMORY flash LOCATION=0x100 SIZE=0x1000 { SECTION(code) ALIGN(8) SECTION(data) }'))
        o = c3c([io.StringIO(C3_SRC)], [], 'arm', debug=with_debug)
        out.append(('link:layout:arm', link([o], layout=lay, debug=with_debug, entry='main_main')))
    except Exception as ex:   # noqa: BLE001
        ctx.log('layout link failed', repr(ex)[:300])
    return out


# ------------------------------------------------------------------ per-field comparison (oracle)
def cmp_any(a, b, path, out, seen):
    """structural comparison of two python object graphs (identity-insensitive, cycle-safe)"""
    if len(out) > 20:
        return
    if type(a) is not type(b) and not (isinstance(a, (bytes, bytearray)) and isinstance(b, (bytes, bytearray))):
        out.append((path, 'type ' + type(a).__name__, 'type ' + type(b).__name__))
        return
    if isinstance(a, (int, str, bool, float, type(None), bytes, bytearray)):
        if a != b:
            if isinstance(a, (bytes, bytearray)):
                out.append((path, '%d bytes %s' % (len(a), bytes(a).hex()[-40:]), '%d bytes %s' % (len(b), bytes(b).hex()[-40:])))
            else:
                out.append((path, repr(a)[:80], repr(b)[:80]))
        return
    if isinstance(a, (list, tuple)):
        if len(a) != len(b):
            out.append((path, 'len %d' % len(a), 'len %d' % len(b)))
            return
        for i, (x, y) in enumerate(zip(a, b)):
            cmp_any(x, y, '%s[%d]' % (path, i), out, seen)
        return
    if isinstance(a, dict):
        if sorted(map(repr, a)) != sorted(map(repr, b)):
            out.append((path, 'keys', 'keys'))
            return
        for k in a:
            cmp_any(a[k], b[k], '%s[%r]' % (path, k), out, seen)
        return
    key = (id(a), id(b))
    if key in seen:
        return
    seen.add(key)
    if hasattr(type(a), '__slots__'):
        da = {k: getattr(a, k) for k in type(a).__slots__ if k != 'source'}
        db = {k: getattr(b, k) for k in type(b).__slots__ if k != 'source'}
    else:
        da, db = vars(a), vars(b)
    if set(da) != set(db):
        out.append((path, 'attrs %s' % sorted(da), 'attrs %s' % sorted(db)))
    for k in da:
        if k in db:
            cmp_any(da[k], db[k], path + '.' + k, out, seen)


def obj_diff(o, o2):
    """per-field differences between an object and its reloaded copy (independent of the model)"""
    out = []
    cmp_any(o.arch.make_id_str(), o2.arch.make_id_str(), 'arch', out, set())
    cmp_any(o.entry_symbol_id, o2.entry_symbol_id, 'entry_symbol_id', out, set())
    cmp_any([(s.name, s.address, s.alignment, bytes(s.data)) for s in o.sections],
            [(s.name, s.address, s.alignment, bytes(s.data)) for s in o2.sections], 'sections', out, set())
    cmp_any([(y.id, y.name, y.binding, y.value, y.section, y.typ, y.size) for y in o.symbols],
            [(y.id, y.name, y.binding, y.value, y.section, y.typ, y.size) for y in o2.symbols], 'symbols', out, set())
    cmp_any([(r.reloc_type, r.symbol_id, r.section, r.offset, r.addend) for r in o.relocations],
            [(r.reloc_type, r.symbol_id, r.section, r.offset, r.addend) for r in o2.relocations],
            'relocations', out, set())

    def img(ob):
        return [(i.name, i.address, [[k for k, s in enumerate(ob.sections) if s is t] for t in i.sections])
                for i in ob.images]
    cmp_any(img(o), img(o2), 'images(section identity)', out, set())
    # lookup maps rebuilt
    cmp_any(sorted(o.section_map), sorted(o2.section_map), 'section_map', out, set())
    cmp_any(sorted(o.symbol_map), sorted(o2.symbol_map), 'symbol_map', out, set())
    cmp_any(sorted(o.image_map), sorted(o2.image_map), 'image_map', out, set())
    if (o.debug_info is None) != (o2.debug_info is None):
        out.append(('debug_info', 'present' if o.debug_info else 'None', 'present' if o2.debug_info else 'None'))
    elif o.debug_info is not None:
        cmp_any(o.debug_info, o2.debug_info, 'debug_info', out, set())
    return out


def reload_obj(o):
    from ppci.binutils.objectfile import ObjectFile
    f = io.StringIO()
    o.save(f)
    return ObjectFile.load(io.StringIO(f.getvalue()))


def check_roundtrip(ctx, label, o, how):
    """oracle: one real save/load round trip; returns True when the object survived"""
    try:
        o2 = reload_obj(o)
    except Exception as ex:   # noqa: BLE001
        ctx.violation({'fn': 'ObjectFile.save/load', 'key': 'roundtrip-exception:' + type(ex).__name__,
                       'what': label, 'args': [how], 'expected': 'reloaded object equal to the original',
                       'actual': 'exception %r' % (ex,), 'how_to_replay': how})
        return False
    d = report_recorded(ctx, obj_diff(o, o2), label, how)
    if d:
        field = d[0][0]
        ctx.violation({'fn': 'ObjectFile.save/load', 'key': 'field:' + field_class(field), 'what': label,
                       'field': field_class(field), 'args': [how],
                       'expected': '%s = %s' % (field, d[0][1]), 'actual': '%s = %s' % (field, d[0][2]),
                       'all_differences': [list(x) for x in d[:10]], 'how_to_replay': how})
        return False
    return True


# differences that belong to a recorded defect of debuginfo.py (see known_findings.json / fixes/):
# they are reported under their own record (so the known-finding entry can match them exactly) and
# removed from the list, every other difference is still a violation
RECORDED = [
    ('fprel-size', lambda p: p.startswith('debug_info') and p.endswith('.address.offset.size')),
    ('base-encoding', lambda p: p.startswith('debug_info') and p.endswith('.encoding')),
]


def report_recorded(ctx, diffs, label, how):
    rest = []
    hit = {}
    for d in diffs:
        for name, pred in RECORDED:
            if pred(str(d[0])):
                hit.setdefault(name, d)
                break
        else:
            rest.append(d)
    for name, d in hit.items():
        ctx.violation({'fn': 'debuginfo.serialize/deserialize', 'defect': name, 'key': 'debug:' + name,
                       'what': label, 'args': [how], 'expected': '%s = %s' % (d[0], d[1]),
                       'actual': '%s = %s' % (d[0], d[2]), 'how_to_replay': how})
    return rest


def field_class(path):
    """debug_info.functions[0].variables[1].address.offset.size -> debug_info.functions.variables.address.offset.size"""
    import re
    return re.sub(r'\[[^\]]*\]', '', path)


# ------------------------------------------------------------------ hand-built debug info (oracle)
def debug_objects(ctx):
    """(label, obj, how) with hand-built DebugInfo covering every record kind of debuginfo.py"""
    from ppci.api import get_arch
    from ppci.binutils.objectfile import ObjectFile
    from ppci.binutils import debuginfo as di
    from ppci.common import SourceLocation
    from ppci.arch.stack import StackLocation
    out = []

    def mk():
        o = ObjectFile(get_arch('arm'))
        o.debug_info = di.DebugInfo()
        return o
    loc = SourceLocation('f.c', 3, 4, 5)
    # all record kinds, struct-first recursion, stack slots of size 1
    o = mk()
    it = di.DebugBaseType('int', 4, 1)
    st = di.DebugStructType()
    pt = di.DebugPointerType(st)
    st.add_field('v', it, 0)
    st.add_field('next', pt, 4)
    ar = di.DebugArrayType(it, 7)
    for t in (it, st, pt, ar):
        o.debug_info.add(t)
    o.debug_info.add(di.DebugLocation(loc, address=di.DebugAddress(3)))
    o.debug_info.add(di.DebugVariable('g', ar, loc, address=di.DebugAddress(1)))
    o.debug_info.add(di.DebugVariable('u', pt, SourceLocation(None, 1, 1, 1)))
    fn = di.DebugFunction('f', loc, it, [di.DebugParameter('a', it), di.DebugParameter('p', pt)],
                          begin=di.DebugAddress(1), end=di.DebugAddress(2),
                          variables=[di.DebugVariable('l', it, loc, address=di.FpOffsetAddress(StackLocation(-8, 1)))])
    o.debug_info.add(fn)
    out.append(('debug:all-kinds', o, 'tools/props/c14.py debug_objects(): all-kinds'))
    # an empty DebugInfo must stay a DebugInfo (not None)
    out.append(('debug:empty', mk(), 'ObjectFile(arm) with debug_info = DebugInfo()'))
    # stack slot of size 4 (what every compiler emits for locals)
    o = mk()
    o.debug_info.add(it)
    o.debug_info.add(di.DebugVariable('l', it, loc, address=di.FpOffsetAddress(StackLocation(-8, 4))))
    out.append(('debug:fprel-size', o, 'DebugVariable(address=FpOffsetAddress(StackLocation(-8, 4)))'))
    # base type encoding other than 1 (wasm2ppci: DebugBaseType("void*", n, n))
    o = mk()
    o.debug_info.add(di.DebugBaseType('void*', 8, 8))
    out.append(('debug:base-encoding', o, 'DebugBaseType("void*", 8, 8)'))
    # pointer registered before the struct it points to, struct has a field of that pointer type
    o = mk()
    st = di.DebugStructType()
    pt = di.DebugPointerType(st)
    st.add_field('next', pt, 0)
    o.debug_info.add(pt)
    o.debug_info.add(st)
    out.append(('debug:pointer-first-cycle', o, 'types=[ptr->S, S{next: ptr}] (pointer registered first)'))
    return out


def debug_class_audit(ctx):
    """every Debug* record / address class of debuginfo.py is one the (de)serializer handles"""
    from ppci.binutils import debuginfo as di
    import inspect
    handled = {'DebugBaseType', 'DebugStructType', 'DebugPointerType', 'DebugArrayType', 'DebugLocation',
               'DebugVariable', 'DebugFunction', 'DebugParameter', 'DebugAddress', 'FpOffsetAddress',
               'UnknownAddress'}
    infra = {'DebugDb', 'DebugInfo', 'DebugBaseInfo', 'DebugType', 'LineInfo', 'DebugStructField',
             'DebugInfoReplicator', 'SymbolIdAdjustingReplicator', 'DictSerializer', 'DictDeserializer',
             'DebugFormalParameter', 'TemporalDebugAddress'}
    names = {n for n, c in inspect.getmembers(di, inspect.isclass) if c.__module__ == di.__name__}
    new = sorted(names - handled - infra)
    ctx.cov['stages']['debug_classes'] = {'handled': sorted(handled & names), 'unknown': new}
    if new:
        ctx.failed_stages.append(('debug_classes', 'debuginfo.py has record classes the C14 check does not know: %s'
                                  % ', '.join(new)))


# ------------------------------------------------------------------ debug info <-> model
class NotModelled(Exception):
    pass


def _pos(types, t, extra):
    for k, x in enumerate(types):
        if x is t:
            return k
    for k, x in enumerate(extra):
        if x is t:
            return len(types) + k
    extra.append(t)
    return len(types) + len(extra) - 1


def _need(c, what):
    if not c:
        raise NotModelled(what)


def _isint(x):
    return isinstance(x, int) and not isinstance(x, bool)


def dbg_view(dbi):
    """real DebugInfo -> nested tuples shaped like ToVal_debuginfo; type references are positions in
    dbi.types (by identity), unregistered types get positions >= len(types)"""
    from ppci.binutils import debuginfo as di
    types = list(dbi.types)
    extra = []

    def loc(l):
        _need((l.filename is None or isinstance(l.filename, str)) and _isint(l.row) and _isint(l.col)
              and _isint(l.length), 'source location')
        return (l.filename, l.row, l.col, l.length)

    def addr(a):
        if type(a) is di.DebugAddress:
            _need(_isint(a.symbol_id), 'symbol id')
            return ('fixed', a.symbol_id)
        if type(a) is di.FpOffsetAddress:
            _need(_isint(a.offset.offset) and _isint(a.offset.size), 'stack location')
            return ('fprel', a.offset.offset, a.offset.size)
        if type(a) is di.UnknownAddress:
            return ('unknown',)
        raise NotModelled('address %r' % (a,))

    def typ(t):
        if type(t) is di.DebugBaseType:
            _need(isinstance(t.name, str) and _isint(t.size) and _isint(t.encoding), 'base type')
            return ('base', t.name, t.size, t.encoding)
        if type(t) is di.DebugStructType:
            for f in t.fields:
                _need(isinstance(f.name, str) and _isint(f.offset), 'field')
            return ('struct', [(f.name, _pos(types, f.typ, extra), f.offset) for f in t.fields])
        if type(t) is di.DebugArrayType:
            _need(_isint(t.size), 'array size')
            return ('array', _pos(types, t.element_type, extra), t.size)
        if type(t) is di.DebugPointerType:
            return ('pointer', _pos(types, t.pointed_type, extra))
        raise NotModelled('type %r' % (t,))

    def var(v):
        _need(isinstance(v.name, str), 'variable name')
        return (v.name, _pos(types, v.typ, extra), loc(v.loc), addr(v.address))

    def fun(f):
        _need(isinstance(f.name, str), 'function name')
        for a in f.arguments:
            _need(isinstance(a.name, str), 'parameter name')
        return (f.name, loc(f.loc), _pos(types, f.return_type, extra),
                [(a.name, _pos(types, a.typ, extra)) for a in f.arguments],
                addr(f.begin), addr(f.end), [var(v) for v in f.variables])
    # order of _pos calls for unregistered types follows DictSerializer.serialize: types, variables, functions
    tl = [typ(t) for t in types]
    vl = [var(v) for v in dbi.variables]
    fl = [fun(f) for f in dbi.functions]
    ll = [(loc(l.loc), addr(l.address)) for l in dbi.locations]
    return (ll, fl, tl, vl)


def dbg_term(view):
    ll, fl, tl, vl = view

    def loc(l):
        return '(mkLoc %s %s %s %s)' % (opt(coq_str, l[0]), coq_z(l[1]), coq_z(l[2]), coq_z(l[3]))

    def addr(a):
        if a[0] == 'fixed':
            return '(AFixed %s)' % coq_z(a[1])
        if a[0] == 'fprel':
            return '(AFprel %s %s)' % (coq_z(a[1]), coq_z(a[2]))
        return 'AUnknown'

    def typ(t):
        if t[0] == 'base':
            return 'TBase %s %s %s' % (coq_str(t[1]), coq_z(t[2]), coq_z(t[3]))
        if t[0] == 'struct':
            return 'TStruct [%s]' % '; '.join('mkField %s %d%%nat %s' % (coq_str(n), p, coq_z(o)) for n, p, o in t[1])
        if t[0] == 'array':
            return 'TArray %d%%nat %s' % (t[1], coq_z(t[2]))
        return 'TPointer %d%%nat' % t[1]

    def var(v):
        return 'mkVar %s %d%%nat %s %s' % (coq_str(v[0]), v[1], loc(v[2]), addr(v[3]))

    def fun(f):
        return 'mkFunc %s %s %d%%nat [%s] %s %s [%s]' % (
            coq_str(f[0]), loc(f[1]), f[2], '; '.join('mkParam %s %d%%nat' % (coq_str(n), p) for n, p in f[3]),
            addr(f[4]), addr(f[5]), '; '.join(var(v) for v in f[6]))
    return '(mkDbg [%s] [%s] [%s] [%s])' % ('; '.join('mkDLoc %s %s' % (loc(l), addr(a)) for l, a in ll),
                                            '; '.join(fun(f) for f in fl), '; '.join(typ(t) for t in tl),
                                            '; '.join(var(v) for v in vl))


def impl_dbg_deserialize(j):
    from ppci.binutils import debuginfo as di
    try:
        d = di.deserialize(copy.deepcopy(j))
    except Exception:   # noqa: BLE001
        return Internal
    try:
        return OkV(dbg_view(d))
    except NotModelled:
        return None


def loader_variant():
    """which loader does the source implement: 'v1' (KeyError on the pointer-first cycle) or 'v2'"""
    from ppci.binutils import debuginfo as di
    st = di.DebugStructType()
    pt = di.DebugPointerType(st)
    st.add_field('next', pt, 0)
    i = di.DebugInfo()
    i.add(pt)
    i.add(st)
    try:
        di.deserialize(di.serialize(i))
        return 'v2'
    except KeyError:
        return 'v1'


def gen_debuginfo(ctx):
    """random DebugInfo: type graph with cycles in a random registration order, every record kind"""
    from ppci.binutils import debuginfo as di
    from ppci.common import SourceLocation
    from ppci.arch.stack import StackLocation
    rng = ctx.rng
    n = rng.randrange(0, 7)
    kinds = [rng.choice(['base', 'base', 'struct', 'pointer', 'array']) for _ in range(n)]
    if n and 'base' not in kinds and rng.random() < 0.7:
        kinds[rng.randrange(n)] = 'base'
    objs = []
    for k in kinds:
        if k == 'base':
            objs.append(di.DebugBaseType(rng.choice(['int', 'char', 'void*', 'long']), rng.choice([0, 1, 4, 8]),
                                         rng.choice([1, 1, 4, 8])))
        elif k == 'struct':
            objs.append(di.DebugStructType())
        elif k == 'pointer':
            objs.append(di.DebugPointerType(di.DebugType()))
        else:
            objs.append(di.DebugArrayType(di.DebugType(), rng.randrange(0, 9)))
    spare = di.DebugBaseType('unregistered', 2, 1)

    def pick():
        if objs and rng.random() < 0.96:
            return rng.choice(objs)
        return spare
    for o in objs:
        if isinstance(o, di.DebugStructType):
            for i in range(rng.randrange(0, 4)):
                o.add_field(rng.choice(['x', 'next', 'v', 'c']), pick() if objs else spare, 4 * i)
        elif isinstance(o, di.DebugPointerType):
            o.pointed_type = pick()
        elif isinstance(o, di.DebugArrayType):
            o.element_type = pick()
    dbi = di.DebugInfo()
    order = list(objs)
    rng.shuffle(order)
    for o in order:
        dbi.add(o)

    def loc():
        return SourceLocation(rng.choice(['f.c', '', None, 'dir/m.c3']), rng.randrange(1, 99), rng.randrange(1, 80),
                              rng.randrange(0, 9))

    def addr():
        k = rng.randrange(3)
        if k == 0:
            return di.DebugAddress(rng.choice([0, 1, 7, 1 << 33]))
        if k == 1:
            return di.FpOffsetAddress(StackLocation(rng.choice([-8, -4, 0, 2, 16]), rng.choice([1, 2, 4, 8])))
        return di.UnknownAddress()

    def var():
        return di.DebugVariable(rng.choice(['g', 'x', 'tmp']), pick() if objs else spare, loc(), address=addr())
    if objs or rng.random() < 0.3:
        for _ in range(rng.randrange(0, 3)):
            dbi.add(var())
        for _ in range(rng.randrange(0, 3)):
            dbi.add(di.DebugFunction(rng.choice(['f', 'main', 'add']), loc(), pick() if objs else spare,
                                     [di.DebugParameter(rng.choice(['a', 'b']), pick() if objs else spare)
                                      for _ in range(rng.randrange(0, 3))],
                                     begin=addr(), end=addr(), variables=[var() for _ in range(rng.randrange(0, 3))]))
    for _ in range(rng.randrange(0, 3)):
        dbi.add(di.DebugLocation(loc(), address=addr()))
    return dbi


def dbg_mutations(ctx, j):
    """well-typed mutations of a serialized DebugInfo"""
    rng = ctx.rng
    out = []

    def cp():
        return copy.deepcopy(j)
    for k in list(j):
        m = cp(); del m[k]; out.append(('del ' + k, m))
    for lst in ('locations', 'types', 'variables', 'functions'):
        if j[lst]:
            i = rng.randrange(len(j[lst]))
            for k in list(j[lst][i]):
                m = cp(); del m[lst][i][k]; out.append(('del %s[%d].%s' % (lst, i, k), m))
    ids = [t['id'] for t in j['types']]
    if len(set(ids)) == len(ids):
        m = cp(); m['types'].reverse(); out.append(('types reversed', m))
        m = cp(); rng.shuffle(m['types']); out.append(('types shuffled', m))
    if j['types']:
        i = rng.randrange(len(j['types']))
        m = cp(); m['types'][i]['kind'] = 'typedef'; out.append(('unknown kind', m))
        m = cp(); m['types'][i]['id'] = 9999; out.append(('renumbered entry', m))
        for t in j['types']:
            for k in ('pointed_type', 'element_type'):
                if k in t:
                    m = cp(); m['types'][j['types'].index(t)][k] = 4242; out.append(('dangling ' + k, m))

    def addrs(m):
        for l in m['locations']:
            yield l['address']
        for v in m['variables']:
            yield v['address']
        for f in m['functions']:
            yield f['begin']
            yield f['end']
            for v in f['variables']:
                yield v['address']
    m = cp()
    for a in addrs(m):
        a.pop('size', None)
    out.append(('fprel without size', m))
    m = cp()
    for a in addrs(m):
        a['kind'] = rng.choice(['fixed', 'fprel', 'unknown', 'temporal'])
    out.append(('address kinds changed', m))
    m = cp()
    for a in addrs(m):
        if 'symbol_id' in a:
            a['symbol_id'] = 'sym'
    out.append(('symbol_id text', m))
    if j['variables']:
        m = cp(); m['variables'][0]['type'] = 777; out.append(('variable dangling type', m))
    if j['functions']:
        m = cp(); m['functions'][0]['return_type'] = 777; out.append(('function dangling type', m))
        if j['functions'][0]['arguments']:
            m = cp(); del m['functions'][0]['arguments'][0]['type']; out.append(('del argument type', m))
    m = cp()
    for t in m['types']:
        t.pop('encoding', None)
    out.append(('base without encoding', m))
    return out


# ------------------------------------------------------------------ mutations for (c)
def mutations(ctx, d):
    """well-typed mutations of a serialized object; yields (label, dict)"""
    rng = ctx.rng
    out = []

    def cp():
        return copy.deepcopy(d)
    for k in list(d):
        m = cp()
        del m[k]
        out.append(('del ' + k, m))
    for lst in ('sections', 'symbols', 'relocations', 'images'):
        if d[lst]:
            i = rng.randrange(len(d[lst]))
            for k in list(d[lst][i]):
                m = cp()
                del m[lst][i][k]
                out.append(('del %s[%d].%s' % (lst, i, k), m))
    m = cp(); m['arch'] = rng.choice(['nope', 'arm:zzz', '', 'thumb:arm', 'ARM']); out.append(('bad arch', m))
    m = cp(); m['entry_symbol_id'] = None; out.append(('entry null', m))
    if d['symbols']:
        i = rng.randrange(len(d['symbols']))
        m = cp(); m['symbols'].append(copy.deepcopy(m['symbols'][i])); out.append(('dup symbol', m))
        m = cp(); s = copy.deepcopy(m['symbols'][i]); s['id'] = 777; s['binding'] = 'global'
        m['symbols'].append(s); m['symbols'].append(copy.deepcopy(s)); m['symbols'][-1]['id'] = 778
        out.append(('dup global name', m))
        m = cp(); s = copy.deepcopy(m['symbols'][i]); s['id'] = 779; s['binding'] = 'local'; m['symbols'].append(s)
        out.append(('dup local name', m))
        m = cp(); m['symbols'][i]['value'] = None; out.append(('value null', m))
        m = cp(); m['symbols'][i]['value'] = rng.choice(['12', '-7', '$1F', '0b101', '%11', '0x', 'zz', '0xg', '-0x',
                                                         '+5', '0xAbC', '']); m['symbols'][i].setdefault('section', None)
        out.append(('value text', m))
    if d['relocations']:
        i = rng.randrange(len(d['relocations']))
        m = cp(); m['relocations'][i]['section'] = 'nosuchsection'; out.append(('reloc unknown section', m))
        m = cp(); m['relocations'][i]['addend'] = rng.choice(['-0x0', '0x00ff', '-12', '1e3', '0b2']); out.append(('addend text', m))
    if d['images']:
        i = rng.randrange(len(d['images']))
        m = cp(); m['images'][i]['sections'].append('nosuchsection'); out.append(('image unknown section', m))
    if d['sections']:
        i = rng.randrange(len(d['sections']))
        m = cp(); m['sections'].append(copy.deepcopy(m['sections'][i])); out.append(('dup section', m))
        for bad in ['abc', '0g', 'ABCDEF', ['00ff', 'A0'], ['00', 5], 5, None, [], '']:
            m = cp(); m['sections'][i]['data'] = bad; out.append(('data %r' % (bad,), m))
    return out


def impl_deserialize(d):
    from ppci.binutils.objectfile import deserialize
    from ppci.common import CompilerError
    try:
        return OkV(obj_fields(deserialize(copy.deepcopy(d))))
    except CompilerError:
        return Diag
    except Exception:   # noqa: BLE001
        return Internal


# ------------------------------------------------------------------ known-finding witnesses
def known_witnesses(ctx):
    """re-execute the witnesses of recorded findings on the implementation; report while they fail"""
    for label, o, how in debug_objects(ctx):
        if label != 'debug:pointer-first-cycle':
            continue
        try:
            o2 = reload_obj(o)
            bad = obj_diff(o, o2)
            actual = repr(bad[:2]) if bad else None
        except Exception as ex:   # noqa: BLE001
            actual = 'exception %r' % (ex,)
        if actual:
            ctx.violation({'fn': 'debuginfo.deserialize', 'args': ['pointer-first-cycle'],
                           'what': how, 'expected': 'reloaded debug info equal to the original', 'actual': actual,
                           'how_to_replay': 'PYTHONPATH=/repo python -c "from ppci.binutils import debuginfo as d;'
                                            's=d.DebugStructType();p=d.DebugPointerType(s);s.add_field(\'n\',p,0);'
                                            'i=d.DebugInfo();i.add(p);i.add(s);d.deserialize(d.serialize(i))"'})


# ------------------------------------------------------------------ oracle / search
def oracle(ctx, arch_ids, deep, comp_dbg=None):
    from ppci.binutils.archive import Archive
    from ppci.api import link
    n = 0
    rng = ctx.rng
    objs = []
    for k in range(1500 if deep else 250):
        o = gen_object(ctx, arch_ids, ascii_only=(k % 3 != 0))
        objs.append(o)
        n += 1
        check_roundtrip(ctx, 'generated object', o,
                        'tools/props/c14.py gen_object, seed %d, object #%d: %s' % (ctx.seed, k, json.dumps(o.serialize())[:1500]))
    # long data: every length 0..200 and a few big ones (chunk boundaries)
    from ppci.api import get_arch
    from ppci.binutils.objectfile import ObjectFile
    for ln in list(range(0, 200 if deep else 100)) + [299, 300, 301, 4096, 65537]:
        o = ObjectFile(get_arch('arm'))
        o.create_section('code').add_data(bytes((i * 7 + ln) % 256 for i in range(ln)))
        n += 1
        check_roundtrip(ctx, 'section of %d bytes' % ln, o, 'ObjectFile(arm) with one section of %d bytes ((i*7+%d)%%256)' % (ln, ln))
    # compiler output with and without debug info
    comp_dbg = comp_dbg or compiled_objects(ctx, True)
    comp = comp_dbg + compiled_objects(ctx, False)
    for lbl, o in comp:
        n += 1
        check_roundtrip(ctx, 'compiler output ' + lbl, o, 'ppci.api %s (debug=True) of the snippet in tools/props/c14.py' % lbl)
    # hand-built debug info (the pointer-first cycle is a recorded finding, handled by known_witnesses)
    for lbl, o, how in debug_objects(ctx):
        if lbl == 'debug:pointer-first-cycle':
            continue
        n += 1
        check_roundtrip(ctx, lbl, o, how)
    # archives
    for k in range(40 if deep else 10):
        group = [rng.choice(objs) for _ in range(rng.randrange(0, 4))] + [o for _, o in rng.sample(comp, min(2, len(comp)))]
        f = io.StringIO()
        Archive(group).save(f)
        n += 1
        try:
            txt = f.getvalue()
            if json.loads(txt) != {'objects': [o.serialize() for o in group]}:
                ctx.violation({'fn': 'Archive.save', 'what': 'archive text is not the list of serialized objects', 'args': [k]})
            ar = Archive.load(io.StringIO(txt))
            back = list(ar)
            diffs = [('count', len(group), len(back))] if len(back) != len(group) else \
                [d for a, b in zip(group, back) for d in report_recorded(ctx, obj_diff(a, b), 'archive member', 'archive group #%d' % k)]
        except Exception as ex:   # noqa: BLE001
            diffs = [('exception', '', repr(ex))]
        if diffs:
            ctx.violation({'fn': 'Archive.save/load', 'key': 'archive:' + field_class(str(diffs[0][0])),
                           'field': field_class(str(diffs[0][0])), 'args': [k],
                           'expected': str(diffs[0][1]), 'actual': str(diffs[0][2]),
                           'how_to_replay': 'Archive of generated objects, seed %d, group #%d' % (ctx.seed, k)})
    # linking reloaded objects gives the identical result
    pairs = {}
    for lbl, o in comp_dbg:
        if lbl.startswith(('c3c:', 'asm:')):
            pairs.setdefault(lbl.split(':')[1], []).append(o)
    for a, group in pairs.items():
        try:
            l1 = link(group, partial_link=True, debug=True)
        except Exception as ex:   # noqa: BLE001
            ctx.log('link of originals failed for', a, repr(ex)[:200])
            continue
        n += 1
        try:
            l2 = link([reload_obj(o) for o in group], partial_link=True, debug=True)
            d = report_recorded(ctx, obj_diff(l1, l2), 'link(reloaded) vs link(original)', 'link for %s' % a)
        except Exception as ex:   # noqa: BLE001
            d = [('exception', '', repr(ex))]
        if d:
            ctx.violation({'fn': 'link(reloaded)', 'key': 'link:' + field_class(str(d[0][0])),
                           'field': field_class(str(d[0][0])), 'args': [a], 'expected': str(d[0][1]),
                           'actual': str(d[0][2]),
                           'how_to_replay': 'link of c3c+asm snippet objects for %s, original vs save/load copies' % a})
    return n


def search(ctx):
    from vlib import ensure_repo_on_path
    ensure_repo_on_path()
    ids = arch_table()
    n = oracle(ctx, ids, True)
    known_witnesses(ctx)
    ctx.cov['stages']['oracle_roundtrips'] = n
    ctx.cov['evaluations'] += n


# ------------------------------------------------------------------ debug-info correspondence
def impl_deserialize_full(d):
    from ppci.binutils.objectfile import deserialize
    from ppci.common import CompilerError
    try:
        o = deserialize(copy.deepcopy(d))
    except CompilerError:
        return Diag
    except Exception:   # noqa: BLE001
        return Internal
    return OkV((obj_fields(o), dbg_view(o.debug_info) if o.debug_info is not None else None))


def debug_cases(ctx, ids, gen, real):
    """model of debuginfo.serialize/deserialize and of objects/archives WITH debug info vs the implementation"""
    from ppci.binutils import debuginfo as di
    rng = ctx.rng
    variant = loader_variant()
    des = 'dbg_deserialize' if variant == 'v2' else 'dbg_deserialize_v1'
    desf = 'deserialize_full' if variant == 'v2' else 'deserialize_full_v1'
    arl = 'archive_load_full' if variant == 'v2' else 'archive_load_full_v1'
    imports = ['Lib.Json', 'Model.ObjectFile', 'Model.DebugInfo', 'Model.ObjectFileFull']
    cases, recs = [], []
    stat = {'loader_variant': variant, 'hand_built': 0, 'compiler': 0, 'random': 0, 'not_modelled': 0,
            'load_ok': 0, 'load_keyerror': 0, 'with_cycle_or_forward_ids': 0, 'mutated': {'ok': 0, 'internal': 0}}
    sources = [(lbl, o.debug_info, 'hand_built') for lbl, o, _ in debug_objects(ctx)]
    # an unregistered type (loading fails) and default begin/end (serializer raises: not modelled, skipped)
    sources += [(lbl, o.debug_info, 'compiler') for lbl, o in real if o.debug_info is not None]
    sources += [('random#%d' % k, gen_debuginfo(ctx), 'random') for k in range(140 if ctx.quick() else 900)]
    seen = set()
    mut_src = []
    nontriv = 0
    for lbl, dbi, kind in sources:
        try:
            view = dbg_view(dbi)
            j = di.serialize(dbi)
        except (NotModelled, NotImplementedError):
            stat['not_modelled'] += 1
            continue
        key = json.dumps(j, sort_keys=True)
        if key in seen:
            continue
        seen.add(key)
        out = impl_dbg_deserialize(j)
        if out is None:
            stat['not_modelled'] += 1
            continue
        stat[kind] += 1
        stat['load_ok' if isinstance(out, OkV) else 'load_keyerror'] += 1
        if [t['id'] for t in j['types']] != list(range(len(j['types']))):
            stat['with_cycle_or_forward_ids'] += 1
        if j['types'] and (j['variables'] or j['functions']):
            nontriv += 1
        cases.append(('let d := %s in (dbg_serialize d, %s (dbg_serialize d))' % (dbg_term(view), des),
                      (json_val(j), out)))
        recs.append(('debuginfo serialize / deserialize', lbl))
        if kind != 'compiler' and len(mut_src) < (5 if ctx.quick() else 40) and j['types'] and j['functions'] \
                and j['variables'] and j['locations']:
            mut_src.append((lbl, j))
    for lbl, j in mut_src:
        for ml, m in dbg_mutations(ctx, j):
            out = impl_dbg_deserialize(m)
            if out is None:
                continue
            stat['mutated']['ok' if isinstance(out, OkV) else 'internal'] += 1
            cases.append(('%s (%s)' % (des, json_term(m)), out))
            recs.append(('debuginfo.deserialize mutated: ' + ml, lbl))
    # whole objects with debug info, both directions
    full = []
    for lbl, o in real:
        if o.debug_info is None or not typed(o) or not lbl.startswith(('c3c:', 'cc:', 'link:')):
            continue
        try:
            t = '(mkFull %s (Some %s))' % (obj_term(o), dbg_term(dbg_view(o.debug_info)))
        except NotModelled:
            continue
        if ctx.quick() and len(full) >= 6 and not lbl.startswith('link:layout'):
            continue
        d = o.serialize()
        full.append((t, d))
        cases.append(('let x := %s in (serialize_full x, %s (serialize_full x))' % (t, desf),
                      (json_val(d), impl_deserialize_full(d))))
        recs.append(('object with debug info', lbl))
    stat['objects_with_debug'] = len(full)
    # archives whose members carry debug info
    plain = [('(mkFull %s None)' % obj_term(o), strip_debug(o)) for _, o in gen[:6] if typed(o)]
    for k in range(3):
        if not full:
            break
        group = rng.sample(full, min(2, len(full))) + rng.sample(plain, min(1, len(plain)))
        ds = [d for _, d in group]
        cases.append(('archive_save_full [%s]' % '; '.join(t for t, _ in group), json_val({'objects': ds})))
        recs.append(('archive_save_full', k))
        outs = [impl_deserialize_full(d) for d in ds]
        if all(isinstance(x, OkV) for x in outs):
            cases.append(('%s (archive_save_full [%s])' % (arl, '; '.join(t for t, _ in group)),
                          OkV([x.v for x in outs])))
            recs.append(('archive_load_full', k))
    ctx.cov['stages']['debug_distribution'] = stat
    ctx.cov['distinct_nontrivial'] += nontriv
    bad = ctx.run_cases('debug', imports, cases, shard=100)
    report_bad(ctx, 'debug info', bad, recs)


def strip_debug(o):
    d = o.serialize()
    d.pop('debug', None)
    return d


# ------------------------------------------------------------------ main
def run(ctx):
    from ppci.common import make_num
    from ppci.utils.binary_txt import bin2asc, asc2bin
    import time
    rng = ctx.rng
    tm = ctx.cov['stages'].setdefault('timing_s', {})
    t0 = time.time()

    def lap(name):
        nonlocal t0
        tm[name] = round(time.time() - t0, 1)
        t0 = time.time()
    ids = regen(ctx)
    real = None
    ok, _ = ctx.build(['Proofs/C14_objfile.vo', 'Proofs/C14_full.vo', 'Proofs/C14_classes.vo'])
    if ok:
        ctx.check_props('Props/C14.v')
    debug_class_audit(ctx)
    lap('build+props')

    if ctx.build(['Model/ObjectFileFull.vo', 'Lib/Val.vo'])[0]:
        imports = ['Lib.Json', 'Model.ObjectFile']
        # ---- (d) small functions
        cases, recs = [], []
        pool = boundary_pool(70) + [rng.randrange(-(1 << 80), 1 << 80) for _ in range(20)] + list(range(-20, 40))
        if not ctx.quick():
            pool += list(range(-300, 1100)) + [rng.randrange(-(1 << 200), 1 << 200) for _ in range(200)]
        for z in sorted(set(pool)):
            cases.append(('(py_hex %s, make_num (py_hex %s))' % (wrapz(z), wrapz(z)),
                          (hex(z), call_impl(make_num, [hex(z)]))))
            recs.append(('hex / make_num(hex)', z))
        texts = ['0x1F', '0xabc', '0xABC', '-0x10', '-0x0', '$ff', '$', '0b101', '0b', '0b2', '%11', '%', '%12', '12',
                 '-12', '+12', '0', '007', '', '-', '0x', '-0x', '0xg', 'zz', '1e3', '12a', 'x', '0X1F', '0B1', '-$1',
                 '9' * 30, '0x' + 'f' * 40, '-0x' + '8' + '0' * 20, 'a', '$-1' if False else '$g', '0xx1', '--1']
        for t in texts:
            cases.append(('make_num %s' % coq_str(t), call_impl(make_num, [t], diag=())))
            recs.append(('make_num', t))
        lens = [0, 1, 2, 15, 29, 30, 31, 32, 59, 60, 61, 62, 70, 89, 90, 91, 121] if ctx.quick() else \
            list(range(0, 130)) + [299, 300, 301]
        for ln in lens:
            bs = bytes(rng.randrange(256) for _ in range(ln))
            cases.append(('let b := %s in (bin2asc b, asc2bin (bin2asc b))' % to_term(bs),
                          (json_val(bin2asc(bs)), OkV(bytes(asc2bin(bin2asc(bs)))))))
            recs.append(('bin2asc / asc2bin', ln))
        for bad in ['abc', '0g', 'ABCDEF', 'aBcD', '', ['00ff', 'A0'], ['00', 5], ['0'], [], 5, None, {'a': 1}, [['00']]]:
            r = call_impl(asc2bin, [bad], diag=())
            if isinstance(r, OkV):
                r = OkV(bytes(r.v))
            cases.append(('asc2bin (%s)' % json_term(bad), r))
            recs.append(('asc2bin', repr(bad)))
        bad = ctx.run_cases('small', imports, cases)
        report_bad(ctx, 'small functions', bad, recs)
        lap('small cases')
        ctx.cov['stages']['small_function_cases'] = len(cases)

        # ---- (a) serialize, (c) deserialize on objects
        real = [(lbl, o) for lbl, o in compiled_objects(ctx, True)]
        gen = [('gen#%d' % k, gen_object(ctx, ids)) for k in range(110 if ctx.quick() else 600)]
        cases, recs = [], []
        seen = set()
        nontriv = 0
        dist = {'generated': len(gen), 'compiled': len(real), 'wf': 0, 'with_images': 0, 'with_entry': 0,
                'undefined_symbols': 0, 'negative_addends': 0, 'chunked_sections': 0}
        mut_src = []
        for lbl, o in gen + real:
            d = o.serialize()
            d.pop('debug', None)
            key = json.dumps(d, sort_keys=True)
            if key in seen:
                continue
            seen.add(key)
            if any(len(s.data) > 0 for s in o.sections) and o.symbols:
                nontriv += 1
            dist['wf'] += model_wf(o)
            dist['with_images'] += bool(o.images)
            dist['with_entry'] += o.entry_symbol_id is not None
            dist['undefined_symbols'] += any(y.value is None for y in o.symbols)
            dist['negative_addends'] += any(r.addend < 0 for r in o.relocations)
            dist['chunked_sections'] += any(len(s.data) > 30 for s in o.sections)
            if not typed(o):
                dist['ill_typed_skipped'] = dist.get('ill_typed_skipped', 0) + 1
                continue
            # one case = (model serialize o, model deserialize of that JSON) against
            # (real serialize output, real deserialize of the real output)
            cases.append(('let o := %s in (serialize o, deserialize (serialize o))' % obj_term(o),
                          (json_val(d), impl_deserialize(d))))
            recs.append(('serialize / deserialize', lbl))
        for k in range(9 if ctx.quick() else 40):
            o = gen_object(ctx, ids, small=True)
            if o.sections and o.symbols:
                mut_src.append(('small#%d' % k, o.serialize()))
        outcomes = {'ok': 0, 'diag': 0, 'internal': 0}
        for lbl, d in mut_src:
            for ml, m in mutations(ctx, d):
                r = impl_deserialize(m)
                outcomes['ok' if isinstance(r, OkV) else ('diag' if r is Diag else 'internal')] += 1
                cases.append(('deserialize (%s)' % json_term(m), r))
                recs.append(('deserialize mutated: ' + ml, lbl))
        # archives
        for k in range(4):
            group = [o for _, o in rng.sample(gen, 2)] + [o for _, o in rng.sample([x for x in real if typed(x[1])], 1)]
            ds = []
            for o in group:
                d = o.serialize(); d.pop('debug', None); ds.append(d)
            cases.append(('archive_save [%s]' % '; '.join(obj_term(o) for o in group), json_val({'objects': ds})))
            recs.append(('archive_save', k))
            cases.append(('archive_load (%s)' % json_term({'objects': ds}), OkV([impl_deserialize(d).v for d in ds])))
            recs.append(('archive_load', k))
        dist['mutated_outcomes'] = outcomes
        ctx.cov['stages']['object_distribution'] = dist
        ctx.cov['distinct_nontrivial'] += nontriv
        for lbl, o in (gen[:3] + real[:2]):
            ctx.note_sample({'object': lbl, 'serialized': json.dumps(o.serialize())[:300]})
        lap('object generation')
        bad = ctx.run_cases('objects', imports, cases, shard=100)
        report_bad(ctx, 'objects', bad, recs)
        lap('object cases')
        debug_cases(ctx, ids, gen, real)
        lap('debug cases')

    # ---- oracle: real round trips, per field; deep when something failed or tier is thorough
    n = oracle(ctx, ids, (not ctx.quick()) or bool(ctx.failed_stages), real)
    known_witnesses(ctx)
    lap('oracle')
    ctx.cov['stages']['oracle_roundtrips'] = n
    ctx.cov['evaluations'] += n
    ctx.cov['exhaustive'] = False


def wrapz(z):
    return coq_z(z)


def report_bad(ctx, what, bad, recs):
    if bad:
        for i in bad[:5]:
            ctx.log('model/implementation disagree (%s):' % what, recs[i])
        ctx.failed_stages.append(('correspondence', 'Model.ObjectFile disagrees with ppci on %d %s cases, first: %r'
                                  % (len(bad), what, recs[bad[0]])))


MANIFEST = {
    'text': 'proof: unbounded Coq theorems that hex text of any integer and of any byte list (30-byte chunking included) '
            'reads back; that deserialize(serialize o) = Ok o with full record equality (sections, addresses, alignment, '
            'data, symbols incl. undefined/absolute, relocations with negative addends, images, arch, entry_symbol_id) for '
            'every well-formed object, also WITH debug information (locations, functions with begin/end/parameters/locals, '
            'stack slots with size, the type graph base/struct/array/pointer with any cycles and registration order, '
            'variables), and likewise for archives; the known loader defect (pointer type registered before its recursive '
            'struct) is proved as a refutation on the as-is loader model and as a positive theorem on the repaired one; the '
            'class list of debuginfo.py is checked against the model constructors. Hand models of objectfile.py, archive.py, '
            'binary_txt.py, make_num, debuginfo.py compared with the implementation in both directions on every run.',
    'note': 'trusted: Coq kernel, the hand models (tie H, cross-checked per run incl. error outcomes and random recursive '
            'type graphs), the exported arch-id and debug-class tables, the JSON text layer json.dump/json.load, CPython '
            'hex/int/hexlify; debug type objects are identified with their position in DebugInfo.types. wf_obj excludes '
            'duplicate section names and undefined symbols that carry a section; wf_dbg excludes unregistered types. No axioms.',
    'technique': 'Coq proof over hand models + differential correspondence (both directions) + per-field round-trip oracle',
}
