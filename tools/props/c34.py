"""C34 — build runner executes dependencies once, in order, and detects loops exactly (DESIGN §4 C34).

tie H: coq/Model/Tasks.v mirrors ppci/build/tasks.py (Project.dfs / target_order / check_target,
TaskRunner.run after fixes/C34-dfs-order.diff; module Orig = the code before the fix: visited-set
dfs, dependencies closure, list.sort() with Target.__gt__).  Props/C34.v: unbounded theorems about
the fixed model + refutations of the original model.  This module
 * drives the real Project/TaskRunner (recording task registered in task_map) in a worker
   subprocess with a fixed PYTHONHASHSEED over exhaustive families of small dependency graphs,
 * compares each execution history / error with the model (Coq, vm_compute) — the model receives
   the dependency lists in the iteration order observed on the implementation's sets,
 * checks every history against an independent Python reading of Spec/BuildSpec.v (search oracle),
 * replays the two Coq counterexamples (diamond, partial-order sort) on the implementation.
"""
import itertools
import json
import os
import subprocess
import sys

LEVEL = 'proof'
RULE = ('cases = (dependency graph, request list, default target): all labelled digraphs with self-loops on 1..3 targets x all '
        'non-empty request subsets; all digraphs with self-loops on 4 targets up to isomorphism x all 15 request subsets '
        '(thorough; quick: the 218 loop-free classes x 15 plus a seeded sample of the classes with self-loops); graphs with an '
        'undefined dependency; permuted/repeated request lists; empty request with/without default; acyclic graphs on 5 targets '
        '(all 1024 edge subsets of a linear order, renamed by a seeded permutation; quick: 120 of them) x 31 request subsets; '
        'thorough adds the 9608 loop-free classes on 5 targets x 31 request subsets. Oracle-only sweep: all labelled loop-free digraphs on 4 targets '
        '(quick), all 65536 labelled digraphs on 4 targets (thorough). distinct non-trivial = distinct (graph, request) whose '
        'reachable part has at least one dependency edge. Runs with raising tasks (Model.TasksExec): all 25 labelled acyclic graphs on 3 '
        'targets x 7 request subsets x (no raising task | exactly one raising task: 3 targets x task index 0/1 of 2; quick: index 1 only), plus seeded graphs '
        'on 3..5 targets (mostly acyclic, some cyclic/undefined) with 0..3 tasks per target each raising with p = 0.18, random request '
        'lists/defaults (quick 300, thorough 3000); these count as non-trivial when a task raised and a requested target has a dependency')
EXPLANATION = ('Unbounded Coq theorems (every graph, every dependency/request order, every default) about the hand model of the '
               'fixed tasks.py: history has no repetition, is exactly the reachable set, respects every dependency edge; error iff '
               'reachable cycle or undefined target; error kind is truthful; termination within fuel = #targets + 1. Two theorems '
               'refute the same requirements on the model of the original code (diamond reported as loop; sort() with a partial '
               'order leaves a target before its dependency). Correspondence and oracle sweep tie the model to the implementation. '
               'Model.TasksExec adds the "Run tasks" loop of TaskRunner.run with tasks that may raise (task = does run() raise; event = '
               'task i of target n entered): the failed target is reachable and has a raising task and no transitive dependant of it '
               'starts; every transitive dependency of a started target has run all its tasks without raising; a run without failure '
               'has run every task of exactly the reachable targets. Not modelled: expand_macros on task arguments, get_task lookup failures.')
TRUSTED = ['hand model coq/Model/Tasks.v == ppci/build/tasks.py (checked per run on the exhaustive small-graph families, not proved)',
           'target names abstracted to integers: the code uses only ==, hash and set/dict/list membership on names',
           'a Python set is modelled as a list in its iteration order; the theorems quantify over all orders',
           'executing a target = running its tasks in sequence; Model.Tasks: tasks do not raise; Model.TasksExec: a task either '
           'returns or raises (the exception leaves TaskRunner.run); tasks never change the project',
           'hand model coq/Model/TasksExec.v == the task loop of TaskRunner.run (checked per run against the real TaskRunner with '
           'recording tasks that raise TaskError on demand: event history and failed target)',
           'Orig model only: CPython 3.12 list.sort() for n < 64 = count_run (reverse if strictly descending) + binary insertion '
           'using only x < y; Target defines only __gt__, so x < y is evaluated as y.__gt__(x) (reflected operand); '
           'project.dependencies() is pure, so tabulating it per sort is equivalent',
           'Spec reading: cycle = non-empty dependency path from a reachable target to itself; an undefined reachable target must '
           'also be reported as an error (TaskError "not found"), never as a loop unless a cycle exists']
ASSUMPTIONS = ['Project built through add_target (one Target per name), dependencies are str names',
               'request list non-empty or project.default set by the recipe loader (hand-built projects have no .default attribute)',
               'fewer than sys.getrecursionlimit() targets on one dependency path']

NAMES = ['t0', 't1', 't2', 't3', 't4', 'zz']          # 'zz' is never defined as a target
NUM = {n: i for i, n in enumerate(NAMES)}
HERE = os.path.dirname(os.path.abspath(__file__))


# =====================================================================================
#  worker side: runs inside a subprocess with PYTHONPATH=<repo>, PYTHONHASHSEED fixed
# =====================================================================================
def _worker_setup():
    from ppci.build import tasks as T
    hist = []

    @T.register_task
    class C34RecordTask(T.Task):                       # registered as "c34record"
        def run(self):
            hist.append(self.arguments['name'])

    events = []

    @T.register_task
    class C34FailTask(T.Task):                         # registered as "c34fail"
        def run(self):
            events.append([self.arguments['name'], int(self.arguments['idx'])])
            if self.arguments['fail'] == '1':
                raise T.TaskError('c34fail:%s:%s' % (self.arguments['name'], self.arguments['idx']))

    class RecProject(T.Project):
        """records get_target calls made outside dfs/dependencies/target_order (= the final lookups)"""
        def __init__(self, name):
            super().__init__(name)
            self.depth = 0
            self.top = []

        def get_target(self, n):
            if self.depth == 0:
                self.top.append(n)
            return super().get_target(n)

    def nest(name):
        base = getattr(T.Project, name, None)
        if base is None:
            return

        def wrapped(self, *a, **k):
            self.depth += 1
            try:
                return base(self, *a, **k)
            finally:
                self.depth -= 1
        setattr(RecProject, name, wrapped)
    for nm in ('dfs', 'dependencies', 'target_order', 'check_target'):
        nest(nm)
    RecProject.c34_events = events
    return T, hist, RecProject


def impl_run(env, graph, req, dflt, has_default=True):
    """graph: list of (name, [deps]); returns (outcome, dep_orders, top_lookups)"""
    T, hist, RecProject = env
    p = RecProject('c34')
    if has_default:
        p.default = dflt
    tg = {}
    for n, ds in graph:
        t = T.Target(n, p)
        for d in ds:
            t.add_dependency(d)
        t.add_task(('c34record', {'name': n}))
        p.add_target(t)
        tg[n] = t
    orders = [[n, list(tg[n].dependencies)] for n, _ in graph]
    del hist[:]
    try:
        T.TaskRunner().run(p, list(req))
        out = ['ok', list(hist)]
    except T.TaskError as ex:
        msg = str(getattr(ex, 'msg', ex))
        if 'loop' in msg.lower():
            out = ['loop', msg, list(hist)]
        elif 'not found' in msg.lower():
            out = ['notfound', msg, list(hist)]
        else:
            out = ['internal', 'TaskError: ' + msg, list(hist)]
    except RecursionError:
        out = ['internal', 'RecursionError', list(hist)]
    except Exception as ex:   # noqa: BLE001
        out = ['internal', type(ex).__name__ + ': ' + str(ex)[:100], list(hist)]
    return out, orders, list(p.top)


def impl_run_fail(env, graph, tk, req, dflt):
    """graph: list of (name, [deps]); tk: list of (name, [raises?, ...]) — the tasks of each target.
    returns (outcome, dep_orders); outcome = ['ok', events, None] | ['fail', events, target] | ['loop'|'notfound'|'internal', msg, events]"""
    T, hist, RecProject = env
    events = RecProject.c34_events
    p = RecProject('c34')
    p.default = dflt
    tkd = dict(tk)
    tg = {}
    for n, ds in graph:
        t = T.Target(n, p)
        for d in ds:
            t.add_dependency(d)
        for i, raises in enumerate(tkd.get(n, [])):
            t.add_task(('c34fail', {'name': n, 'idx': str(i), 'fail': '1' if raises else '0'}))
        p.add_target(t)
        tg[n] = t
    orders = [[n, list(tg[n].dependencies)] for n, _ in graph]
    del events[:]
    try:
        T.TaskRunner().run(p, list(req))
        out = ['ok', [list(e) for e in events], None]
    except T.TaskError as ex:
        msg = str(getattr(ex, 'msg', ex))
        if msg.startswith('c34fail:'):
            out = ['fail', [list(e) for e in events], msg.split(':')[1]]
        elif 'loop' in msg.lower():
            out = ['loop', msg, [list(e) for e in events]]
        elif 'not found' in msg.lower():
            out = ['notfound', msg, [list(e) for e in events]]
        else:
            out = ['internal', 'TaskError: ' + msg, [list(e) for e in events]]
    except RecursionError:
        out = ['internal', 'RecursionError', [list(e) for e in events]]
    except Exception as ex:   # noqa: BLE001
        out = ['internal', type(ex).__name__ + ': ' + str(ex)[:100], [list(e) for e in events]]
    return out, orders


def oracle_fail(graph, tk, req, out):
    """independent reading of the three run-with-failing-tasks theorems; None when satisfied"""
    g, reach, missing, cyc = spec_facts(graph, req)
    tkd = dict(tk)
    kind = out[0]
    if kind == 'internal':
        return 'unexpected exception ' + out[1]
    if kind in ('loop', 'notfound'):
        if out[2]:
            return 'tasks were run before the error was reported'
        if (kind == 'loop' and not cyc) or (kind == 'notfound' and not missing):
            return 'error reported without cause'
        return None
    if cyc or missing:
        return 'reachable cycle or undefined target not reported'
    ev, f = [tuple(e) for e in out[1]], out[2]

    def closure(n):
        seen, todo = set(), list(g[n])
        while todo:
            m = todo.pop()
            if m not in seen:
                seen.add(m)
                todo.extend(g[m])
        return seen

    def complete(n):
        ts = tkd.get(n, [])
        return not any(ts) and all((n, j) in ev for j in range(len(ts)))
    started = {n for n, _ in ev}
    if len(set(ev)) != len(ev):
        return 'a task was run twice'
    if not started <= reach:
        return 'a task of a target outside the requested targets and their dependencies was run'
    for a in sorted(started):
        for b in sorted(closure(a)):
            if not complete(b):
                return 'target %s started although its dependency %s had not completed' % (a, b)
    if kind == 'fail':
        if f not in reach or not any(tkd.get(f, [])):
            return 'reported failing target %s is not a reachable target with a raising task' % f
        for a in sorted(started):
            if f in closure(a):
                return 'target %s started although its dependency %s failed' % (a, f)
    else:
        for n in sorted(reach):
            if not complete(n):
                return 'run reported success but target %s has a raising or unexecuted task' % n
    return None


def fail_family(env, spec, rng):
    """runs with tasks that may raise: exhaustive on labelled loop-free graphs on 3 targets, seeded beyond"""
    cases = []
    if spec['kind'] == 'failing-exhaustive':
        n = spec['n']
        for m in range(1 << (n * (n - 1))):
            g = graph_of_mask(n, offdiag_mask_to_full(n, m))
            if spec_facts(g, NAMES[:n])[3]:
                continue                # cycles are covered by the main families and the seeded family below
            for req in subsets(n):
                for bad in [None] + [(i, k) for i in range(n) for k in ((1,) if spec.get('quick') else (0, 1))]:
                    tk = [(NAMES[i], [(i, 0) == bad, (i, 1) == bad]) for i in range(n)]
                    cases.append((g, tk, req, None))
    else:
        for _ in range(spec['count']):
            n = rng.choice([3, 4, 5])
            mask = rng.getrandbits(n * n) & rng.getrandbits(n * n)
            if rng.random() < 0.85:
                mask &= sum(1 << (i * n + j) for i in range(n) for j in range(n) if i < j)
            g = graph_of_mask(n, mask)
            if rng.random() < 0.1:
                g[rng.randrange(n)][1].append('zz')
            rng.shuffle(g)
            tk = []
            for nm in NAMES[:n]:
                if rng.random() < 0.85:
                    tk.append((nm, [rng.random() < 0.18 for _ in range(rng.randrange(0, 4))]))
            req = rng.sample(NAMES[:n], rng.randrange(0, n + 1))
            dflt = rng.choice(NAMES[:n]) if (not req or rng.random() < 0.2) and rng.random() < 0.8 else None
            cases.append((g, tk, req, dflt))
    recs, fails = [], []
    dist = {'ok': 0, 'fail': 0, 'loop': 0, 'notfound': 0, 'internal': 0}
    nontrivial = 0
    for g, tk, req, dflt in cases:
        out, orders = impl_run_fail(env, g, tk, req, dflt)
        dist[out[0]] += 1
        eff = req if req else ([dflt] if dflt else [])
        gd = dict(g)
        if out[0] == 'fail' and any(gd.get(r) for r in eff):
            nontrivial += 1
        why = oracle_fail(g, tk, eff, out)
        if why and len(fails) < 40:
            fails.append({'graph': g, 'tasks': tk, 'req': req, 'dflt': dflt, 'out': out, 'why': why})
        elif why:
            fails.append(None)
        recs.append({'g': orders, 'tk': tk, 'req': req, 'dflt': dflt, 'out': out})
    return {'spec': spec, 'count': len(cases), 'nontrivial': nontrivial, 'dist': dist,
            'nfail': len(fails), 'fails': [f for f in fails if f], 'records': recs}


# ---- independent reading of Spec/BuildSpec.v -------------------------------------------------
def spec_facts(graph, req):
    g = {n: list(ds) for n, ds in graph}
    reach, todo = set(), list(req)
    while todo:
        n = todo.pop()
        if n in reach:
            continue
        reach.add(n)
        todo.extend(g.get(n, []))
    missing = sorted(n for n in reach if n not in g)
    cyc = []
    for n in sorted(reach):
        seen, todo = set(), list(g.get(n, []))
        while todo:
            m = todo.pop()
            if m in seen:
                continue
            seen.add(m)
            todo.extend(g.get(m, []))
        if n in seen:
            cyc.append(n)
    return g, reach, missing, cyc


def oracle(graph, req, out):
    """None when the outcome satisfies the property, else a short description"""
    g, reach, missing, cyc = spec_facts(graph, req)
    kind = out[0]
    if kind == 'internal':
        return 'unexpected exception ' + out[1]
    if kind in ('loop', 'notfound'):
        if out[-1]:
            return 'targets were executed before the error was reported'
        if not cyc and not missing:
            return 'error reported but the reachable part has no cycle and no undefined target'
        if kind == 'loop' and not cyc:
            return 'loop reported but the reachable part has no cycle'
        if kind == 'notfound' and not missing:
            return 'undefined target reported but every reachable target is defined'
        return None
    h = out[1]
    if cyc:
        return 'reachable cycle through %s not reported' % cyc[0]
    if missing:
        return 'undefined reachable target %s not reported' % missing[0]
    if len(set(h)) != len(h):
        return 'a target was executed twice'
    if set(h) != reach:
        return 'executed set differs from the reachable set'
    pos = {n: i for i, n in enumerate(h)}
    for a in h:
        for b in g[a]:
            if pos[b] > pos[a]:
                return 'target %s executed before its dependency %s' % (a, b)
    return None


# ---- graph families ---------------------------------------------------------------------------
def graph_of_mask(n, mask, loops=True):
    """bit (i*n + j) set: t_i depends on t_j"""
    return [(NAMES[i], [NAMES[j] for j in range(n) if (mask >> (i * n + j)) & 1]) for i in range(n)]


def offdiag_mask_to_full(n, m):
    """m enumerates the n*(n-1) off-diagonal bits"""
    full, k = 0, 0
    for i in range(n):
        for j in range(n):
            if i != j:
                if (m >> k) & 1:
                    full |= 1 << (i * n + j)
                k += 1
    return full


def canonical_masks(n, loops):
    """one representative (smallest full mask) per isomorphism class"""
    perms = list(itertools.permutations(range(n)))
    tables = []
    for p in perms:
        tables.append([1 << (p[b // n] * n + p[b % n]) for b in range(n * n)])
    nbits = n * n
    if loops:
        universe = range(1 << nbits)
    else:
        universe = (offdiag_mask_to_full(n, m) for m in range(1 << (n * (n - 1))))
    seen = set()
    reps = []
    for mask in universe:
        if mask in seen:
            continue
        reps.append(mask)
        bits = [b for b in range(nbits) if (mask >> b) & 1]
        for tb in tables:
            im = 0
            for b in bits:
                im |= tb[b]
            seen.add(im)
    return reps


def subsets(n):
    return [[NAMES[i] for i in range(n) if (s >> i) & 1] for s in range(1, 1 << n)]


def family(spec, rng):
    """yield (graph, req, dflt, has_default)"""
    kind = spec['kind']
    if kind == 'labelled':
        n, loops = spec['n'], spec['loops']
        masks = range(1 << (n * n)) if loops else (offdiag_mask_to_full(n, m) for m in range(1 << (n * (n - 1))))
        subs = subsets(n)
        for mask in masks:
            g = graph_of_mask(n, mask)
            for req in subs:
                yield g, req, None, True
    elif kind == 'canonical':
        n = spec['n']
        reps = canonical_masks(n, spec['loops'])
        if spec.get('only_with_loops'):
            diag = sum(1 << (i * n + i) for i in range(n))
            reps = [m for m in reps if m & diag]
        if spec.get('sample'):
            reps = rng.sample(reps, min(spec['sample'], len(reps)))
        subs = subsets(n)
        for mask in reps:
            g = graph_of_mask(n, mask)
            for req in subs:
                yield g, req, None, True
    elif kind == 'missing':
        # graphs on n defined targets, every target may also depend on the undefined 'zz'; requests may name 'zz'
        n = spec['n']
        masks = list(range(1 << (n * n)))
        if spec.get('sample'):
            masks = rng.sample(masks, min(spec['sample'], len(masks)))
        for mask in masks:
            for zz in range(1, 1 << n):
                g = [(nm, ds + (['zz'] if (zz >> i) & 1 else [])) for i, (nm, ds) in enumerate(graph_of_mask(n, mask))]
                for req in subsets(n):
                    yield g, req, None, True
            g = graph_of_mask(n, mask)
            yield g, ['zz'], None, True
            yield g, [NAMES[0], 'zz'], None, True
            yield g, ['zz', NAMES[0]], None, True
    elif kind == 'dag':
        # acyclic graphs: every subset of the edges i -> j (i < j), targets renamed by a seeded permutation
        n = spec['n']
        pairs = [(i, j) for i in range(n) for j in range(n) if i < j]
        masks = list(range(1 << len(pairs)))
        if spec.get('sample'):
            masks = rng.sample(masks, min(spec['sample'], len(masks)))
        subs = subsets(n)
        for m in masks:
            p = list(range(n))
            rng.shuffle(p)
            deps = {i: [] for i in range(n)}
            for k, (i, j) in enumerate(pairs):
                if (m >> k) & 1:
                    deps[p[i]].append(p[j])
            g = [(NAMES[i], [NAMES[j] for j in deps[i]]) for i in range(n)]
            for req in subs:
                yield g, req, None, True
    elif kind == 'reqorder':
        # permuted and repeated request lists, default target handling
        n = spec['n']
        for _ in range(spec['count']):
            mask = rng.getrandbits(n * n)
            if rng.random() < 0.7:      # bias towards sparse / acyclic graphs
                mask &= rng.getrandbits(n * n)
                mask &= sum(1 << (i * n + j) for i in range(n) for j in range(n) if i < j) if rng.random() < 0.6 else mask
            g = graph_of_mask(n, mask)
            rng.shuffle(g)
            k = rng.randrange(1, n + 1)
            req = rng.sample(NAMES[:n], k)
            if rng.random() < 0.4:
                req.insert(rng.randrange(len(req) + 1), rng.choice(req))
            yield g, req, None, True
        for mask in spec.get('default_masks', []):
            g = graph_of_mask(n, mask)
            yield g, [], None, True
            for d in NAMES[:n]:
                yield g, [], d, True
    else:
        raise ValueError(kind)


def worker(plan_path, out_path):
    import random
    plan = json.load(open(plan_path))
    env = _worker_setup()
    rng = random.Random(plan['seed'])
    res = {'python': sys.version.split()[0], 'hashseed': os.environ.get('PYTHONHASHSEED'), 'families': []}
    for spec in plan['families']:
        if spec['kind'].startswith('failing'):
            res['families'].append(fail_family(env, spec, rng))
            continue
        recs, fails = [], []
        count = nontrivial = 0
        dist = {'ok': 0, 'loop': 0, 'notfound': 0, 'internal': 0}
        for g, req, dflt, has_default in family(spec, rng):
            out, orders, top = impl_run(env, g, req, dflt, has_default)
            count += 1
            dist[out[0]] += 1
            eff = req if req else ([dflt] if dflt else [])
            gd = dict(g)
            if any(gd.get(r) for r in eff):
                nontrivial += 1
            why = oracle(g, eff, out)
            if why and len(fails) < 40:
                fails.append({'graph': g, 'req': req, 'dflt': dflt, 'out': out, 'why': why})
            elif why:
                fails.append(None)
            if spec.get('records'):
                recs.append({'g': orders, 'req': req, 'dflt': dflt, 'out': out, 'top': top})
        res['families'].append({'spec': spec, 'count': count, 'nontrivial': nontrivial, 'dist': dist,
                                'nfail': len(fails), 'fails': [f for f in fails if f], 'records': recs})
    with open(out_path, 'w') as f:
        json.dump(res, f)


# =====================================================================================
#  check side
# =====================================================================================
def run_worker(ctx, tag, families, hashseed=0, timeout=1500):
    from vlib import impl_env, strip_noise
    plan = os.path.join(ctx.work, 'plan_%s.json' % tag)
    outp = os.path.join(ctx.work, 'out_%s.json' % tag)
    with open(plan, 'w') as f:
        json.dump({'seed': ctx.seed, 'families': families}, f)
    env = impl_env()
    env['PYTHONHASHSEED'] = str(hashseed)
    p = subprocess.run(['timeout', str(timeout), sys.executable, os.path.abspath(__file__), '--worker', plan, outp],
                       stdout=subprocess.PIPE, stderr=subprocess.STDOUT, text=True, env=env)
    if p.returncode != 0 or not os.path.exists(outp):
        ctx.log('worker %s failed: %s' % (tag, strip_noise(p.stdout)[-1500:]))
        ctx.failed_stages.append(('worker', 'implementation worker %s failed: %s' % (tag, strip_noise(p.stdout)[-800:])))
        return None
    return json.load(open(outp))


def zlist(names):
    return '[%s]' % '; '.join(str(NUM[n]) for n in names)


def graph_term(g):
    return '[%s]' % '; '.join('(%d, %s)' % (NUM[n], zlist(ds)) for n, ds in g)


def out_val(out):
    from vlib import Rec, Internal
    if out[0] == 'ok':
        return Rec((0, [NUM[n] for n in out[1]]))
    if out[0] == 'loop':
        return Rec((1,))
    if out[0] == 'notfound':
        return Rec((2,))
    return Internal


def group_term(recs, orig):
    """one Coq term for all requests on one (graph, default): list of rendered outcomes"""
    r0 = recs[0]
    d = 'None' if not r0['dflt'] else '(Some %d)' % NUM[r0['dflt']]
    g = '(%s : graph)' % graph_term(r0['g'])
    if orig:
        return ('map (fun rp : list name * list name => show (Orig.run %s %s (fst rp) (snd rp))) [%s]'
                % (g, d, '; '.join('(%s, %s)' % (zlist(r['req']), zlist(r['top'])) for r in recs)))
    return 'map (fun r : list name => show (run %s %s r)) [%s]' % (g, d, '; '.join(zlist(r['req']) for r in recs))


def build_cases(recs, orig, per=16):
    """group records with the same graph/default (same dependency iteration orders)"""
    groups, order = {}, []
    for r in recs:
        key = json.dumps([r['g'], r['dflt']])
        if key not in groups or len(groups[key][-1]) >= per:
            groups.setdefault(key, []).append([])
            order.append((key, len(groups[key]) - 1))
        groups[key][-1].append(r)
    cases, members = [], []
    for key, k in order:
        rs = groups[key][k]
        cases.append((group_term(rs, orig), [out_val(r['out']) for r in rs]))
        members.append(rs)
    return cases, members


def run_cases_chunked(ctx, cases, chunk=1200, par=4):
    """ctx.run_cases numbers cases with unary nat literals: keep the indices small, run chunks side by side"""
    from concurrent.futures import ThreadPoolExecutor
    chunks = [cases[i:i + chunk] for i in range(0, len(cases), chunk)]
    bad, failed = [], False

    def one(k):
        return ctx.run_cases('tasks%d' % k, ['Spec.BuildSpec', 'Model.Tasks'], chunks[k], shard=600)
    with ThreadPoolExecutor(max_workers=par) as ex:
        for k, res in enumerate(ex.map(one, range(len(chunks)))):
            if res is None:
                failed = True
            else:
                bad += [k * chunk + i for i in res]
    return None if failed else bad


WITNESSES = [
    # (what, graph, request) — the Coq counterexamples of Props/C34.v on real names
    ('diamond', 'dfs', [('t0', ['t1', 't2']), ('t1', ['t3']), ('t2', ['t3']), ('t3', [])], ['t0']),
    ('partial-order-sort', 'sort', [('t0', ['t2', 't3']), ('t2', ['t1']), ('t3', []), ('t1', [])], ['t0']),
]


def report(ctx, fam_name, f):
    """turn an oracle failure into a violation record"""
    g = {n: ds for n, ds in f['graph']}
    script = ('import sys; sys.path.insert(0, %r)\n'
              'from ppci.build.tasks import *\n'
              'H = []\n'
              '@register_task\n'
              'class RecTask(Task):\n'
              '    def run(self): H.append(self.arguments["name"])\n'
              'p = Project("p"); p.default = %r\n'
              'for n, ds in %r.items():\n'
              '    t = Target(n, p); [t.add_dependency(d) for d in ds]; t.add_task(("rec", {"name": n})); p.add_target(t)\n'
              'try:\n    TaskRunner().run(p, %r); print("history", H)\n'
              'except TaskError as e:\n    print("TaskError", e.msg)\n') % (_repo(), f['dflt'], g, f['req'])
    fn = 'TaskRunner.run'
    if 'loop reported' in f['why'] or 'error reported but' in f['why']:
        fn = 'Project.dfs'
    ctx.violation({'fn': fn, 'what': f['why'], 'key': f['why'].split(' ')[0] + ' ' + fn,
                   'args': {'graph': g, 'targets': f['req'], 'default': f['dflt']},
                   'actual': f['out'], 'family': fam_name,
                   'expected': 'history = reachable targets, each once, dependencies first; TaskError iff reachable cycle/undefined target',
                   'how_to_replay': 'PYTHONHASHSEED=0 python - <<EOF\n%sEOF' % script})


def _repo():
    import vlib
    return vlib.REPO


def families_for(ctx, deep):
    quick = ctx.quick()
    fams = [
        {'kind': 'labelled', 'n': 1, 'loops': True, 'records': True, 'name': 'labelled-1'},
        {'kind': 'labelled', 'n': 2, 'loops': True, 'records': True, 'name': 'labelled-2'},
        {'kind': 'labelled', 'n': 3, 'loops': True, 'records': True, 'name': 'labelled-3'},
        {'kind': 'missing', 'n': 1, 'records': True, 'name': 'missing-1'},
        {'kind': 'missing', 'n': 2, 'records': True, 'name': 'missing-2'},
        {'kind': 'missing', 'n': 3, 'sample': 25, 'records': True, 'name': 'missing-3-sample'},
        {'kind': 'reqorder', 'n': 4, 'count': 250 if quick else 800, 'default_masks': [0, 0x0008, 0x0842, 0x8421, 0x0124, 0x1248],
         'records': True, 'name': 'request-order-4'},
        {'kind': 'reqorder', 'n': 5, 'count': 250 if quick else 800, 'records': True, 'name': 'request-order-5'},
    ]
    if quick:
        fams += [
            {'kind': 'canonical', 'n': 4, 'loops': False, 'records': True, 'name': 'canonical-4-loopfree'},
            {'kind': 'canonical', 'n': 4, 'loops': True, 'only_with_loops': True, 'sample': 100, 'records': True,
             'name': 'canonical-4-selfloops-sample'},
            {'kind': 'dag', 'n': 5, 'sample': 120, 'records': True, 'name': 'dag-5-sample'},
        ]
    else:
        fams += [
            {'kind': 'canonical', 'n': 4, 'loops': True, 'records': True, 'name': 'canonical-4'},
            {'kind': 'canonical', 'n': 5, 'loops': False, 'records': True, 'name': 'canonical-5-loopfree'},
            {'kind': 'dag', 'n': 5, 'records': True, 'name': 'dag-5'},
        ]
    # oracle-only sweeps
    fams.append({'kind': 'labelled', 'n': 4, 'loops': False, 'records': False, 'name': 'oracle-labelled-4-loopfree'})
    if deep:
        fams.append({'kind': 'labelled', 'n': 4, 'loops': True, 'records': False, 'name': 'oracle-labelled-4'})
    return fams


def replay_witnesses(ctx):
    """run the two Coq counterexamples on the implementation; returns set of defects still present"""
    fams = [{'kind': 'witness'}]
    present = set()
    res = run_worker(ctx, 'witness', [], 0)     # make sure the worker starts at all
    if res is None:
        return None
    from vlib import impl_env
    env = impl_env()
    code = ('import sys, json; sys.path.insert(0, %r)\n'
            'import c34\n'
            'env = c34._worker_setup()\n'
            'out = []\n'
            'for what, tag, g, req in c34.WITNESSES:\n'
            '    o, orders, top = c34.impl_run(env, [tuple(x) for x in g], req, None)\n'
            '    out.append([what, tag, g, req, o, c34.oracle(g, req, o)])\n'
            'print("C34WIT" + json.dumps(out))\n') % HERE
    p = subprocess.run([sys.executable, '-c', code], stdout=subprocess.PIPE, stderr=subprocess.STDOUT, text=True, env=env)
    line = [l for l in p.stdout.splitlines() if l.startswith('C34WIT')]
    if not line:
        ctx.log('witness replay failed', p.stdout[-800:])
        ctx.failed_stages.append(('worker', 'witness replay failed'))
        return None
    for what, tag, g, req, o, why in json.loads(line[0][6:]):
        ctx.cov['stages'].setdefault('witness_replay', {})[what] = {'outcome': o[:2], 'oracle': why or 'satisfies the property'}
        if why:
            present.add(tag)
            report(ctx, 'witness-' + what, {'graph': g, 'req': req, 'dflt': None, 'out': o, 'why': why})
    return present


def exec_out_val(out):
    from vlib import Rec, Internal
    if out[0] in ('ok', 'fail'):
        return Rec((0, [Rec((NUM[n], i)) for n, i in out[1]], None if out[2] is None else NUM[out[2]]))
    if out[0] == 'loop':
        return Rec((1,))
    if out[0] == 'notfound':
        return Rec((2,))
    return Internal


def report_fail(ctx, fam_name, f):
    g = {n: ds for n, ds in f['graph']}
    tk = {n: ts for n, ts in f['tasks']}
    ctx.violation({'fn': 'TaskRunner.run', 'what': f['why'], 'key': 'failing-task ' + f['why'].split(' ')[0],
                   'args': {'graph': g, 'tasks': tk, 'targets': f['req'], 'default': f['dflt']},
                   'actual': f['out'], 'family': fam_name,
                   'expected': 'a raising task stops the run; every started target has all transitive dependencies completed; '
                               'no dependant of the failed target starts; without failure every reachable task runs',
                   'how_to_replay': './check C34 --replay <this file>  (runs c34.impl_run_fail + c34.oracle_fail on the real TaskRunner)'})


def failing_stage(ctx):
    """the "Run tasks" loop with tasks that raise: implementation vs Model.TasksExec.run_exec + oracle"""
    res = run_worker(ctx, 'failing', [
        {'kind': 'failing-exhaustive', 'n': 3, 'quick': ctx.quick(), 'name': 'failing-labelled-3-acyclic'},
        {'kind': 'failing-random', 'count': 300 if ctx.quick() else 3000, 'name': 'failing-random-3to5'}], 0)
    if res is None:
        return
    cases, members = [], []
    for fam in res['families']:
        name = fam['spec']['name']
        ctx.cov['stages']['family_' + name] = {'runs': fam['count'], 'outcomes': fam['dist'], 'oracle_failures': fam['nfail']}
        ctx.cov['evaluations'] += fam['count']
        ctx.cov['distinct_nontrivial'] += fam['nontrivial']
        for f in fam['fails'][:4]:
            report_fail(ctx, name, f)
        for r in fam['records']:
            d = 'None' if not r['dflt'] else '(Some %d)' % NUM[r['dflt']]
            tk = '[%s]' % '; '.join('(%d, [%s])' % (NUM[n], '; '.join('true' if b else 'false' for b in ts)) for n, ts in r['tk'])
            cases.append(('show_exec (run_exec (%s : graph) (%s : taskmap) %s %s)' % (graph_term(r['g']), tk, d, zlist(r['req'])),
                          exec_out_val(r['out'])))
            members.append(r)
    for r in members[:: max(1, len(members) // 3)][:3]:
        ctx.note_sample({'graph': dict((n, ds) for n, ds in r['g']), 'tasks_raise': dict(r['tk']), 'targets': r['req'],
                         'default': r['dflt'], 'impl': r['out']})
    ctx.cov['stages']['correspondence_failing_cases'] = len(cases)
    ctx.cov['evaluations'] -= len(cases)
    from concurrent.futures import ThreadPoolExecutor
    step = 350
    parts = [cases[i:i + step] for i in range(0, len(cases), step)]
    with ThreadPoolExecutor(max_workers=4) as ex:
        outs = list(ex.map(lambda k: ctx.run_cases('tasksexec%d' % k, ['Spec.BuildSpec', 'Model.Tasks', 'Model.TasksExec'],
                                                   parts[k], shard=400), range(len(parts))))
    if any(o is None for o in outs):
        return                      # run_cases has recorded the failed stage
    bad = [k * step + i for k, o in enumerate(outs) for i in o]
    if bad:
        r = members[bad[0]]
        ctx.log('run_exec/implementation disagree on', [(members[i]['g'], members[i]['tk'], members[i]['req'], members[i]['out']) for i in bad[:3]])
        ctx.failed_stages.append(('correspondence', 'Model.TasksExec.run_exec disagrees with TaskRunner.run on %d runs with raising tasks, '
                                  'first: graph=%r tasks=%r targets=%r default=%r' % (len(bad), r['g'], r['tk'], r['req'], r['dflt'])))


def regen(ctx):
    return None     # hand model: nothing to regenerate


def run(ctx):
    ok, _ = ctx.build(['Proofs/C34_tasks.vo', 'Proofs/C34_exec.vo', 'Model/Tasks.vo', 'Model/TasksExec.vo', 'Lib/Val.vo'])
    if ok:
        ctx.check_props('Props/C34.v')
    present = replay_witnesses(ctx)
    if present is None:
        return
    if present:
        ctx.log('implementation shows the refuted behaviour (%s): fixes/C34-dfs-order.diff is not applied or has regressed'
                % ', '.join(sorted(present)))
    deep = (not ctx.quick()) or bool(ctx.failed_stages)
    res = run_worker(ctx, 'main', families_for(ctx, deep), 0)
    if res is None:
        return
    ctx.cov['stages']['python'] = res['python']
    recs = []
    seen = set()
    for fam in res['families']:
        name = fam['spec']['name']
        ctx.cov['stages']['family_' + name] = {'runs': fam['count'], 'outcomes': fam['dist'], 'oracle_failures': fam['nfail']}
        ctx.cov['evaluations'] += fam['count']
        if not fam['spec'].get('records'):
            ctx.cov['distinct_nontrivial'] += fam['nontrivial']
        for f in fam['fails'][:6]:
            report(ctx, name, f)
        for r in fam['records']:
            key = json.dumps([r['g'], r['req'], r['dflt']])
            if key in seen:
                continue
            seen.add(key)
            gd = dict((n, ds) for n, ds in r['g'])
            eff = r['req'] if r['req'] else ([r['dflt']] if r['dflt'] else [])
            if any(gd.get(x) for x in eff):
                ctx.cov['distinct_nontrivial'] += 1
            recs.append(r)
    # a second hash seed changes the iteration order of the dependency sets
    res2 = run_worker(ctx, 'seed1', [
        {'kind': 'labelled', 'n': 3, 'loops': True, 'records': not ctx.quick(), 'name': 'labelled-3-hashseed1'},
        {'kind': 'canonical', 'n': 4, 'loops': False, 'records': True, 'name': 'canonical-4-loopfree-hashseed1'}], 1)
    if res2 is not None:
        for fam in res2['families']:
            name = fam['spec']['name']
            ctx.cov['stages']['family_' + name] = {'runs': fam['count'], 'outcomes': fam['dist'], 'oracle_failures': fam['nfail']}
            ctx.cov['evaluations'] += fam['count']
            for f in fam['fails'][:3]:
                report(ctx, name, f)
            for r in fam['records']:
                key = json.dumps([r['g'], r['req'], r['dflt']])
                if key in seen:
                    continue
                seen.add(key)
                recs.append(r)
    for r in recs[:: max(1, len(recs) // 8)]:
        ctx.note_sample({'graph': dict((n, ds) for n, ds in r['g']), 'targets': r['req'], 'default': r['dflt'], 'impl': r['out'][:2]})
    cases, members = build_cases(recs, False)
    ctx.cov['stages']['correspondence_cases'] = len(recs)
    ctx.cov['stages']['correspondence_coq_terms'] = len(cases)
    ctx.cov['stages']['correspondence_model'] = 'Model.Tasks.run'
    ctx.cov['evaluations'] -= len(cases)          # run_cases counts terms; runs were counted per family above
    bad = run_cases_chunked(ctx, cases)
    if bad and present:
        # does the tree under test behave like the code before the fix?  (diagnostic; the violations above carry the inputs)
        ocases, omembers = build_cases(recs, True)
        ctx.cov['evaluations'] -= len(ocases)
        obad = run_cases_chunked(ctx, ocases)
        ctx.cov['stages']['correspondence_orig_model'] = {'terms': len(ocases), 'disagreeing': None if obad is None else len(obad)}
        if obad == []:
            ctx.log('the implementation agrees with Model.Tasks.Orig.run (the code before the fix) on all %d cases' % len(recs))
            ctx.cov['stages']['correspondence_model'] = 'Model.Tasks.Orig.run'
            ctx.failed_stages.append(('correspondence', 'implementation behaves as the pre-fix model Orig.run, not as Model.Tasks.run '
                                      '(%d graph groups differ)' % len(bad)))
            bad = []
    if bad:
        for i in bad[:3]:
            ctx.log('model/implementation disagree on one of:', [(m['g'], m['req'], m['dflt'], m['out'][:2]) for m in members[i]][:4])
        r = members[bad[0]][0]
        ctx.failed_stages.append(('correspondence', 'Model.Tasks.run disagrees with ppci.build.tasks on %d graph groups, first group: '
                                  'graph=%r default=%r' % (len(bad), r['g'], r['dflt'])))
        if ctx.quick():
            # deep oracle sweep to look for a concrete failing input
            res3 = run_worker(ctx, 'deep', [{'kind': 'labelled', 'n': 4, 'loops': True, 'records': False,
                                             'name': 'oracle-labelled-4'}], 0)
            if res3 is not None:
                for fam in res3['families']:
                    ctx.cov['evaluations'] += fam['count']
                    for f in fam['fails'][:6]:
                        report(ctx, fam['spec']['name'], f)
    failing_stage(ctx)
    ctx.cov['exhaustive'] = False


def search(ctx):
    res = run_worker(ctx, 'search', [{'kind': 'labelled', 'n': 3, 'loops': True, 'records': False, 'name': 'oracle-labelled-3'},
                                     {'kind': 'labelled', 'n': 4, 'loops': True, 'records': False, 'name': 'oracle-labelled-4'}], 0)
    if res is not None:
        for fam in res['families']:
            ctx.cov['evaluations'] += fam['count']
            for f in fam['fails'][:6]:
                report(ctx, fam['spec']['name'], f)


def replay(rec):
    """./check C34 --replay FILE: re-execute the recorded input on the implementation"""
    from vlib import impl_env
    a = rec.get('args') or {}
    if 'graph' not in a:
        print(json.dumps(rec, indent=1))
        return 0
    if 'tasks' in a:
        code = ('import sys, json; sys.path.insert(0, %r)\n'
                'import c34\n'
                'env = c34._worker_setup()\n'
                'g = [(n, ds) for n, ds in %r.items()]\n'
                'tk = [(n, ts) for n, ts in %r.items()]\n'
                'o, orders = c34.impl_run_fail(env, g, tk, %r, %r)\n'
                'eff = %r or ([%r] if %r else [])\n'
                'print("outcome:", o); why = c34.oracle_fail(g, tk, eff, o)\n'
                'print("verdict:", why or "satisfies the property"); sys.exit(1 if why else 0)\n'
                ) % (HERE, a['graph'], a['tasks'], a.get('targets', []), a.get('default'),
                     a.get('targets', []), a.get('default'), a.get('default'))
        return subprocess.run([sys.executable, '-c', code], env=impl_env()).returncode
    code = ('import sys, json; sys.path.insert(0, %r)\n'
            'import c34\n'
            'env = c34._worker_setup()\n'
            'g = [(n, ds) for n, ds in %r.items()]\n'
            'o, orders, top = c34.impl_run(env, g, %r, %r)\n'
            'eff = %r or ([%r] if %r else [])\n'
            'print("outcome:", o[:2]); why = c34.oracle(g, eff, o)\n'
            'print("verdict:", why or "satisfies the property"); sys.exit(1 if why else 0)\n'
            ) % (HERE, a['graph'], a.get('targets', []), a.get('default'), a.get('targets', []), a.get('default'), a.get('default'))
    p = subprocess.run([sys.executable, '-c', code], env=impl_env())
    return p.returncode


MANIFEST = {
    'text': 'proof: unbounded Coq theorems about the hand model of ppci/build/tasks.py (after the C34 fix): for every dependency '
            'graph, request list and default target, the run history contains no target twice, is exactly the set of requested '
            'targets and their transitive dependencies, and lists every target after all of its dependencies; a TaskError is '
            'raised iff the reachable part has a cycle or an undefined target, and the error kind is truthful. Two further '
            'theorems exhibit the violations of the original code (diamond reported as loop; partial-order sort misorders). '
            'Three more unbounded theorems cover the task loop when a task raises: no dependant of the failed target starts, every '
            'dependency of a started target has completed, and a run without failure has run every task of exactly the reachable targets.',
    'note': 'trusted: Coq kernel; the hand model (compared on every run with the real Project/TaskRunner execution history over '
            'all labelled graphs on <= 3 targets, all graphs on 4 targets up to isomorphism (thorough; quick: loop-free classes + '
            'sample), <= 5 targets loop-free classes in the thorough tier, x all request subsets); names abstracted to integers; '
            'order theorems: tasks assumed not to fail; task-loop theorems: a task returns or raises (compared per run with raising recording tasks), macro expansion of task arguments not modelled; CPython 3.12 sort behaviour only for the refutation of the original code. No axioms.',
    'technique': 'Coq proof over hand model + exhaustive small-graph differential correspondence + spec oracle',
}


if __name__ == '__main__':
    if len(sys.argv) == 4 and sys.argv[1] == '--worker':
        worker(sys.argv[2], sys.argv[3])
