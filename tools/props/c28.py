"""C28 — compiler front-ends fail only with diagnostics, never internal errors (DESIGN §4 C28). PARTIAL.

The property is decided by SEARCH: grammar-based generators of valid C, valid C3 and invalid-but-plausible programs
are compiled through ppci.api.cc / c3c / c_to_ir / c3_to_ir for x86_64, arm, riscv, msp430 at -O0..-O2; any exception
other than CompilerError (or the TaskError api.c3c raises from one) is a counterexample, on valid AND on invalid
programs. Failing programs are minimised (delta debugging on lines, then tokens) and deduplicated by
(exception type, innermost ppci frame, language-stage).

The Coq side (Props/C28.v) states "model input is never Internal" for the components that have models: the C constant
evaluator + packing (C27's model), `#if` evaluation (C26's model), the constant folder (C38) and a new small model of
case-label / enumerator handling (Model/CSwitchEnum.v).
"""
import hashlib
import json
import os
import random
import sys
import time
import zlib

sys.path.insert(0, os.path.dirname(os.path.abspath(__file__)))
from vlib import OkV, Diag, Internal, TieBroken, REPO, VERIF  # noqa: E402
import c28_run as R   # noqa: E402
import c28_gen   # noqa: E402
import c28_bad   # noqa: E402
import c28_c3    # noqa: E402

LEVEL = 'other'
RULE = ('programs: (a) typed random C programs (c28_gen: structs/unions/enums/typedefs/arrays/pointers/function pointers/'
        'bitfields/initializer lists/designators/switch/goto/do-while/?:/sizeof/casts/strings/variadic calls) through '
        'api.cc, target and -O level rotating over x86_64/arm/riscv/msp430 x O0/O1/O2; (b) typed random C3 modules '
        '(c28_c3) through api.c3c likewise; (c) invalid-but-plausible programs: ~1300 C and ~950 C3 one-defect templates, '
        'the cross product of 90 questionable constant expressions x 56 constant contexts (sampled in the quick tier), '
        'token-level mutants of (a)/(b); through c_to_ir / c3_to_ir; (d) the minimised witness of every recorded class. '
        'distinct_nontrivial = number of distinct source texts compiled in the run (every one is a full program). '
        'Quick tier: 130 C + 60 C3 generated programs, 120 mutants, a rotating third of the templates and an eighth of '
        'the constant contexts (the seed selects which); thorough: 2200 + 900 + 1900 mutants + all templates/contexts. '
        'Outcome classes: ok | diagnostic (CompilerError) | internal (anything else) | timeout '
        '(counted, never reported).')
EXPLANATION = ('PARTIAL, decided by search. Coq (Props/C28.v): no-Internal theorems for the modelled components only: '
               'C constant-expression evaluation + packing over the whole operator set (C27 model; refuted as found: '
               '1/0, 1%0, negative shift count raise ZeroDivisionError/ValueError), #if evaluation (C26 model, same '
               'refutation), constant folding (C38: never raises), case-label and enumerator handling (Model/CSwitchEnum.v; '
               'enumerator beyond int: struct.error refuted). NOT modelled: parser, declarations, typing, statement '
               'lowering, C3 entirely, back-end. The search is the decision procedure for those.')
TRUSTED = ['the classification harness tools/props/c28_run.py (exception -> diagnostic/internal; innermost ppci frame)',
           'hand model Model/CSwitchEnum.v (cross-checked per run against the real front-end)',
           'the models of C26/C27/C38 (regenerated / cross-checked by their own checks)',
           'generators are only mostly-valid: rejected "valid" programs are counted, not reported']
ASSUMPTIONS = ['CompilerError (and TaskError raised from one) is the diagnostic channel; NotImplementedError is not',
               'a program that exceeds the per-program time limit is not a violation (machine is shared)']

# C28_CORPUS / C28_EXPECT: alternative files (used to try a patched tree without touching the committed state)
CORPUS = os.environ.get('C28_CORPUS') or os.path.join(os.path.dirname(os.path.abspath(__file__)), 'c28_corpus.json')
EXPECT = os.environ.get('C28_EXPECT') or os.path.join(os.path.dirname(os.path.abspath(__file__)), 'c28_expect.json')
DETERMINISTIC = ('c-template', 'c-constctx', 'c3-template', 'c-boundary', 'c-boundary-cc', 'c3-boundary')   # program text does not depend on the seed


def task_sha(t):
    return hashlib.sha1(('%s|%s|%s' % (t['api'], t['march'], t['src'])).encode('utf-8', 'replace')).hexdigest()[:12]


def load_expect():
    """{sha: 'o' | 'd'}: outcome (ok / diagnostic) of the deterministic programs when the file was recorded
    (tools/props/c28_mkknown.py). Such a program ending in an internal error now is a regression even when its
    (exception, function) class is a known finding for OTHER inputs."""
    if os.path.exists(EXPECT):
        return json.load(open(EXPECT))
    return {}


# ------------------------------------------------------------------ regen / Coq side
def regen(ctx):
    import props.c27 as c27
    import props.c26 as c26
    c27.regen(ctx)
    c26.regen(ctx)


def coq_side(ctx):
    try:
        regen(ctx)
    except TieBroken as ex:
        ctx.log('C28: models of C26/C27 cannot be regenerated: %s' % ex)
        return False
    ok, _ = ctx.build(['Proofs/C28_front.vo'])
    if ok:
        ctx.check_props('Props/C28.v')
    return ok


# ------------------------------------------------------------------ classes
def cls_of(task, out):
    return '%s-%s' % (task['lang'], out.get('stage', 'front'))


def key3(task, out):
    return (out['exc'], out['where'], cls_of(task, out))


def make_rec(task, out, minimised):
    k = key3(task, out)
    return {'exc': k[0], 'where': k[1], 'class': k[2], 'key': '%s@%s/%s' % k, 'fn': k[1],
            'via': out.get('via'), 'msg': out.get('msg'), 'api': task['api'], 'march': task['march'],
            'opt': task.get('opt', 0), 'lang': task['lang'], 'kind': task.get('kind'), 'minimised': minimised,
            'program': task['src'], 'includes': task.get('includes', []),
            'expected': 'success or CompilerError', 'actual': '%s: %s' % (out['exc'], out.get('msg')),
            'how_to_replay': './check C28 --replay <this file>   (compiles "program" with ppci.api.%s for %s at -O%s)'
                             % (task['api'], task['march'], task.get('opt', 0))}


# ------------------------------------------------------------------ delta debugging
def _ddmin(items, test, budget):
    """classic ddmin on a list; test(list) -> True when the failure is still there"""
    n = 2
    while len(items) >= 2 and budget[0] > 0:
        chunk = max(1, len(items) // n)
        subsets = [items[i:i + chunk] for i in range(0, len(items), chunk)]
        reduced = False
        for i in range(len(subsets)):
            if budget[0] <= 0:
                break
            comp = [x for j, s in enumerate(subsets) if j != i for x in s]
            budget[0] -= 1
            if comp and test(comp):
                items = comp
                n = max(n - 1, 2)
                reduced = True
                break
        if not reduced:
            if n >= len(items):
                break
            n = min(len(items), n * 2)
    return items


def minimise(runner, task, key, budget=260):
    """shrink task['src'] keeping the same (exc, where, class)"""
    b = [budget]

    def still(src):
        t = dict(task)
        t['src'] = src
        t['time_limit'] = 15
        o = runner.run_one(t)
        return o.get('status') == 'internal' and key3(t, o) == key

    lines = task['src'].split('\n')
    lines = _ddmin(lines, lambda ls: still('\n'.join(ls) + '\n'), b)
    src = '\n'.join(lines) + '\n'
    toks = (c28_bad.tokens if task['lang'] == 'c' else c28_c3.TOK.findall)(src)
    if len(toks) <= 400:
        join = c28_bad.untok if task['lang'] == 'c' else (lambda ts: ''.join('\n' if t == '\n' else t + ' ' for t in ts))
        toks = _ddmin(toks, lambda ts: still(join(ts)), b)
        s2 = join(toks)
        if still(s2):
            src = s2
    t = dict(task)
    t['src'] = src
    return t


# ------------------------------------------------------------------ program streams
def streams(ctx, only_deterministic=False):
    """-> [task] (without ids)"""
    # own generator: the program stream of (tier, seed) does not depend on what else consumed ctx.rng, so that
    # bootstrap() and ./check enumerate the same programs
    rng = random.Random('c28-%s-%d' % (ctx.tier, ctx.seed))
    deep = not ctx.quick()
    tasks = []
    nT = len(R.TARGETS)

    def add(lang, api, src, kind, i, **kw):
        t = {'lang': lang, 'api': api, 'src': src, 'kind': kind, 'march': R.TARGETS[i % nT], 'opt': R.OPTS[(i // nT) % 3]}
        t.update(kw)
        tasks.append(t)

    n_c = 2200 if deep else 130
    n_c3 = 900 if deep else 60
    n_mut = 1300 if deep else 80
    n_mut3 = 600 if deep else 40
    if only_deterministic:
        n_c = n_c3 = n_mut = n_mut3 = 0
    valid_c = []
    for i in range(n_c):
        src = c28_gen.gen_c(rng)
        valid_c.append(src)
        add('c', 'cc', src, 'c-valid', i)
    valid_c3 = []
    for i in range(n_c3):
        src = c28_c3.gen_c3(rng)
        valid_c3.append(src)
        add('c3', 'c3c', src, 'c3-valid', i, includes=[c28_c3.BSP])
    for i in range(n_mut):
        add('c', 'c_to_ir', c28_bad.mutate(rng, rng.choice(valid_c)), 'c-mutant', i)
    for i in range(n_mut3):
        add('c3', 'c3_to_ir', c28_c3.mutate_c3(rng, rng.choice(valid_c3)), 'c3-mutant', i, includes=[c28_c3.BSP])
    tpl = c28_bad.templates()
    cc_ = c28_bad.const_contexts()
    tpl3 = c28_c3.c3_templates()
    if not deep:
        # quick tier: a rotating third of the templates and an eighth of the constant contexts (the seed picks which)
        o = ctx.seed
        tpl = [x for j, x in enumerate(tpl) if (j + o) % 3 == 0]
        cc_ = [x for j, x in enumerate(cc_) if (j + o) % 8 == 0]
        tpl3 = [x for j, x in enumerate(tpl3) if (j + o) % 3 == 0]
    def h(src):      # target chosen by the text, so that a program always meets the same data model
        return zlib.crc32(src.encode('utf-8', 'replace'))
    for (k, src) in tpl:
        add('c', 'c_to_ir', src, 'c-template', h(src))
    for (k, src) in cc_:
        add('c', 'c_to_ir', src, 'c-constctx', h(src))
    for (k, src) in tpl3:
        add('c3', 'c3_to_ir', src, 'c3-template', h(src), includes=[c28_c3.BSP])
    for (k, src) in c28_bad.boundary_literals():      # always in full: limits of every literal kind
        add('c', 'c_to_ir', src, 'c-boundary', 0, march=['x86_64', 'arm', 'msp430'][h(src) % 3], opt=0)
    for (k, src) in c28_bad.boundary_functions():     # the same literals as operands, through the whole compiler
        add('c', 'cc', src, 'c-boundary-cc', 0, march=['x86_64', 'arm', 'riscv'][h(src) % 3], opt=(h(src) // 3) % 3)
    for (k, src) in c28_c3.c3_boundary() + c28_c3.c3_const_ops():
        add('c3', 'c3_to_ir', src, 'c3-boundary', 0, march=['x86_64', 'arm', 'msp430'][h(src) % 3], opt=0,
            includes=[c28_c3.BSP])
    return tasks


def load_corpus():
    if os.path.exists(CORPUS):
        return json.load(open(CORPUS))
    return []


# ------------------------------------------------------------------ the search = the decision procedure
def search(ctx, nproc=4):
    t0 = time.time()
    corpus = load_corpus()
    tasks = []
    for c in corpus:
        t = dict(c['task'])
        t['kind'] = 'witness'
        t['witness_of'] = c['key']
        tasks.append(t)
    nw = len(tasks)
    tasks += streams(ctx)
    stats = {}
    found = {}       # key3 -> [(len, task, out)]
    regress = {}     # key3 -> [(len, task, out)] for programs recorded as ok / diagnostic
    expect = load_expect()
    with R.Runner(nproc) as runner:
        res = runner.run_many(tasks)
        seen_src = set()
        for t, o in zip(tasks, res):
            st = stats.setdefault(t['kind'], {'ok': 0, 'diag': 0, 'internal': 0, 'timeout': 0})
            st[o['status']] += 1
            if t['src'] not in seen_src:
                seen_src.add(t['src'])
            if o['status'] == 'internal':
                if t['kind'] in DETERMINISTIC and expect.get(task_sha(t)) in ('o', 'd'):
                    regress.setdefault(key3(t, o), []).append((len(t['src']), t, o))
                    continue
                found.setdefault(key3(t, o), []).append((len(t['src']), t, o))
        ctx.cov['evaluations'] += len(tasks)
        ctx.cov['distinct_nontrivial'] = len(seen_src)
        ctx.cov['stages']['search'] = {'programs': len(tasks), 'witnesses': nw, 'by_kind': stats,
                                       'internal_classes': len(found), 'wall_s': round(time.time() - t0, 1)}
        known_keys = {(k['match'].get('exc'), k['match'].get('where'), k['match'].get('class'))
                      for k in ctx.known if k.get('status') == 'known'}
        nnew = 0
        for key in sorted(found):
            cands = sorted(found[key], key=lambda x: x[0])
            # prefer the recorded witness (already minimal), else the smallest program
            wit = [c for c in cands if c[1].get('kind') == 'witness']
            ln, t, o = (wit or cands)[0]
            minimised = bool(wit)
            if key not in known_keys and not wit:
                nnew += 1
                if nnew <= 12:
                    t = minimise(runner, t, key)
                    o2 = runner.run_one(t)
                    if o2.get('status') == 'internal' and key3(t, o2) == key:
                        o, minimised = o2, True
            ctx.violation(make_rec(t, o, minimised))
        for key in sorted(regress):
            ln, t, o = sorted(regress[key], key=lambda x: x[0])[0]
            was = {'o': 'compiled', 'd': 'rejected with a CompilerError'}[expect[task_sha(t)]]
            # not minimised: the programs are one declaration after a three line prelude, and shrinking could
            # leave a program that fails for another reason than the one that changed its recorded outcome
            rec = make_rec(t, o, False)
            rec['class'] += '-regression'
            rec['key'] = 'regression:' + rec['key']
            rec['expected'] = 'this program %s when tools/props/c28_expect.json was recorded (%d programs regress ' \
                              'into this class)' % (was, len(regress[key]))
            ctx.violation(rec)
        ctx.cov['stages']['search']['regressions'] = {('%s@%s/%s' % k): len(v) for k, v in regress.items()}
        for t, o in zip(tasks[:nw], res[:nw]):
            if o['status'] != 'internal':
                ctx.log('witness no longer fails (fixed?): %s -> %s' % (t['witness_of'], o['status']))
    for kind in ('c-valid', 'c3-valid'):
        s = stats.get(kind)
        if s:
            ctx.note_sample({'kind': kind, 'accepted': s['ok'], 'rejected_with_diagnostic': s['diag'],
                             'internal': s['internal'], 'timeout': s['timeout']})
    for t in tasks[nw: nw + 2]:
        ctx.note_sample({'kind': t['kind'], 'target': t['march'], 'opt': t['opt'], 'program_head': t['src'][:300]})
    ctx.log('search: %d programs, %d internal classes, %.0f s' % (len(tasks), len(found), time.time() - t0))
    return found


# ------------------------------------------------------------------ correspondence of Model/CSwitchEnum.v
def switch_enum_cases(ctx, n):
    """(coq term, python value) pairs: model of on_case duplicate handling / enum value assignment vs the front-end"""
    import io
    from ppci.lang.c import c_to_ir
    from ppci.common import CompilerError
    import logging
    logging.disable(logging.CRITICAL)
    rng = ctx.rng
    cases = []
    pool = [0, 1, -1, 2, 5, 7, 100, 255, 256, 32767, 65535, 2147483647, -2147483648, 2147483646]
    fx_eval = 'Division by zero in constant expression' in open(os.path.join(REPO, 'ppci/lang/c/eval.py')).read()
    fx_enum = 'not representable as int' in open(os.path.join(REPO, 'ppci/lang/c/context.py')).read()
    ctx.cov['stages']['model_flags'] = {'eval_guards (C28-const-division-by-zero)': fx_eval,
                                        'enum_range (C28-enum-range)': fx_enum}
    b_eval, b_enum = ('true' if fx_eval else 'false'), ('true' if fx_enum else 'false')

    def run_c(src):
        try:
            c_to_ir(io.StringIO(src), 'x86_64')
            return OkV(0)
        except CompilerError:
            return Diag
        except Exception:   # noqa: BLE001
            return Internal

    def coq_z(v):
        return str(v) if v >= 0 else '(%d)' % v
    for i in range(n):
        # switch: a list of labels: single values, ranges, default
        labs, txt = [], []
        for _ in range(rng.randint(0, 5)):
            c = rng.random()
            if c < 0.6:
                v = rng.choice(pool[:11]) if rng.random() < 0.5 else rng.randint(-4, 8)
                labs.append('LCase %s' % coq_z(v))
                txt.append('case %d: ;' % v)
            elif c < 0.85:
                a = rng.randint(-4, 8)
                b = a + rng.randint(-2, 4)
                labs.append('LRange %s %s' % (coq_z(a), coq_z(b)))
                txt.append('case %d ... %d: ;' % (a, b))
            else:
                labs.append('LDefault')
                txt.append('default: ;')
        src = 'void f(int x) { switch (x) { %s } }\n' % ' '.join(txt)
        cases.append(('switch_outcome [%s]' % '; '.join(labs), run_c(src)))
        # enum: explicit / implicit enumerators, then a global of the enum type initialised with the last one
        ens, etxt = [], []
        for j in range(rng.randint(1, 4)):
            if rng.random() < 0.5:
                # negative enumerators are written -(N) with an int literal N (no literal-typing effects);
                # big positive literals take a wider type, their value is what the model uses
                v = rng.choice([p_ for p_ in pool if p_ > -2147483648] + [2147483648, 4294967295, -2147483647, 1 << 40])
                ens.append('Some %s' % coq_z(v))
                etxt.append('A%d = %s' % (j, ('(%d)' % v) if v >= 0 else '(-%d)' % -v))
            else:
                ens.append('None')
                etxt.append('A%d' % j)
        src = 'enum E { %s }; enum E g = A%d;\n' % (', '.join(etxt), len(etxt) - 1)
        cases.append(('enum_outcome_f %s [%s]' % (b_enum, '; '.join(ens)), run_c(src)))
        # int g = a op b;
        op = rng.choice(['/', '%', '<<', '>>', '/', '%', '+', '*'])
        a = rng.choice([0, 1, -1, 5, -7, 100, 2147483647])
        b = rng.choice([0, 0, 1, -1, 2, -3, 31, 33])
        lit = lambda v: str(v) if v >= 0 else '(-%d)' % -v   # noqa: E731
        src = 'int g = %s %s %s;\n' % (lit(a), op, lit(b))
        cases.append(('binop_outcome_f %s "%s"%%string %s %s' % (b_eval, op, coq_z(a), coq_z(b)), run_c(src)))
    return cases


def correspondence(ctx):
    cases = switch_enum_cases(ctx, 150 if ctx.quick() else 600)
    bad = ctx.run_cases('swen', ['Model.CSwitchEnum'], cases)
    ctx.cov['stages']['correspondence'] = {'cases': len(cases), 'disagree': None if bad is None else len(bad)}
    if bad:
        ctx.log('Model/CSwitchEnum.v disagrees with the front-end on', [cases[i][0] for i in bad[:4]])
        ctx.failed_stages.append(('correspondence', 'CSwitchEnum model disagrees on %d cases, first: %s'
                                  % (len(bad), cases[bad[0]][0])))


def run(ctx):
    if coq_side(ctx):
        if ctx.build(['Model/CSwitchEnum.vo', 'Lib/Val.vo'])[0]:
            correspondence(ctx)
    search(ctx)
    ctx.cov['exhaustive'] = False


def replay(rec):
    with R.Runner(1) as runner:
        t = {'lang': rec['lang'], 'api': rec['api'], 'src': rec['program'], 'march': rec['march'], 'opt': rec.get('opt', 0),
             'includes': rec.get('includes', [])}
        o = runner.run_one(t)
    print(rec['program'])
    print('outcome:', json.dumps(o))
    return 1 if o.get('status') == 'internal' else 0


# ------------------------------------------------------------------ maintenance: (re)build the witness corpus
def bootstrap(seeds=(0,), tier='quick', budget=200):
    """run the search, minimise EVERY class, write c28_corpus.json and print known_findings entries"""
    import vlib
    vlib.ensure_repo_on_path()
    corpus = {tuple(c['key']): c for c in load_corpus()}
    with R.Runner(4) as runner:      # stale witnesses (defect fixed meanwhile) must not shadow new ones of the same class
        ws = list(corpus.values())
        for c, o in zip(ws, runner.run_many([dict(c['task']) for c in ws])):
            if not (o['status'] == 'internal' and list(key3(c['task'], o)) == c['key']):
                del corpus[tuple(c['key'])]
    for seed in seeds:
        ctx = vlib.Ctx('C28boot', tier, seed)
        tasks = streams(ctx)
        with R.Runner(4) as runner:
            res = runner.run_many(tasks)
            found = {}
            for t, o in zip(tasks, res):
                if o['status'] == 'internal':
                    found.setdefault(key3(t, o), []).append((len(t['src']), id(t), t, o))
            for key in sorted(found):
                ln, _, t, o = sorted(found[key])[0]
                if key in corpus and len(corpus[key]['task']['src']) <= ln:
                    continue
                t = minimise(runner, t, key, budget)
                o2 = runner.run_one(t)
                if not (o2.get('status') == 'internal' and key3(t, o2) == key):
                    continue
                if key in corpus and len(corpus[key]['task']['src']) <= len(t['src']):
                    continue
                corpus[key] = {'key': list(key), 'msg': o2.get('msg'), 'via': o2.get('via'),
                               'task': {k: t[k] for k in ('lang', 'api', 'src', 'march', 'opt', 'includes') if k in t}}
                print('class', key, '|', repr(t['src'][:100]), flush=True)
    out = [corpus[k] for k in sorted(corpus)]
    with open(CORPUS, 'w') as f:
        json.dump(out, f, indent=1)
    return out


MANIFEST = {
    'text': 'other (partial, decided by search): every run compiles the recorded minimal witnesses plus freshly generated '
            'valid C programs, valid C3 modules and invalid-but-plausible programs (one-defect templates, constant-expression '
            'x context cross product, token mutants) through ppci.api.cc / c3c / c_to_ir / c3_to_ir for x86_64, arm, riscv, '
            'msp430 at -O0..-O2 and reports every exception that is not a CompilerError, minimised and deduplicated by '
            '(exception type, innermost ppci function, language-stage). The property does NOT hold for ppci: dozens of '
            'classes (ZeroDivisionError for 1/0 in constant expressions and #if, struct.error for out-of-range enumerators '
            'and pointer initialisers, KeyError/AssertionError/NotImplementedError/AttributeError in the C and C3 front-ends '
            'and in the back-ends) are recorded as known findings with their witnesses. Coq theorems cover only the modelled '
            'components: C constant evaluation + packing (no Internal outside division by zero / negative shifts, which are '
            'refuted), #if evaluation, constant folding (never raises), case-label / enumerator handling.',
    'note': 'trusted: the classification harness; CompilerError/TaskError-from-CompilerError is the diagnostic channel; '
            'generators are mostly-valid only; the models of C26/C27/C38 and the new hand model Model/CSwitchEnum.v '
            '(cross-checked per run). Not modelled in Coq: parser, declarations, typing, lowering, C3, back-end. Absence of a '
            'VIOLATION means no NEW class was found by this run\'s sample, nothing more.',
    'technique': 'grammar-based differential-free fuzzing with delta debugging + Coq composition theorems over result types',
}
