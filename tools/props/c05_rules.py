"""C05 helper: symbolic execution of the riscv @isa.pattern functions with a recording context
-> rule rows (tree, condition, emitted instructions, result) for coq/Gen/Tab_rv_patterns.v,
plus a Python twin of the rule semantics used to find concrete counterexamples of unsound rules."""
import inspect
import re

TYPES = ('I8', 'I16', 'I32', 'I64', 'U8', 'U16', 'U32', 'U64', 'F32', 'F64')
TY_RE = '|'.join(TYPES)


class SymInt(int):
    """constant .value of a tree node at a child path"""
    def __new__(cls, path):
        o = int.__new__(cls, 1000003 + 17 * len(path) + sum(path))
        o.path = tuple(path)
        return o


class Lab:
    """dummy ir block / label object"""
    def __init__(self, name):
        self.name = name


class FpRel:
    def __init__(self, offset):
        self.offset = offset
        self.size = 4


CJ_OPS = ('<', '>', '==', '!=', '>=', '<=')


def split_name(name):
    """tree node name -> (op, type, from-type)"""
    m = re.match(r'^(%s)TO(%s)$' % (TY_RE, TY_RE), name)
    if m:
        return 'CAST', m.group(2), m.group(1)
    m = re.match(r'^([A-Z]+?)(%s)$' % TY_RE, name)
    if m:
        return m.group(1), m.group(2), ''
    return name, '', ''


def parse_cond(pat):
    """condition lambda -> ('true',) | ('lt', path, hi) | ('range', path, lo, hi) | ('other', text)"""
    if pat.condition is None:
        return ('true',)
    try:
        src = ' '.join(inspect.getsource(pat.condition).split())
    except Exception as ex:   # noqa: BLE001
        return ('other', 'no source: %s' % ex)
    if src.count('lambda') != 1:
        return ('ambiguous', src)     # decorator stack in one blob: characterised by probing instead
    lam = src.split('lambda', 1)[1].split(':', 1)[1].strip()
    lam = re.sub(r'[\s,)]*$', '', lam)
    if lam.count('(') > lam.count(')'):
        lam += ')'

    def path_of(expr):
        p = []
        for m in re.finditer(r'(?:\.children)?\[(\d+)\]', expr):
            p.append(int(m.group(1)))
        return p
    m = re.match(r'^t((?:(?:\.children)?\[\d+\])*)\.value\s*<\s*(-?\d+)$', lam)
    if m:
        return ('lt', path_of(m.group(1)), int(m.group(2)))
    lam = lam.replace('.value.offset', '.value')
    m = re.match(r'^t((?:(?:\.children)?\[\d+\])*)\.value\s+in\s+range\(\s*(-?\d+)\s*,\s*(-?\d+)\s*\)$', lam)
    if m:
        return ('range', path_of(m.group(1)), int(m.group(2)), int(m.group(3)))
    return ('other', lam[:80])


PROBES = [-(1 << 31), -70000, -4097, -4096, -2049, -2048, -2047, -129, -128, -127, -33, -32, -1, 0, 1, 31, 32, 33, 127, 128,
          255, 256, 2047, 2048, 2049, 4095, 4096, 65535, 65536, (1 << 31) - 1, (1 << 32) - 1]


def cond_from_probes(pat, Tree, const_paths):
    """when the source text is not usable: characterise the lambda as an interval on one constant by probing"""
    if len(const_paths) != 1:
        return ('other', 'unparsed condition')
    path = const_paths[0]
    acc = []
    for v in PROBES:
        t = build_tree(pat.tree, Tree, {}, value_at={tuple(path): v})[0]
        try:
            acc.append(bool(pat.condition(t)))
        except Exception:   # noqa: BLE001
            return ('other', 'condition raises')
    ok = [v for v, a in zip(PROBES, acc) if a]
    if not ok:
        return ('other', 'never true on probes')
    lo, hi = min(ok), max(ok)
    if [v for v in PROBES if lo <= v <= hi] != ok:
        return ('other', 'not an interval on probes')
    if lo == PROBES[0]:
        return ('lt', list(path), hi + 1)
    return ('range', list(path), lo, hi + 1)


def cond_eval(cond, consts):
    if cond[0] == 'true':
        return True
    if cond[0] == 'lt':
        return consts[tuple(cond[1])] < cond[2]
    if cond[0] == 'range':
        return cond[2] <= consts[tuple(cond[1])] < cond[3]
    return None


def build_tree(pt, Tree, regs, value_at=None, path=()):
    """dummy tree for pattern tree pt; returns (tree, nonterminal kinds in order, const paths)"""
    nts, consts = [], []
    if pt.name in ('reg', 'mem', 'stm'):
        return Tree(pt.name), [pt.name], []
    kids = []
    for k, c in enumerate(pt.children):
        t, n, cs = build_tree(c, Tree, regs, value_at, path + (k,))
        kids.append(t)
        nts += n
        consts += cs
    op, ty, frm = split_name(pt.name)
    val = None
    if op == 'CONST':
        val = value_at[path] if value_at and path in value_at else SymInt(path)
        consts.append(list(path))
    elif path == () and op in ('MOV', 'REG'):
        val = regs.get('value')
    elif path == () and op == 'CJMP':
        val = (regs.get('cjop', '<'), Lab('yes'), Lab('no'))
    elif path == () and op == 'JMP':
        val = Lab('tgt')
    elif path == () and op == 'FPREL':
        val = FpRel(value_at[path] if value_at and path in value_at else SymInt(path))
        consts.append(list(path))
    return Tree(pt.name, *kids, value=val), nts, consts


class Recorder:
    def __init__(self, arch, Reg):
        self.arch = arch
        self.Reg = Reg
        self.items = []
        self.fresh = []
        self.frame = self
        self.debug_db = None
        self.tree = None
        self.nconst = 0

    # context API
    def new_reg(self, cls):
        r = cls('fresh%d' % len(self.fresh))
        self.fresh.append(r)
        return r

    def emit(self, ins):
        self.items.append(ins)
        return ins

    def move(self, dst, src):
        self.emit(self.arch.move(dst, src))

    def new_label(self):
        return 'L'

    # frame API used by LABEL patterns
    def add_constant(self, value):
        self.nconst += 1
        return 'lit%d' % self.nconst


def sym_of(v, childs, mems, rec, value_reg):
    for k, c in enumerate(childs):
        if v is c:
            return ('child', k)
    for k, (b, o) in mems.items():
        if v is b:
            return ('child', k)
        if v is o:
            return ('const', [90 + k])      # offset part of the (base, offset) pair of mem child k
    if isinstance(v, str) and v in ('yes', 'no', 'tgt'):
        return ('other', 'label:' + v)
    for k, f in enumerate(rec.fresh):
        if v is f:
            return ('fresh', k)
    if v is value_reg:
        return ('value',)
    if isinstance(v, SymInt):
        return ('const', list(v.path))
    if isinstance(v, bool):
        return ('other', 'bool')
    if isinstance(v, int):
        return ('lit', int(v))
    if hasattr(v, 'num') and getattr(v, 'is_colored', True) and isinstance(getattr(v, 'num', None), int):
        return ('phys', v.num)
    return ('other', type(v).__name__)


def export_rules():
    """-> list of rule dicts, one per isa.patterns entry (same order)"""
    from ppci.api import get_arch
    from ppci.utils.tree import Tree
    from ppci.arch.riscv.instructions import isa
    from ppci.arch.riscv.registers import RiscvRegister
    from ppci.arch.encoding import Instruction
    arch = get_arch('riscv')
    rows = []
    work = []
    for pat in isa.patterns:
        if split_name(pat.tree.name)[0] == 'CJMP':
            work += [(pat, o) for o in CJ_OPS]
        else:
            work.append((pat, None))
    for idx, (pat, cjop) in enumerate(work):
        value_reg = RiscvRegister('treevalue')
        tree, nts, const_paths = build_tree(pat.tree, Tree, {'value': value_reg, 'cjop': cjop})
        op, ty, frm = split_name(pat.tree.name)
        childs, mems, args = [], {}, []
        for k, nt in enumerate(nts):
            if nt == 'reg':
                r = RiscvRegister('child%d' % k)
                childs.append(r)
                args.append(r)
            elif nt == 'mem':
                b, o = RiscvRegister('membase%d' % k), SymInt((90 + k,))
                childs.append(b)
                mems[k] = (b, o)
                args.append((b, o))
            else:
                childs.append(None)
                args.append(None)
        rec = Recorder(arch, RiscvRegister)
        row = dict(idx=idx, fn=pat.method.__name__, nt=pat.non_term, text=str(pat.tree) + ('[%s]' % cjop if cjop else ''),
                   tree=pat.tree, size=pat.size, nts=nts, const_paths=const_paths, error=None, cjop=cjop)
        cond = parse_cond(pat)
        if cond[0] in ('ambiguous', 'other') and pat.condition is not None:
            cond = cond_from_probes(pat, Tree, const_paths)
        row['cond'] = cond
        try:
            res = pat.method(rec, tree, *args)
        except Exception as ex:   # noqa: BLE001
            row['error'] = '%s: %s' % (type(ex).__name__, str(ex)[:60])
            res = None
        body = []
        for ins in rec.items:
            if not isinstance(ins, Instruction) or type(ins).syntax is None:
                body.append(('?' + type(ins).__name__, [('other', 'virtual')]))
                continue
            syn = type(ins).syntax
            mn = syn.syntax[0] if isinstance(syn.syntax[0], str) else '?'
            ops = [sym_of(getattr(ins, fa._name), childs, mems, rec, value_reg) for fa in syn.formal_arguments]
            body.append((mn, ops, type(ins).__name__))
        if res is None:
            result = []
        elif isinstance(res, tuple):
            result = [sym_of(x, childs, mems, rec, value_reg) for x in res]
        else:
            result = [sym_of(res, childs, mems, rec, value_reg)]
        row.update(body=body, result=result, nfresh=len(rec.fresh))
        rows.append(row)
    return rows


# ------------------------------------------------------------------ Coq rendering
def cstr(s):
    return '"' + ''.join(ch if 32 <= ord(ch) < 127 and ch != '"' else '?' for ch in s) + '"'


def cz(v):
    return str(v) if v >= 0 else '(%d)' % v


def cpath(p):
    return '[' + '; '.join('%d%%nat' % k for k in p) + ']'


def copnd(o):
    k = o[0]
    if k == 'child':
        return 'SChild %d' % o[1]
    if k == 'fresh':
        return 'SFresh %d' % o[1]
    if k == 'phys':
        return 'SPhys %s' % cz(o[1])
    if k == 'const':
        return 'SConst %s' % cpath(o[1])
    if k == 'lit':
        return 'SLit %s' % cz(o[1])
    if k == 'value':
        return 'SValue'
    return 'SOther %s' % cstr(str(o[1]))


def ctree(pt, cjop=None):
    if pt.name in ('reg', 'mem', 'stm'):
        return 'TNT %s' % cstr(pt.name)
    op, ty, frm = split_name(pt.name)
    if cjop:
        frm = cjop          # CJMP: the relational operator of tree.value travels in the source-type slot
    return 'TOp %s %s %s [%s]' % (cstr(op), cstr(ty), cstr(frm), '; '.join(ctree(c) for c in pt.children))


def ccond(c):
    if c[0] == 'true':
        return 'CTrue'
    if c[0] == 'lt':
        return 'CLt %s %s' % (cpath(c[1]), cz(c[2]))
    if c[0] == 'range':
        return 'CRange %s %s %s' % (cpath(c[1]), cz(c[2]), cz(c[3]))
    return 'COther %s' % cstr(c[1])


def render(rows):
    out = ['(* generated by tools/props/c05.py: every @isa.pattern of ppci/arch/riscv/instructions.py executed on a dummy tree',
           '   with a recording context — do not edit *)',
           'From PV Require Import Model.RvRules.', 'From Coq Require Import ZArith List String.', 'Import ListNotations.',
           'Open Scope Z_scope.', 'Local Open Scope string_scope.',
           'Definition rv_rules : list rule := [']
    items = []
    for r in rows:
        body = '; '.join('(%s, [%s])' % (cstr(b[0]), '; '.join(copnd(o) for o in b[1])) for b in r['body'])
        items.append('  mkRule %s %s (%s) %s (%s)\n    [%s] [%s]' % (
            cstr(r['fn']), cstr(r['nt']), ctree(r['tree'], r.get('cjop')), cstr(r['text']), ccond(r['cond']), body,
            '; '.join(copnd(o) for o in r['result'])))
    out.append(';\n'.join(items) + '].')
    return '\n'.join(out) + '\n'


# ------------------------------------------------------------------ Python twin of the rule semantics (search oracle)
BITS = {'I8': (8, True), 'I16': (16, True), 'I32': (32, True), 'U8': (8, False), 'U16': (16, False), 'U32': (32, False)}
BINOPS = ('ADD', 'SUB', 'MUL', 'DIV', 'REM', 'OR', 'AND', 'XOR', 'SHL', 'SHR')


def wrap(bits, sg, z):
    u = z % (1 << bits)
    return u - (1 << bits) if sg and u >= (1 << (bits - 1)) else u


def quot(a, b):
    q = abs(a) // abs(b)
    return q if (a < 0) == (b < 0) else -q


def ir_binop(op, bits, sg, a, b):
    """IR semantics (reading of Spec/IRSem.eval_binop); None = undefined behaviour"""
    w = lambda z: wrap(bits, sg, z)   # noqa: E731
    if op == 'ADD':
        return w(a + b)
    if op == 'SUB':
        return w(a - b)
    if op == 'MUL':
        return w(a * b)
    if op in ('DIV', 'REM'):
        if b == 0 or (sg and a == -(1 << (bits - 1)) and b == -1):
            return None
        return w(quot(a, b)) if op == 'DIV' else w(a - b * quot(a, b))
    if op == 'OR':
        return w(a | b)
    if op == 'AND':
        return w(a & b)
    if op == 'XOR':
        return w(a ^ b)
    if not 0 <= b < bits:
        return None
    return w(a << b) if op == 'SHL' else w(a >> b)


def row_sem(row):
    """('bin', op, ty, left, right) with leaves ('child', k) / ('const', path); ('const', ty); ('cast', from, to);
    ('un', op, ty); None = outside the rule-level oracle"""
    t = row['tree']
    op, ty, frm = split_name(t.name)
    if ty not in BITS:
        return None
    kids = list(t.children)

    def is_const(k):
        o2, t2, _ = split_name(k.name)
        return o2 == 'CONST' and t2 == ty and not k.children
    if op == 'CONST' and not kids:
        return ('const', ty)
    if op in BINOPS and len(kids) == 2:
        a, b = kids
        if a.name == 'reg' and b.name == 'reg':
            return ('bin', op, ty, ('child', 0), ('child', 1))
        if a.name == 'reg' and is_const(b):
            return ('bin', op, ty, ('child', 0), ('const', (1,)))
        if is_const(a) and b.name == 'reg':
            return ('bin', op, ty, ('const', (0,)), ('child', 0))
    if op == 'CAST' and frm in BITS and len(kids) == 1 and kids[0].name == 'reg':
        return ('cast', frm, ty)
    if op in ('NEG', 'INV') and len(kids) == 1 and kids[0].name == 'reg':
        return ('un', op, ty)
    return None


def li_expand(rd, imm):
    if -2048 <= imm < 2048:
        return [('addi', [rd, 0, imm])]
    imm2 = imm if imm & 0x800 == 0 else imm + 0x1000
    return [('lui', [rd, (imm2 >> 12) & 0xFFFFF]), ('addi', [rd, rd, imm2 & 0xFFF])]


def run_body(row, childs, fresh, consts, value_reg, state, RV, rv_expect, apply_view, li=None):
    """execute the emitted sequence of a row on state (in place); returns result register numbers or None"""
    def val(o):
        k = o[0]
        if k == 'child':
            return childs[o[1]]
        if k == 'fresh':
            return fresh[o[1]]
        if k == 'phys':
            return o[1]
        if k == 'const':
            return consts[tuple(o[1])]
        if k == 'lit':
            return o[1]
        if k == 'value':
            return value_reg
        raise KeyError(o)
    for b in row['body']:
        mn, ops = b[0], [val(o) for o in b[1]]
        items = (li or li_expand)(*ops) if mn == 'li' else [(mn, ops)]
        for m2, o2 in items:
            exp = rv_expect(m2, len(o2))
            if exp is None:
                raise KeyError(m2)
            RV.exec1((exp[0], apply_view(exp[1], o2)), state)
    return [val(o) for o in row['result']]


REG_POOL = [0, 1, 2, 3, 7, 8, 31, 32, 33, 127, 128, 255, 256, 0x1ff, 0x7fff, 0x8000, 0xffff, 0x10064, 0x7fffffff, 0x80000000,
            0xffffffff, 0xfffffffe, 0x12345678, 0xdeadbeef, 0xffffff80, 0xffff8000]
CONST_POOL = [0, 1, 2, 3, 5, 31, 127, 128, 255, 2047, -1, -2, -128, -2048, -2049, -5000, -70000, -(1 << 31), 32, 33, 256, 2048,
              70000, (1 << 31) - 1, 65535, (1 << 32) - 1]


def find_witness(row, rng, RV, rv_expect, apply_view, tries=400, li=None):
    """-> None | dict(kind, childs, fresh, consts, regs, expected, actual, what)"""
    sem = row_sem(row)
    if sem is None or row['error'] or row['cond'][0] == 'other' or len(row['result']) != 1:
        return None
    if any(o[0] == 'other' for b in row['body'] for o in b[1]) or any(b[0].startswith('?') for b in row['body']):
        return None
    nchild = sum(1 for n in row['nts'] if n == 'reg')
    fresh = [20 + k for k in range(row['nfresh'])]
    for _ in range(tries):
        childs = [11, 12][:nchild] if rng.random() < 0.8 or nchild < 2 else [11, 11]
        ty = sem[2] if sem[0] in ('bin', 'un') else sem[1]
        bits, sg = BITS[ty if sem[0] != 'cast' else sem[2]]
        consts = {}
        ok = True
        for p in row['const_paths']:
            cb, cs = BITS[ty]
            lo, hi = (-(1 << (cb - 1)), 1 << (cb - 1)) if cs else (0, 1 << cb)
            c = rng.choice(CONST_POOL) if rng.random() < 0.8 else rng.randrange(lo, hi)
            if not lo <= c < hi:
                ok = False
            consts[tuple(p)] = c
        if not ok or cond_eval(row['cond'], consts) is not True:
            continue
        regs = {r: (rng.choice(REG_POOL) if rng.random() < 0.7 else rng.getrandbits(32)) for r in set(childs)}
        st = RV.State([0] * 32)
        for r, v in regs.items():
            st.regs[r] = v
        before = list(st.regs)
        try:
            res = run_body(row, childs, fresh, consts, 25, st, RV, rv_expect, apply_view, li)
        except Exception:   # noqa: BLE001
            return None

        def leaf(l, b2, s2):
            return wrap(b2, s2, before[childs[l[1]]]) if l[0] == 'child' else consts[tuple(l[1])]
        if sem[0] == 'bin':
            b2, s2 = BITS[sem[2]]
            exp = ir_binop(sem[1], b2, s2, leaf(sem[3], b2, s2), leaf(sem[4], b2, s2))
        elif sem[0] == 'const':
            b2, s2 = BITS[sem[1]]
            exp = wrap(b2, s2, consts[()])
        elif sem[0] == 'cast':
            fb, fs = BITS[sem[1]]
            b2, s2 = BITS[sem[2]]
            exp = wrap(b2, s2, wrap(fb, fs, before[childs[0]]))
        else:
            b2, s2 = BITS[sem[2]]
            a = wrap(b2, s2, before[childs[0]])
            exp = wrap(b2, s2, -a if sem[1] == 'NEG' else -a - 1)
        if exp is None:
            continue
        got = st.regs[res[0]] if res[0] != 0 else 0
        base = dict(childs=childs, fresh=fresh, consts={str(list(k)): v for k, v in consts.items()},
                    const_items=[(list(k), v) for k, v in consts.items()],
                    regs={'x%d' % r: v for r, v in regs.items()}, reg_items=sorted(regs.items()))
        if got % (1 << b2) != exp % (1 << b2):
            return dict(base, kind='value', expected=exp, actual=wrap(b2, s2, got),
                        what='result register x%d holds %d, the IR value is %d (compared modulo 2^%d)' % (res[0], wrap(b2, s2, got), exp, b2))
        changed = [r for r in range(1, 32) if st.regs[r] != before[r] and r not in fresh and r != res[0] or
                   (r == res[0] and r in childs and st.regs[r] != before[r])]
        if changed:
            r0 = changed[0]
            return dict(base, kind='clobber', expected=before[r0], actual=st.regs[r0],
                        what='operand register x%d is overwritten (%d -> %d) although it is not a temporary of the rule'
                             % (r0, before[r0], st.regs[r0]))
    return None
