"""C11 — linked references resolve exactly to their symbols (DESIGN §4 C11).

tie I: Gen/Tab_relocs.v lists every relocation class of every architecture (token size, field, whether it
overrides apply/calc, whether Model/Reloc.v has a model for it); tie T: Gen/bitfun.v (wrap_negative, align,
encode_imm32); tie H: Model/Reloc.v (BitView/Token writes, the apply/calc of 27 relocation classes,
get_symbol_id_value, _do_relocation) cross-checked against the implementation on every run, both at the level
of Relocation.apply and through the real linker (ppci.api.link with a layout).
Search oracle: the Python twin of Spec/RelocSpec.v decodes the patched field of the linked output.
"""
import json
import os

from vlib import OkV, Diag, Internal, to_term, REPO
from props import reloc_common as rc
from props.reloc_common import KINDS, w

LEVEL = 'proof'
RULE = ('apply-level cases: per modelled relocation class, (S, P, addend, template bytes) with S-P at the field range '
        'boundaries {+-2^(w-1), +-2^w} * scale +- {0, scale, 1} plus seeded random distances and random template bytes, '
        'aligned and misaligned; link-level cases: two-section objects built with the ObjectFile API (reference at a '
        'random offset in .code, target symbol in a second section / absolute), laid out by a generated Layout so that '
        'the distance hits the same boundary pools, linked by ppci.api.link; non-trivial = distinct (class, S-P, addend, '
        'template) whose link or apply succeeds with a non-zero distance')
EXPLANATION = ('[generic stage, no model, ALL relocation classes of ALL architectures incl. avr/m68k/microblaze/mips/msp430/or1k/'
               'xtensa/mcs6500: tools/props/c11_bounds.py calibrates scale, zero displacement and field size of each class from '
               'its real apply and probes {+-2^(w-1), 2^w} +- 1: an accepted displacement whose patched bytes equal those of '
               'another accepted displacement is "accepted but aliased"; the lax boundaries of the unchanged tree are known '
               'findings keyed per (class, boundary); lo/hi slice classes are excluded by an explicit list] '
               'Unbounded Coq theorems (all S, P, template bytes) over the hand model Model/Reloc.v. Classes WITH theorems: '
               'riscv b_imm12, b_imm20, abs32_imm20+abs32_imm12 (lui/addi pair), rel_imm20+rel_imm12 (auipc/addi pair); '
               'riscv:rvc cb_imm11, cbl_imm11 (same J-type scatter), bc_imm11, bc_imm8; arm imm24; x86_64 rel32, abs32; '
               'data absaddr16/32/64; plus BitView.__setitem__ writes exactly bits [a,b) of the little-endian word, '
               'get_symbol_id_value = section address + offset, Linker._do_relocation patches exactly the size bytes at the '
               'relocation offset with apply\'s result, the exported table agrees with the model on every size. Refuted at '
               'full strength (machine-checked witnesses, replayed through the real linker on every run, known findings): '
               'positive overflow accepted by b_imm12/b_imm20/bc_imm11/imm24/rel32, addend ignored by every class but rel32, '
               'Thumb bl_imm11 never writes J1/J2 (wrong target from 4 MiB). Added in the deepening round: exactness theorems '
               'for arm:thumb wrap_new11 (b), rel8 (b<c>), lit8 (ldr literal), bl_imm11 (exact within +-4 MiB for the '
               'assembler template J1=J2=1), arm ldr_imm12 (ldr literal, template field zero), x86_64 jmp8 and abs64; and TIE T for the class bodies: the calc/apply methods of '
               '24 modelled classes are flattened (tools/props/c11_flatten.py, fail-closed) and translated by py2coq into '
               'Gen/reloc_bodies.v on every run, and c11_tie_bodies proves Model.Reloc.apply equal to them for all arguments, '
               'so an edit of a calc/apply body breaks the proof build (BitView.__setitem__, the default token apply and '
               'bytearray item assignment inside them remain the hand models bv_set / tok_apply / set_nth). Classes that stay '
               'tie H: arm ldr_imm12 (has a theorem), adr_imm12, thumb b_imm11_imm6 (NO theorem: correspondence only) '
               '(in-place |= on bytes; b_imm11_imm6 TODO i1/i2 encoding not checked against the ISA), arm rel8 (unused), riscv '
               'AbsAddr32Relocation (shadowed in relocation_map by data absaddr32). NOT covered at all (listed in evidence stages.reloc_table.not_covered): '
               'avr, m68k, microblaze, mips, msp430, or1k, xtensa, mcs6500 relocation classes')
TRUSTED = ['tools/props/c11_flatten.py (fail-closed AST flattening of the relocation calc/apply methods into plain functions) '
           '+ tools/py2coq.py: Gen/reloc_bodies.v',
           'hand model coq/Model/Reloc.v (cross-checked per run against Relocation.apply of every modelled class and '
           'against Linker._do_relocation through ppci.api.link)',
           'tools/py2coq.py for wrap_negative / align / encode_imm32 (Gen.bitfun)',
           'reading of the ISA manuals in coq/Spec/RelocSpec.v (RISC-V B/J/U/I/CJ/CB immediates, ARM B/BL/LDR literal, '
           'Thumb B/Bcc/BL/LDR literal, x86 rel8/rel32) and its Python twin tools/props/reloc_common.py']
ASSUMPTIONS = ['template bytes are bytes (0..255) and the slice handed to apply has Relocation.size() bytes (the linker asserts it)',
               'exactness theorems assume the alignment the classes assert (S, P even / multiple of 4) and a distance in the ISA '
               'range of the field; hi/lo pairs are exact modulo 2^32 for every S (RV32 address space) and never reject',
               'ValueError escaping ppci.api.link counts as "the link fails" (Diag); AssertionError counts as Internal — both are '
               'failures of the link, neither produces output',
               'classes that OR into the field (arm ldr_imm12/adr_imm12, thumb b_imm11_imm6) and thumb bl_imm11 (J1/J2) are '
               'searched with the assembler template only (field bits zero), which is what the assembler emits']
MANIFEST = {
    'text': 'proof (with recorded refutations): for the RISC-V (B/J/U+I pairs, RVC CJ/CB), ARM b/bl, x86-64 rel32/abs32 and data-word '
            'relocation classes, unbounded Coq theorems over a hand model of Relocation.apply/BitView/Token writes show that for every '
            'symbol address, site address and template in the ISA range of the field the patched bytes, read by an independent ISA '
            'decoder, designate exactly the symbol address and leave all other instruction bits unchanged; that get_symbol_id_value is '
            'section address + offset and that _do_relocation patches exactly the relocation site. The full-strength rejection and '
            'addend clauses are REFUTED for the current code (positive overflow wraps; addend ignored except rel32; Thumb BL beyond '
            '4 MiB) with machine-checked witnesses that are re-executed through ppci.api.link on every run and recorded as known findings. '
            'Thumb b/b<c>/ldr-literal/bl (bl within +-4 MiB), x86 jmp8/abs64 also have exactness theorems; the hand model of the '
            'class bodies is proved equal to definitions regenerated from the source (flatten + py2coq) for 24 classes, so a '
            'source edit of calc/apply breaks the proof build; arm ldr_imm12/adr_imm12 and thumb b_imm11_imm6 are modelled and '
            'checked differentially only; avr/m68k/microblaze/mips/msp430/or1k/'
            'xtensa/mcs6500 relocation classes are not covered',
    'note': 'trusted: Coq kernel; hand model Model/Reloc.v (cross-checked per run: ~1200 apply cases over 27 classes and ~400 links through '
            'the real linker); py2coq for wrap_negative/align/encode_imm32; the reading of the ISA manuals in Spec/RelocSpec.v. '
            'No axioms.',
    'technique': 'Coq proof over hand model + differential correspondence through the real linker + ISA-decoder search oracle'}

THEOREM_KINDS = []   # filled below: kinds with a c11_exact theorem


# ---------------------------------------------------------------- tie I: relocation table
def export_table(ctx):
    from ppci.api import get_arch
    rows = []
    seen = {}
    for an in rc.ARCHS:
        try:
            arch = get_arch(an)
        except Exception:   # noqa: BLE001
            continue
        for name, cls in sorted(arch.isa.relocation_map.items()):
            key = (cls.__module__, cls.__name__)
            try:
                size = cls.size()
            except Exception:   # noqa: BLE001
                size = -1
            kind = rc.kind_of_class(cls)
            row = {'arch': an, 'name': name, 'cls': '%s.%s' % key, 'size': size,
                   'field': cls.field or '', 'own_apply': 'apply' in cls.__dict__, 'own_calc': 'calc' in cls.__dict__,
                   'kind': kind, 'hash': rc.class_hash(cls)}
            rows.append(row)
            seen[key] = row
    lines = ['(* GENERATED by tools/props/c11.py from isa.relocation_map of every architecture of /repo/ppci — do not edit *)',
             'From PV Require Import Lib.Py Model.Reloc.', 'From Coq Require Import String.', 'Open Scope Z_scope.', '',
             '(* (arch, relocation name, class, Relocation.size(), modelled as) *)',
             'Definition reloc_table : list (string * string * string * Z * option rkind) := [']
    ents = []
    for r in rows:
        ents.append('  ("%s"%%string, "%s"%%string, "%s"%%string, %s, %s)' % (
            r['arch'], r['name'], r['cls'], w(r['size']), ('Some %s' % r['kind']) if r['kind'] else 'None'))
    lines.append(';\n'.join(ents))
    lines.append('].')
    ctx.write_gen('Tab_relocs', '\n'.join(lines) + '\n')
    return rows


def regen(ctx):
    from props import c39
    infos, hashes = ctx.gen_T('bitfun', 'ppci/utils/bitfun.py', c39.ENTRIES)
    rows = export_table(ctx)
    gen_reloc_bodies(ctx, infos)
    gen_switch(ctx)
    return rows


SWITCH = {'bl_fixed': False}


def gen_switch(ctx):
    """probe, on the implementation, which variant of a repaired class the current source has (witness of the
    finding: thumb bl over 4 MiB + 4) and write Gen/reloc_switch.v; the tie theorem is then about that variant"""
    out = rc.impl_apply('ThBlImm11', 0, (1 << 22) + 8, TEMPLATES['ThBlImm11'], 0)
    fixed = isinstance(out, OkV) and rc.thumb_bl_off(rc.word(out.v)) == (1 << 22) + 4
    SWITCH['bl_fixed'] = fixed
    ctx.write_gen('reloc_switch', '(* GENERATED by tools/props/c11.py: which repaired variants the current source has (probed) *)\n'
                                  'Definition bl_fixed : bool := %s.\n' % ('true' if fixed else 'false'))
    ctx.cov['stages']['reloc_switch'] = dict(SWITCH)


def gen_reloc_bodies(ctx, bitfun_infos):
    """tie T for the class bodies: flatten (props/c11_flatten.py) + py2coq -> coq/Gen/reloc_bodies.v from the
    current source. Every modelled class must flatten and translate (fail-closed)."""
    import py2coq
    from vlib import REPO, TieBroken
    from props import c11_flatten as fl
    try:
        flat_src, entries, modes, failed = fl.flat_source(REPO, KINDS)
        if failed:
            raise py2coq.Unsupported('; '.join('%s: %s' % kv for kv in sorted(failed.items())))
        flat_path = os.path.join(ctx.work, 'reloc_flat.py')
        with open(flat_path, 'w') as f:
            f.write(flat_src)
        text, infos, hashes = py2coq.translate_module(flat_path, entries,
                                                      ['From PV Require Import Gen.bitfun Model.Reloc.'],
                                                      known=fl.known_infos(bitfun_infos))
    except (py2coq.Unsupported, SyntaxError, OSError) as ex:
        ctx.log('C11 relocation bodies cannot be regenerated from the source: %s' % ex)
        ctx.failed_stages.append(('translate', 'relocation calc/apply bodies: %s' % ex))
        raise TieBroken(str(ex))
    text = text.replace(text.splitlines()[0],
                        '(* GENERATED by tools/props/c11_flatten.py (flatten) + tools/py2coq.py from the calc/apply methods of '
                        'the modelled relocation classes of /repo/ppci/arch — do not edit; regenerated on every check run *)', 1)
    changed = ctx.write_gen('reloc_bodies', text)
    ctx.cov['stages']['gen_reloc_bodies'] = {'functions': hashes, 'modes': modes, 'changed_on_disk': changed}
    return infos


# ---------------------------------------------------------------- apply-level correspondence
LOW12 = (0x000, 0x7FE, 0x7FF, 0x800, 0x801, 0x802, 0xFFE, 0xFFF)
PAGES = (0, 1, 2, 5, 0x7FFFF, 0x80000)


def distance_pool(ctx, spec_w, scale, bias, n_rand, split=False):
    """boundary values derived from (field width, scale, bias): last accepted / first rejected on both sides of the
    signed range +-2^(w-1)*scale and of the lax range 2^w*scale (+-scale, +-2*scale, +-1); for hi/lo split classes also
    every page-carry pattern of the low 12 bits (0x7FF, 0x800, 0x801, 0xFFF, 0x000, ...) on several pages, both signs"""
    rng = ctx.rng
    out = set()
    if split:
        for page in PAGES:
            for low in LOW12:
                for sgn in (1, -1):
                    out.add(sgn * (page * 4096 + low) + bias)
        for _ in range(4):
            out.add(rng.choice((1, -1)) * (rng.randrange(1 << 19) * 4096 + rng.choice((0x7FE, 0x800, 0x802))) + bias)
    for k in (spec_w - 1, spec_w):
        for sgn in (1, -1):
            for d in (0, scale, -scale, 1, -1, 2 * scale, -2 * scale):
                out.add(sgn * (1 << k) * scale + d + bias)
    out.update([bias, bias + scale, bias - scale, bias + 1, 0, 4, -4, 2, -2, 8, 100, -100])
    lim = (1 << spec_w) * scale
    for _ in range(n_rand):
        out.add(rng.randrange(-lim, lim) // scale * scale + bias)
        out.add(rng.randrange(-lim // 2, lim // 2))
    return sorted(out)


WIDTHS = {   # kind -> (field width, scale, bias) used only to aim the generators at the range boundaries
    'RvBImm12': (12, 2, 0), 'RvBImm20': (20, 2, 0), 'RvAbs32Imm20': (32, 1, 0), 'RvRelImm20': (32, 1, 0),
    'RvAbs32Imm12': (32, 1, 0), 'RvRelImm12': (32, 1, 0), 'RvAbsAddr32': (32, 1, 0),
    'RvcCBImm11': (20, 2, 0), 'RvcCBlImm11': (20, 2, 0), 'RvcBcImm11': (11, 2, 0), 'RvcBcImm8': (8, 2, 0),
    'ArmImm24': (24, 4, 8), 'ArmRel8': (8, 2, 4), 'ArmLdrImm12': (12, 1, 8), 'ArmAdrImm12': (12, 1, 8),
    'ThLit8': (9, 4, 4), 'ThWrapNew11': (11, 2, 4), 'ThRel8': (8, 2, 4), 'ThBlImm11': (24, 2, 4),
    'ThBImm11Imm6': (20, 2, 4),
    'X86Rel32': (32, 1, 0), 'X86Abs32': (32, 1, 0), 'X86Jmp8': (8, 1, 1), 'X86Abs64': (64, 1, 0),
    'DataAbs16': (16, 1, 0), 'DataAbs32': (32, 1, 0), 'DataAbs64': (64, 1, 0),
}
ABSOLUTE = {'RvAbs32Imm20', 'RvAbs32Imm12', 'RvAbsAddr32', 'X86Abs32', 'X86Abs64', 'DataAbs16', 'DataAbs32', 'DataAbs64'}


def apply_cases(ctx, n_rand):
    rng = ctx.rng
    cases, recs = [], []
    for kind in KINDS:
        wd, scale, bias = WIDTHS[kind]
        size = KINDS[kind][4]
        for dist in distance_pool(ctx, wd, scale, bias, n_rand, split=kind in SPLIT):
            P = rng.choice([0, 4, 0x100, 0x1000, 0x10000, 0x8000000, 2, 6, 0x102, 1, 0x7ff])
            if rng.randrange(4):
                P = P // 4 * 4
            S = dist if kind in ABSOLUTE else P + dist
            A = rng.choice([0, 0, 0, -4, 4, 8])
            data = [rng.randrange(256) for _ in range(size)] if rng.randrange(3) else [0] * size
            out = rc.impl_apply(kind, A, S, data, P)
            term = rc.apply_term(kind, A, S, data, P)
            if kind == 'ThBlImm11' and SWITCH['bl_fixed']:
                term = 'apply_bl_fixed %s %s %s' % (w(S), to_term(list(data)), w(P))
            cases.append((term, out))
            recs.append((kind, A, S, data, P, out))
    return cases, recs


# ---------------------------------------------------------------- link-level: real linker vs spec oracle / model
FIELD_MASK = {   # bits of the little-endian instruction word a relocation may change
    'RvBImm12': 0xFE000F80, 'RvBImm20': 0xFFFFF000, 'RvcCBImm11': 0xFFFFF000, 'RvcCBlImm11': 0xFFFFF000,
    'RvcBcImm11': 0x1FFC, 'RvcBcImm8': 0x1C7C, 'ArmImm24': 0x00FFFFFF, 'ThWrapNew11': 0x7FF, 'ThRel8': 0xFF,
    'ThBlImm11': 0x2FFF07FF,     # S, imm10, imm11 and J1 (bit 29), J2 (bit 27) of encoding T1 'ThLit8': 0xFF, 'ArmLdrImm12': 0x00800FFF,
    'RvAbs32Imm20': 0xFFFFF000, 'RvRelImm20': 0xFFFFF000, 'RvAbs32Imm12': 0xFFF00000, 'RvRelImm12': 0xFFF00000,
}
TEMPLATES = {    # instruction templates the assembler emits (field bits zero)
    'RvBImm12': [0x63, 0x80, 0x20, 0x00], 'RvBImm20': [0xEF, 0, 0, 0], 'RvcCBImm11': [0x6F, 0, 0, 0],
    'RvcCBlImm11': [0xEF, 0, 0, 0], 'RvcBcImm11': [0x01, 0xA0], 'RvcBcImm8': [0x01, 0xC0],
    'ArmImm24': [0, 0, 0, 0xEB], 'ThWrapNew11': [0x00, 0xE0], 'ThRel8': [0x00, 0xD0], 'ThBlImm11': [0x00, 0xF0, 0x00, 0xF8],
    'ThLit8': [0x00, 0x48], 'ArmLdrImm12': [0x00, 0x00, 0x1F, 0xE5],
    'RvAbs32Imm20': [0xB7, 0x05, 0, 0], 'RvRelImm20': [0x97, 0x05, 0, 0], 'RvAbs32Imm12': [0x93, 0x85, 0x05, 0],
    'RvRelImm12': [0x93, 0x85, 0x05, 0],
}
PAIRS = {'RvAbs32Imm20': 'RvAbs32Imm12', 'RvRelImm20': 'RvRelImm12'}
SPLIT = set(PAIRS) | set(PAIRS.values())     # hi/lo split classes: page-carry pools (distance_pool(split=True))


def apply_oracle(kind, A, S, data, P, out):
    """spec verdict on one Relocation.apply outcome (used to turn a model/implementation disagreement into a
    concrete failing input): a record for verdict(), or None when the spec has nothing to say"""
    if not isinstance(out, OkV):
        return None
    size = KINDS[kind][4]
    rec = {'outcome': 'ok', 'addend': A, 'S': S, 'P': P}
    wd = rc.word(out.v)
    mask = FIELD_MASK.get(kind, (1 << (8 * size)) - 1)
    rec['frame_ok'] = (wd & ~mask) == (rc.word(data) & ~mask)
    hi = kind if kind in PAIRS else None
    lo = kind if kind in PAIRS.values() else None
    if hi or lo:
        hi = hi or [k for k, v in PAIRS.items() if v == lo][0]
        lo = PAIRS[hi]
        Phi = P if kind == hi else P - 4
        oh = out if kind == hi else rc.impl_apply(hi, A, S, TEMPLATES[hi], Phi)
        ol = out if kind == lo else rc.impl_apply(lo, A, S, TEMPLATES[lo], Phi + 4)
        if not (isinstance(oh, OkV) and isinstance(ol, OkV)):
            return None
        wh, wl = rc.word(oh.v), rc.word(ol.v)
        base = 0 if hi == 'RvAbs32Imm20' else Phi
        rec.update(reads=(base + rc.rv_u_imm(wh) + rc.rv_i_imm(wl)) % (1 << 32), expected=(S + A) % (1 << 32),
                   ignoring_addend=S % (1 << 32), fits=True)
        return rec
    sp = rc.single_specs().get(kind)
    if sp is None:
        return None
    rec.update(reads=sp['reads'](wd, P), expected=S + A, ignoring_addend=S, fits=sp['fits'](S, A, P))
    return rec


def make_linker_spy(relax=False):
    from ppci.binutils.linker import Linker

    class Spy(Linker):
        def do_relaxations(self):
            if relax:
                super().do_relaxations()

        def do_relocations(self):
            self.pre = snapshot(self.dst)
            super().do_relocations()
    return Spy


def snapshot(dst):
    return {'sections': [(s.name, s.address, list(s.data)) for s in dst.sections],
            'symbols': [(y.id, y.undefined, y.section, y.value) for y in dst.symbols],
            'relocations': [(r.reloc_type, r.symbol_id, r.section, r.offset, r.addend) for r in dst.relocations]}


def build_and_link(arch_name, relocs, code, target_off, P_base, S, absolute=False, relax=False):
    """one object: section 'code' (bytes `code`, relocations [(name, offset, addend)] all against symbol 't'),
    section 'tgt' holding 't' at target_off (or 't' absolute = S). Layout places code at P_base and tgt so that
    address(t) = S. Returns (spy linker, output object) or raises."""
    from ppci.api import get_arch
    from ppci.binutils.objectfile import ObjectFile, RelocationEntry
    from ppci.binutils.layout import Layout, Memory, Section as LSection
    arch = get_arch(arch_name)
    obj = ObjectFile(arch)
    cs = obj.create_section('code')
    cs.add_data(bytes(code))
    if absolute:
        obj.add_symbol(1, 't', 'global', None, None, 'object', 0)    # undefined here; defined by extra_symbols
    else:
        ts = obj.create_section('tgt')
        ts.add_data(bytes(target_off + 8))
        obj.add_symbol(1, 't', 'global', target_off, 'tgt', 'object', 0)
    for (name, off, addend) in relocs:
        obj.add_relocation(RelocationEntry(name, 1, 'code', off, addend))
    layout = Layout()
    m1 = Memory('m1')
    m1.location = P_base
    m1.size = 1 << 40
    m1.add_input(LSection('code'))
    mems = [m1]
    if not absolute:
        m2 = Memory('m2')
        m2.location = S - target_off
        m2.size = 1 << 40
        m2.add_input(LSection('tgt'))
        mems = [m1, m2] if m2.location >= P_base else [m2, m1]
    for m in mems:
        layout.add_memory(m)
    linker = make_linker_spy(relax)(arch, None)
    out = linker.link([obj], layout=layout, extra_symbols={'t': S} if absolute else None)
    return linker, out


def kind_term(sn_ids, snap):
    """Coq term: secs_out <$> do_relocations secs syms rels for a pre-relocation snapshot"""
    name2kind = {}
    secs = '[%s]' % '; '.join('mkSec %d %s %s' % (sn_ids[n], w(a), to_term(d)) for (n, a, d) in snap['sections'])
    syms = '[%s]' % '; '.join('mkSym %d %s %s %s' % (i, 'true' if u else 'false',
                                                     ('(Some %d)' % sn_ids[s]) if s is not None else 'None',
                                                     w(v if v is not None else 0))
                              for (i, u, s, v) in snap['symbols'])
    return secs, syms


def link_case(ctx, arch_name, kind, D, A, tmpl, pre_pad, rnd_tail):
    """returns a record: outcome of the real link and the oracle's verdict"""
    name = KINDS[kind][3]
    size = KINDS[kind][4]
    specs = rc.single_specs()
    absolute = kind in ABSOLUTE
    P_base = 1 << 33
    off = pre_pad
    code = [0x13, 0, 0, 0] * (pre_pad // 4) + list(tmpl) + list(rnd_tail)
    relocs = [(name, off, A)]
    pair = PAIRS.get(kind)
    if pair:
        code = [0x13, 0, 0, 0] * (pre_pad // 4) + list(tmpl) + list(TEMPLATES[pair]) + list(rnd_tail)
        relocs.append((KINDS[pair][3], off + 4, A))
    P = P_base + off
    S = D if absolute else P + D
    toff = S % 4 + 4 * (abs(D) % 3)       # the output section is 4-aligned: keep S - toff a multiple of 4
    rec = {'fn': 'link', 'arch': arch_name, 'reloc': name, 'distance': D, 'addend': A, 'template': list(tmpl),
           'offset_in_section': off, 'P': P, 'S': S}
    if S - toff < 0 and not absolute:
        return None
    try:
        linker, out = build_and_link(arch_name, relocs, code, toff, P_base, S, absolute)
    except Exception as ex:   # noqa: BLE001
        rec['outcome'] = 'error:' + type(ex).__name__
        return rec
    rec['outcome'] = 'ok'
    sec = out.get_section('code')
    data = list(sec.data)
    rec['snap'] = linker.pre
    rec['final'] = [(s.name, s.address, list(s.data)) for s in out.sections]
    wd = rc.word(data[off:off + size])
    tw = rc.word(tmpl)
    mask = FIELD_MASK.get(kind, (1 << (8 * size)) - 1)
    rec['frame_ok'] = (wd & ~mask) == (tw & ~mask) and data[:off] == code[:off] and \
        data[off + size * (2 if pair else 1):] == code[off + size * (2 if pair else 1):]
    if pair:
        wlo = rc.word(data[off + 4:off + 8])
        if kind == 'RvAbs32Imm20':
            got = (rc.rv_u_imm(wd) + rc.rv_i_imm(wlo)) % (1 << 32)
        else:
            got = (P + rc.rv_u_imm(wd) + rc.rv_i_imm(wlo)) % (1 << 32)
        rec['reads'] = got
        rec['expected'] = (S + A) % (1 << 32)
        rec['ignoring_addend'] = S % (1 << 32)
        rec['fits'] = True
    elif kind in specs:
        sp = specs[kind]
        rec['reads'] = sp['reads'](wd, P)
        rec['expected'] = S + A
        rec['ignoring_addend'] = S
        rec['fits'] = sp['fits'](S, A, P)
        rec['fits0'] = sp['fits'](S, 0, P)
    return rec


def verdict(kind, rec):
    """'ok' | 'known:range_lax' | 'known:addend_ignored' | 'known:thumb_bl' | 'strict' | 'violation:<what>'"""
    if rec['outcome'] != 'ok':
        return 'rejected_fits' if rec.get('fits_hint') else 'rejected'
    if 'reads' not in rec:
        return 'ok'
    if not rec['frame_ok']:
        return 'violation:bits outside the field changed'
    A = rec['addend']
    if rec['fits'] and rec['reads'] == rec['expected']:
        return 'ok'
    if A != 0 and kind != 'X86Rel32' and rec['reads'] == rec['ignoring_addend']:
        return 'known:addend_ignored'
    sp = rc.single_specs().get(kind)
    if sp and sp.get('pcrel') and not sp.get('unsigned') and not sp.get('signmag'):
        width, scale, bias = sp['width'], sp['scale'], sp['bias']
        d = rec['S'] + (A if kind == 'X86Rel32' else 0) - rec['P'] - bias
        span = (1 << width) * scale
        if kind == 'ThBlImm11':
            if abs(d) >= (1 << 22) and -(1 << 24) <= d < (1 << 24):
                return 'known:thumb_bl'
        elif kind not in LAX_WITNESS:
            pass        # classes that assert their exact range today: an accepted overflow is a new violation
        elif (1 << (width - 1)) * scale <= d < span and rec['reads'] ==rec['ignoring_addend'] - span + (A if kind == 'X86Rel32' else 0):
            return 'known:range_lax'
        elif kind in ('X86Rel32', 'X86Jmp8') and -span <= d < -(1 << (width - 1)) * scale and \
                rec['reads'] == rec['ignoring_addend'] + span + (A if kind == 'X86Rel32' else 0):
            return 'known:range_lax'
    if kind in ODD_SITE_KINDS and rec['P'] % 2 == 1 and rec['reads'] + ODD_SITE_KINDS[kind][1] == rec['ignoring_addend']:
        return 'known:misaligned_site'      # align(reloc_value, 2): an odd site address is silently rounded up
    if not rec['fits']:
        return 'violation:unrepresentable value accepted and decoded to another address'
    return 'violation:field decodes to %s, symbol is at %s' % (rec['reads'], rec['expected'])


LINK_KINDS = [('riscv', 'RvBImm12'), ('riscv', 'RvBImm20'), ('riscv', 'RvAbs32Imm20'), ('riscv', 'RvRelImm20'),
              ('riscv:rvc', 'RvcCBImm11'), ('riscv:rvc', 'RvcCBlImm11'), ('riscv:rvc', 'RvcBcImm11'),
              ('riscv:rvc', 'RvcBcImm8'), ('arm', 'ArmImm24'), ('arm', 'ArmLdrImm12'), ('arm:thumb', 'ThWrapNew11'),
              ('arm:thumb', 'ThRel8'), ('arm:thumb', 'ThBlImm11'), ('arm:thumb', 'ThLit8'), ('x86_64', 'X86Rel32'),
              ('x86_64', 'X86Jmp8'), ('x86_64', 'X86Abs32'), ('x86_64', 'X86Abs64'), ('x86_64', 'DataAbs32'),
              ('riscv', 'DataAbs32'), ('arm', 'DataAbs64'), ('x86_64', 'DataAbs16')]
LAX_WITNESS = {   # kind -> canonical distance S - P of the range finding (first unrepresentable positive value)
    'RvBImm12': 4100, 'RvBImm20': 1 << 20, 'RvcCBImm11': 1 << 20, 'RvcCBlImm11': 1 << 20, 'RvcBcImm11': 2048,
    'RvcBcImm8': 256, 'ArmImm24': (1 << 25) + 8, 'X86Rel32': 1 << 31, 'X86Jmp8': 128 + 1,
}


# classes computing align(reloc_value [+2], 2|4) (round UP) without checking the site address:
# kind -> (canonical (dS, dP) of the witness, reads deviation for an odd site)
ODD_SITE_KINDS = {'ThWrapNew11': ((0, 1), 1), 'ThRel8': ((0, 1), 1), 'ThBlImm11': ((0, 1), 1), 'ThLit8': ((0, -1), 4)}


def misaligned_triage(ctx):
    """deterministic: for every class with a spec, symbol and/or site address off the scale grid by 1 and 2 around
    several aligned distances. Every outcome class is decided here: rejected, exact (the class does not depend on the
    shifted quantity / shift is a multiple of its scale), or the listed finding (thumb: odd site address rounded up,
    distance silently truncated). Anything else is a violation."""
    specs = rc.single_specs()
    stats = {}
    for kind in KINDS:
        if kind not in specs and kind not in SPLIT:
            continue
        wd, scale, bias = WIDTHS[kind]
        size = KINDS[kind][4]
        tmpl = TEMPLATES.get(kind, [0] * size)
        st = stats.setdefault(kind, {})
        for base in (64, -64, 2040, -2040, 0x12340):
            for (dS, dP) in ((1, 0), (-1, 0), (2, 0), (0, 1), (0, -1), (0, 2), (1, 1), (-1, 1), (3, 0), (0, 3)):
                P = 0x100000 + dP
                S = (0x100000 + base + bias + dS) if kind not in ABSOLUTE else (0x2040 + abs(base) + dS)
                out = rc.impl_apply(kind, 0, S, tmpl, P)
                orec = apply_oracle(kind, 0, S, tmpl, P, out)
                v = 'rejected' if orec is None else verdict(kind, orec)
                st[v.split(':')[0] + (':' + v.split(':')[1] if v.startswith('known') else '')] = \
                    st.get(v.split(':')[0] + (':' + v.split(':')[1] if v.startswith('known') else ''), 0) + 1
                canon = kind in ODD_SITE_KINDS and base == 64 and (dS, dP) == ODD_SITE_KINDS[kind][0]
                if v.startswith('violation'):
                    ctx.violation({'fn': 'Relocation.apply', 'cls': KINDS[kind][2], 'reloc': KINDS[kind][3],
                                   'args': {'sym_value': S, 'data': list(tmpl), 'reloc_value': P, 'addend': 0},
                                   'reads': orec['reads'], 'expected': orec['expected'], 'what': v[10:],
                                   'key': 'misaligned:%s' % kind})
                elif canon and v == 'known:misaligned_site':
                    ctx.violation({'fn': 'reloc_apply', 'class': KINDS[kind][2], 'lax': 'misaligned-distance-truncated',
                                   'args': {'sym_value': S, 'data': list(tmpl), 'reloc_value': P, 'addend': 0},
                                   'result': list(out.v), 'reads': orec['reads'], 'expected': orec['expected'],
                                   'how_to_replay': '%s.%s(None).apply(%d, bytearray(%r), %d): site address odd, accepted, '
                                                    'encodes the distance from reloc_value+1'
                                                    % (KINDS[kind][1], KINDS[kind][2], S, list(tmpl), P)})
                elif canon:
                    st['canonical_witness_no_longer_fails'] = 1
    ctx.cov['stages']['misaligned_triage'] = stats


def known_entries():
    """the known-finding entries of C11 (DESIGN §6 items 23, 24 + Thumb BL), one per (class, witness)"""
    out = []
    for kind in ODD_SITE_KINDS:
        out.append({'property': 'C11', 'status': 'known',
                    'match': {'fn': 'reloc_apply', 'class': KINDS[kind][2], 'lax': 'misaligned-distance-truncated'},
                    'what': 'arm:thumb %s: an odd relocation site address is rounded up by align(reloc_value, 2) instead of '
                            'rejected; the odd distance S-P is silently truncated (field designates S from P+1)' % KINDS[kind][3]})
    for arch_name, kind in LINK_KINDS:
        name = KINDS[kind][3]
        wd, scale, bias = WIDTHS[kind]
        if kind in LAX_WITNESS:
            out.append({'property': 'C11', 'status': 'known',
                        'match': {'fn': 'link', 'arch': arch_name, 'reloc': name, 'kind': 'range_lax',
                                  'distance': LAX_WITNESS[kind], 'addend': 0},
                        'what': '%s %s: distance %d is not representable in the field but links and decodes as a '
                                'wrapped (negative) offset (wrap_negative / Token.__setitem__ accept [2^(w-1), 2^w))'
                                % (arch_name, name, LAX_WITNESS[kind])})
        if kind == 'ThBlImm11':
            out.append({'property': 'C11', 'status': 'known',
                        'match': {'fn': 'link', 'arch': arch_name, 'reloc': name, 'kind': 'thumb_bl',
                                  'distance': (1 << 22) + 4, 'addend': 0},
                        'what': 'arm:thumb bl_imm11: asserted range is +-16 MiB but J1/J2 are never written; with the '
                                'assembler template (J1=J2=1) a bl over >= 4 MiB links and decodes to another address'})
        if (kind != 'X86Rel32' and kind in rc.single_specs()) or kind in PAIRS:
            out.append({'property': 'C11', 'status': 'known',
                        'match': {'fn': 'link', 'arch': arch_name, 'reloc': name, 'kind': 'addend_ignored',
                                  'distance': (64 + bias) if kind not in ABSOLUTE else 0x1040, 'addend': 8},
                        'what': '%s %s: RelocationEntry.addend is ignored by calc/apply (field designates S, not S+8)'
                                % (arch_name, name)})
    return out


def link_search(ctx, n_rand):
    """real linker vs the spec decoders. Returns records for the model correspondence."""
    rng = ctx.rng
    stats = {}
    recs = []
    for arch_name, kind in LINK_KINDS:
        wd, scale, bias = WIDTHS[kind]
        size = KINDS[kind][4]
        tmpl = TEMPLATES.get(kind, [0] * size)
        st = stats.setdefault(kind, {})
        pool = []
        # canonical witnesses of the known findings, executed on every run
        if kind in LAX_WITNESS:
            pool.append((LAX_WITNESS[kind], 0, 'lax'))
        if kind == 'ThBlImm11':
            pool.append(((1 << 22) + 4, 0, 'bl'))
        if kind != 'X86Rel32' and kind in rc.single_specs() or kind in PAIRS:
            pool.append((64 + bias if kind not in ABSOLUTE else 0x1040, 8, 'addend'))
        for D in distance_pool(ctx, wd, scale, bias, n_rand, split=kind in SPLIT):
            pool.append((D, 0 if kind != 'X86Rel32' else -4, None))
        for _ in range(3):
            pool.append((rng.randrange(-(1 << (wd - 1)), 1 << (wd - 1)) // scale * scale + bias,
                         rng.choice([4, -4, 8]), None))
        for (D, A, canon) in pool:
            if kind in ABSOLUTE and D < 0:
                continue
            t = tmpl if rng.randrange(3) else [rng.randrange(256) for _ in range(size)]
            if canon or kind in ('ArmLdrImm12', 'ThBlImm11'):
                t = tmpl      # classes that OR into / do not write part of the field: assembler template only
            rec = link_case(ctx, arch_name, kind, D, A, t, 4 * rng.randrange(0, 4) if not canon else 4,
                            [rng.randrange(256) for _ in range(4)] if not canon else [0, 0, 0, 0])
            if rec is None:
                continue
            v = verdict(kind, rec)
            st[v.split(':')[0] + (':' + v.split(':')[1] if v.startswith('known') else '')] = \
                st.get(v.split(':')[0] + (':' + v.split(':')[1] if v.startswith('known') else ''), 0) + 1
            recs.append((kind, rec, v))
            pub = {k: rec[k] for k in ('fn', 'arch', 'reloc', 'distance', 'addend', 'template', 'offset_in_section', 'P', 'S')}
            pub['reads'] = rec.get('reads')
            pub['expected'] = rec.get('expected')
            pub['how_to_replay'] = ('tools/props/c11.py build_and_link(%r, [(%r, %d, %d)], code, toff, 1<<33, S=%d): '
                                    'ObjectFile with section code at 2^33, symbol t at S; ppci.api.link with that Layout; '
                                    'decode bytes at offset %d of section code with reloc_common.single_specs()[%r]'
                                    % (arch_name, rec['reloc'], rec['offset_in_section'], A, rec['S'],
                                       rec['offset_in_section'], kind))
            if v.startswith('violation'):
                pub['kind'] = 'wrong_target'
                pub['what'] = v[len('violation:'):]
                pub['key'] = '%s:%s' % (kind, pub['what'][:40])
                ctx.violation(pub)
            elif canon and v.startswith('known'):
                pub['kind'] = v[len('known:'):]
                ctx.violation(pub)     # printed as KNOWN-FINDING when known_findings.json has the entry
            elif canon:
                st['canonical_witness_no_longer_fails'] = st.get('canonical_witness_no_longer_fails', 0) + 1
    ctx.cov['stages']['link_search'] = stats
    ctx.cov['evaluations'] += len(recs)
    return recs


def link_model_cases(recs, limit):
    """model do_relocations vs the real linker on the pre-relocation snapshots of successful/failed links"""
    cases, meta = [], []
    name2kind = {}
    for k, (an, mod, cn, nm, sz) in KINDS.items():
        if nm:
            name2kind.setdefault((an, nm), k)
    for kind, rec, v in recs:
        if 'snap' not in rec:
            continue
        if kind == 'ThBlImm11' and SWITCH['bl_fixed']:
            continue      # Model.Reloc.do_relocation uses the unrepaired bl body; the repaired one is Model.RelocFix
        snap = rec['snap']
        ids = {n: i + 1 for i, (n, _, _) in enumerate(snap['sections'])}
        secs, syms = kind_term(ids, snap)
        rels = []
        okk = True
        for (t, sid, sn, off, add) in snap['relocations']:
            kk = name2kind.get((rec['arch'], t)) or name2kind.get(('x86_64', t))
            if kk is None:
                okk = False
                break
            rels.append('mkRel %s %d %d %s %s' % (kk, sid, ids[sn], w(off), w(add)))
        if not okk:
            continue
        term = 'match do_relocations %s %s [%s] with Ok s => Ok (secs_out s) | Diag c => Diag c | Internal e => Internal e | OutOfFuel => OutOfFuel end' % (
            secs, syms, '; '.join(rels))
        final = [(ids[n], a, d) for (n, a, d) in rec['final']]
        cases.append((term, OkV([tuple(x) for x in final])))
        meta.append((kind, rec['distance'], rec['addend']))
        if len(cases) >= limit:
            break
    return cases, meta


def run(ctx):
    rows = regen(ctx)
    ctx.cov['stages']['reloc_table'] = {
        'classes': len({r['cls'] for r in rows}),
        'modelled': sorted({r['cls'] for r in rows if r['kind']}),
        'not_covered': sorted({r['cls'] for r in rows if not r['kind']})}
    if ctx.build(['Model/Reloc.vo', 'Model/RelocFix.vo', 'Lib/Val.vo'])[0]:
        cases, recs = apply_cases(ctx, 6 if ctx.quick() else 40)
        bad = ctx.run_cases('apply', ['Model.Reloc', 'Model.RelocFix'], cases)
        if bad:
            for i in bad[:8]:
                ctx.log('apply model/implementation disagree', recs[i][:5], 'impl=',
                        recs[i][5].v if isinstance(recs[i][5], OkV) else recs[i][5].__name__)
            ctx.failed_stages.append(('correspondence', 'Model.Reloc.apply disagrees with the implementation on %d cases, first %r'
                                      % (len(bad), recs[bad[0]][:5])))
        # spec oracle on every successful apply (independent of the model): concrete failing inputs
        n_or = 0
        for (kind, A, S, data, P, out) in recs:
            if kind in ('ArmLdrImm12', 'ThBlImm11'):
                continue      # OR-ing / partial classes: judged at link level with the assembler template only
            if kind in ABSOLUTE and S < 0:
                continue      # negative absolute addresses are not linker inputs (Token laxness on negatives is C10's finding)
            orec = apply_oracle(kind, A, S, data, P, out)
            if orec is None:
                continue
            n_or += 1
            v = verdict(kind, orec)
            if v.startswith('violation'):
                ctx.violation({'fn': 'Relocation.apply', 'reloc': KINDS[kind][3], 'arch': KINDS[kind][0], 'cls': KINDS[kind][2],
                               'args': {'sym_value': S, 'data': list(data), 'reloc_value': P, 'addend': A},
                               'distance': S - P, 'result': list(out.v), 'reads': orec['reads'], 'expected': orec['expected'],
                               'what': v[len('violation:'):], 'key': 'apply:%s' % kind,
                               'how_to_replay': '%s.%s(None, addend=%d).apply(%d, bytearray(%r), %d); decode with '
                                                'tools/props/reloc_common.py (pairs: lo half applied to its template at P+4)'
                                                % (KINDS[kind][1], KINDS[kind][2], A, S, list(data), P)})
        ctx.cov['stages']['apply_oracle_evaluations'] = n_or
        misaligned_triage(ctx)
        # generic, model-free boundary stage over EVERY relocation class of EVERY architecture (shared with C10)
        from props import c11_bounds
        c11_bounds.reloc_boundary_stage(ctx)
        dist = {}
        for r in recs:
            d = dist.setdefault(r[0], {'ok': 0, 'diag': 0, 'internal': 0})
            d['ok' if isinstance(r[5], OkV) else ('diag' if r[5] is Diag else 'internal')] += 1
        ctx.cov['stages']['apply_distribution'] = dist
        ctx.cov['distinct_nontrivial'] += sum(1 for r in recs if isinstance(r[5], OkV) and r[2] != r[4])
    # ---- proofs
    ok, _ = ctx.build(['Proofs/C11_final.vo', 'Proofs/C11_tie.vo', 'Proofs/C11_relocs3.vo', 'Proofs/C11_relocs4.vo',
                       'Proofs/C11_blfix.vo'])
    if ok:
        ctx.check_props('Props/C11.v')
    # ---- search through the real linker (always; deeper when something failed or tier is thorough)
    deep = (not ctx.quick()) or bool(ctx.failed_stages)
    lrecs = link_search(ctx, 40 if deep else 5)
    ctx.cov['distinct_nontrivial'] += sum(1 for (_, r, _) in lrecs if r['outcome'] == 'ok' and r['distance'] != 0)
    for (k, r, v) in lrecs[:: max(1, len(lrecs) // 6)]:
        ctx.note_sample({'reloc': r['reloc'], 'arch': r['arch'], 'distance': r['distance'], 'addend': r['addend'],
                         'outcome': r['outcome'], 'verdict': v})
    # ---- model of Linker.do_relocations vs the real linker on the same pre-relocation states
    cases, meta = link_model_cases(lrecs, 1500 if deep else 400)
    if cases:
        bad = ctx.run_cases('dorel', ['Model.Reloc'], cases)
        if bad:
            ctx.log('do_relocations model/implementation disagree on', [meta[i] for i in bad[:6]])
            ctx.failed_stages.append(('correspondence', 'Model.Reloc.do_relocations disagrees with the real linker on %d links, first %r'
                                      % (len(bad), meta[bad[0]])))
    ctx.cov['exhaustive'] = False


def search(ctx):
    from vlib import ensure_repo_on_path
    ensure_repo_on_path()
    link_search(ctx, 40)
