"""C07 (partial: RISC-V RV32I/M base) — instruction read/write annotations match machine semantics.

tie I: the Operand(read=, write=) flags of every traced riscv instruction class are exported
(aligned with C08's table_riscv) together with the call instruction as RiscvArch.gen_call builds it
(used_registers / defined_registers / clobbers of the real instances) -> coq/Gen/Tab_rv_rw.v.
Coq proves, against the independent ISA semantics Spec/RV32Exec.v, that for every covered class the
registers the decoded instruction can change are among the declared defs and that its effect depends
only on the declared uses, pc and memory (Props/C07.v).  Correspondence: the real
used_registers / defined_registers of instantiated instructions against Model/RvRW.v on the table.
Search: Python twin of RV32Exec (tools/rv32_py.py) executes the real encode() bytes on random states.
"""
import os
import sys

sys.path.insert(0, os.path.join(os.path.dirname(os.path.abspath(__file__)), '..'))
import rv32_py as RV   # noqa: E402

LEVEL = 'other'
RULE = ('correspondence cases: every class of table_riscv instantiated with distinct register operands (quick 6, thorough 40 '
        'random operand tuples per class) -> real used_registers/defined_registers vs the exported flags; non-trivial = class '
        'with at least one register operand.  search: the real encode() bytes of every covered class executed by the Python '
        'twin of RV32Exec on random states (frame) and on state pairs that differ only in one undeclared register (reads)')
EXPLANATION = ('UPDATE: the table theorems are now UNCONDITIONAL (c07_rv_frame_reads_full composes with C08\'s unbounded '
               'c08_rv_reference for all in-range operands); RV32C: Spec/RVCExec.v defines exec16 by expansion, its ISA-side frame/'
               'reads theorems are proved, the RVC class flags are checked by the oracle only (class table on C08\'s agreement '
               'domain + every 2-byte instance of generated code; implicit x2 / x1 of the sp- and link-forms accepted). '
               'ORIGINAL TEXT: '
               'PARTIAL: RISC-V RV32I + M base classes only (those C08 gives an RV32 expectation: R/I/S/B/U/J formats incl. the '
               'pseudo forms mv/nop/j/bgt/ble/bgtu/bleu and the label-bearing lui/auipc/addi/lw/jal forms). Unbounded in machine '
               'state and operand values GIVEN the decode agreement of C08 at those operands (C08 proves that agreement on its '
               'bounded operand domain; the _bounded theorems compose the two). NOT covered: CSR/system classes (csr*, mret, '
               'rdcycle.., ebreak/ecall), data directives, RVC, the F extension, the callee side of a call (what the called '
               'function clobbers is a calling-convention matter: only the exported caller_save/callee_save/allocatable '
               'partition is checked), and every other target (arm, thumb, m68k, mips, x86_64: no formal ISA semantics here).')
TRUSTED = ['coq/Spec/RV32Exec.v + RV32Decode.v (my reading of the RISC-V unprivileged ISA manual; no emulator to compare with)',
           'tools/props/c07.py exporter of the Operand flags (cross-checked on every run against used_registers/'
           'defined_registers of real instances)',
           'tools/props/c08_trace.py (descriptor table shared with C08)']
ASSUMPTIONS = ['label/relocation forms (Bl, B, branches, Adru/Adrl, Adrurel/Adrlrel/Loadlrel): the Coq theorems quantify over ALL '
               'operand values and all byte strings that decode to the printed instruction, so the relocated immediate is an '
               'arbitrary operand; the oracle executes them with the real relocation applied (symbol 0x107f4, instruction 0x10000)',
               'Loadlrel (not well-formed in C08: rd named twice) is covered through nonwf_riscv (c07_rv_frame_reads_nonwf)',
               'instance stage: every instruction instance emitted for a C program + generated IR functions (riscv and riscv:rvc, after '
               'register allocation, pseudo instructions rendered) is executed against its own used/defined registers; 16-bit RVC '
               'instances are recorded in evidence as seen-but-not-executable (no RVC semantics here)',
               'the per-operand theorems assume the C08 decode agreement at the operand tuple (proved by C08 on rv_domain)']

COVER_NOTE = 'RISC-V RV32IM base only; no RVC, no F, no CSR/system; no other targets'


# ------------------------------------------------------------------ python twin of the Coq check
FMT_ROLES = {}
for _mn in ('lui', 'auipc', 'jal'):
    FMT_ROLES[_mn] = 'WI'
for _mn in ('jalr',) + RV.I_OPS:
    FMT_ROLES[_mn] = 'WRI'
for _mn in RV.BR:
    FMT_ROLES[_mn] = 'RRI'
for _mn in RV.LOADS:
    FMT_ROLES[_mn] = 'WIR'
for _mn in RV.STORES:
    FMT_ROLES[_mn] = 'RIR'
for _mn in RV.R_OPS.values():
    FMT_ROLES[_mn] = 'WRR'


def class_flags(d):
    """[(name, isreg, read, write)] of the leaf operands of the class behind descriptor d (syntax order)"""
    from ppci.arch.registers import Register
    fas = d['pycls'].syntax.formal_arguments
    out = []
    for fa in fas:
        c = fa._cls
        isreg = isinstance(c, type) and issubclass(c, Register)
        out.append((fa._name, isreg, bool(fa._read), bool(fa._write)))
    return out


def py_class_ok(flags, exp):
    """twin of Proofs/C07_rv.v class_ok; returns None if ok else (role, position) of the first undeclared access"""
    if exp is None:
        return None
    roles = FMT_ROLES.get(exp[0])
    if roles is None:
        return None if exp[0] in ('ecall', 'ebreak') else ('fmt', 0)
    if len(roles) != len(exp[1]):
        return ('arity', 0)
    for k, (ro, vs) in enumerate(zip(roles, exp[1])):
        if ro == 'I':
            continue
        if vs[0] == 'const':
            if vs[1] != 0:
                return (ro, k)
            continue
        if vs[0] != 'op':
            return (ro, k)
        i = vs[1]
        if i >= len(flags) or not flags[i][1] or not flags[i][3 if ro == 'W' else 2]:
            return (ro, k)
    return None


def is_covered(d, c08):
    if d['tokens'] != [(32, False)]:
        return None
    exp = c08.rv_expect(d['syntax'][0], len(d['ops']))
    if exp is None or exp[0] not in FMT_ROLES:
        return None
    return exp


class DummyFrame:
    def __init__(self):
        self.out_calls = []
        self.stacksize = 0
        self.n = 0

    def add_out_call(self, size):
        self.out_calls.append(size)

    def new_reg(self, cls, twain=''):
        self.n += 1
        return cls('vreg%d' % self.n)


def call_rows():
    """instructions of RiscvArch.gen_call for a call with 8 i32 arguments and an i32 result, arguments held in
    real registers; -> (rows [(class, [operand numbers], uses, defs, clobbers)], arch facts)"""
    from ppci.api import get_arch
    from ppci import ir
    from ppci.arch.riscv import registers as R
    from ppci.arch.encoding import Instruction
    from ppci.arch.generic_instructions import VirtualInstruction
    arch = get_arch('riscv')
    srcs = [R.get_register(n) for n in (18, 19, 20, 21, 22, 23, 24, 25)]
    args = [(ir.i32, r) for r in srcs]
    rows = []
    for ins in arch.gen_call(DummyFrame(), 'callee', args, (ir.i32, R.get_register(26))):
        if isinstance(ins, VirtualInstruction) or not isinstance(ins, Instruction):
            continue
        ops = []
        for fa in type(ins).syntax.formal_arguments:
            v = getattr(ins, fa._name)
            ops.append(v.num if hasattr(v, 'num') else (v if isinstance(v, int) else 0))
        rows.append((type(ins).__name__, ops, [r.num for r in ins.used_registers], [r.num for r in ins.defined_registers],
                     [r.num for r in ins.clobbers]))
    alloc = sorted({r.num for rc in arch.info.register_classes for r in rc.registers
                    if isinstance(r, R.RiscvRegister)})
    facts = dict(alloc=alloc, callee=[r.num for r in arch.callee_save], caller=[r.num for r in arch.caller_save],
                 arg_regs=[l.num for l in arch.determine_arg_locations([ir.i32] * 6)],
                 rv=arch.determine_rv_location(ir.i32).num)
    return rows, facts


def call_rows_bad(crow, good, T):
    """twin of Proofs/C07_rv.v callrow_ok on the exported rows -> [(row index, reason)]"""
    out = []
    for k, (cls, ops, uses, defs, clob) in enumerate(crow):
        d = next((x for x in good if x['cls'] == cls), None)
        if d is None:
            out.append((k, 'class not in table'))
            continue
        try:
            dec = RV.decode(list(bytes(T.instantiate(d['pycls'], d['vindex'], ops).encode())))
        except Exception as ex:   # noqa: BLE001
            out.append((k, 'encode: %s' % ex))
            continue
        roles = FMT_ROLES.get(dec[0]) if dec else None
        if roles is None:
            out.append((k, 'not an RV32I/M instruction'))
            continue
        w = [a for ro, a in zip(roles, dec[1]) if ro == 'W']
        r = [a for ro, a in zip(roles, dec[1]) if ro == 'R']
        if any(x != 0 and x not in defs + clob for x in w):
            out.append((k, 'writes x%s, declared defs+clobbers %s' % (w, defs + clob)))
        elif any(x != 0 and x not in uses for x in r):
            out.append((k, 'reads x%s, declared uses %s' % (r, uses)))
    return out


def zl(l):
    return '[' + '; '.join(str(x) if x >= 0 else '(%d)' % x for x in l) + ']'


def export(ctx):
    from props import c08, c08_trace as T
    descs, custom, skipped, ntotal = T.export_arch('riscv')
    text, good, bad, ov = T.render_arch('riscv', descs, custom)
    rvbad = c08.rv_disagreements(ctx, T, good)
    text += ('(* table entries on which the independent RV32 reference disagrees, with a witness operand tuple *)\n'
             'Definition rvref_bad_riscv : list (nat * list Z) := [%s].\n' % '; '.join(
                 '(%d%%nat, [%s])' % (i, '; '.join(T.cz(v) for v in ops)) for i, ops, _ in rvbad))
    ctx.write_gen('Tab_isa_riscv', text)
    rows, rwbad = [], []
    for n, d in enumerate(good):
        fl = class_flags(d)
        if [f[0] for f in fl] != [o['name'] for o in d['ops']]:
            ctx.failed_stages.append(('export', 'operand list of %s differs between C08 descriptor and syntax' % d['cls']))
        exp = is_covered(d, c08)
        why = py_class_ok(fl, exp)
        if why is not None:
            rwbad.append((n, why))
        rows.append((d['cls'], fl))
    # traced classes outside C08's well-formed table (e.g. Loadlrel, whose syntax names rd twice)
    nrows, nbad = [], []
    for n, d in enumerate(bad):
        fl = class_flags(d)
        why = py_class_ok(fl, is_covered(d, c08))
        if why is not None:
            nbad.append((n, why))
        nrows.append((d['cls'], fl))
    crow, facts = call_rows()
    callbad = call_rows_bad(crow, good, T)
    b = lambda x: 'true' if x else 'false'   # noqa: E731
    out = ['(* generated by tools/props/c07.py from the riscv instruction classes of ppci — do not edit *)',
           'From PV Require Import Model.RvRW.', 'From Coq Require Import ZArith List String.', 'Import ListNotations.',
           'Open Scope Z_scope.', 'Local Open Scope string_scope.',
           '(* entry n belongs to entry n of Gen.Tab_isa_riscv.table_riscv *)',
           'Definition rw_riscv : list rwclass := [\n  %s].' % ';\n  '.join(
               '(%s, [%s])' % (T.cstr(c), '; '.join('mkRW %s %s %s %s' % (T.cstr(nm), b(r), b(rd), b(wr)) for nm, r, rd, wr in fl))
               for c, fl in rows),
           '(* covered classes whose flags do not declare an access the ISA semantics performs *)',
           'Definition rw_bad_riscv : list nat := [%s]%%nat.' % '; '.join(str(n) for n, _ in rwbad),
           '(* entry n belongs to entry n of Gen.Tab_isa_riscv.nonwf_riscv *)',
           'Definition rw_nonwf_riscv : list rwclass := [\n  %s].' % ';\n  '.join(
               '(%s, [%s])' % (T.cstr(c), '; '.join('mkRW %s %s %s %s' % (T.cstr(nm), b(r), b(rd), b(wr)) for nm, r, rd, wr in fl))
               for c, fl in nrows),
           'Definition rw_nonwf_bad_riscv : list nat := [%s]%%nat.' % '; '.join(str(n) for n, _ in nbad),
           '(* the real instructions of RiscvArch.gen_call (8 i32 arguments in x18..x25, i32 result to x26) *)',
           'Definition rw_calls_riscv : list callrow := [\n  %s].' % ';\n  '.join(
               'mkCall %s %s %s %s %s' % (T.cstr(c), zl(o), zl(u), zl(dd), zl(cl)) for c, o, u, dd, cl in crow),
           '(* rows whose real uses/defs/clobbers do not cover what the executed instruction reads/writes *)',
           'Definition rw_calls_bad_riscv : list nat := [%s]%%nat.' % '; '.join(str(k) for k, _ in callbad),
           'Definition rv_alloc_regs : list Z := %s.' % zl(facts['alloc']),
           'Definition rv_callee_save : list Z := %s.' % zl(facts['callee']),
           'Definition rv_caller_save : list Z := %s.' % zl(facts['caller']),
           'Definition rv_arg_regs : list Z := %s.' % zl(facts['arg_regs']),
           'Definition rv_ret_reg : Z := %d.' % facts['rv']]
    ctx.write_gen('Tab_rv_rw', '\n'.join(out) + '\n')
    return dict(T=T, c08=c08, good=good, rows=rows, rwbad=rwbad, calls=crow, callbad=callbad, facts=facts,
                bad=bad, nrows=nrows, nbad=nbad,
                nonwf=[d['cls'] for d in bad], custom=[c for c, _ in custom], skipped=skipped)


def regen(ctx):
    return export(ctx)


# ------------------------------------------------------------------ helpers for correspondence / search
def rand_ops(rng, d):
    ops = []
    byname = {}
    for o in d['ops']:
        if o['kind'] == 'reg' and o['name'] in byname:
            ops.append(byname[o['name']])      # an operand named twice in the syntax is one attribute
        elif o['kind'] == 'reg':
            ops.append(rng.choice(o['nums']))
            byname[o['name']] = ops[-1]
        elif o['kind'] == 'imm':
            lo, hi = (-(1 << (o['width'] - 1)), 1 << (o['width'] - 1)) if o['signed'] and o['width'] >= 1 else (0, 1 << o['width'])
            ops.append((rng.randrange(lo, hi) + o['sub']) * o['div'])
        else:
            ops.append(0)
    return ops


def rand_state(rng):
    pool = [0, 1, 2, 31, 32, 0x7fffffff, 0x80000000, 0xffffffff, 0xfffffffe, 0x80000001]
    regs = [rng.choice(pool) if rng.random() < 0.3 else rng.getrandbits(32) for _ in range(32)]
    mem = {}
    st = RV.State(regs, pc=rng.choice([0x1000, 0x80000000, 0xfffffffc, 4 * rng.getrandbits(20)]), mem=mem)
    st.default_seed = rng.getrandbits(30)
    return st


class HashedMem(dict):
    """memory whose untouched bytes are a fixed pseudo-random function of the address"""
    def __init__(self, seed):
        super().__init__()
        self.seed = seed

    def get(self, a, default=0):
        if a in self:
            return self[a]
        return (a * 2654435761 + self.seed * 40503 + (a >> 7)) & 255


def state_pair_obs(s):
    return (tuple(s.regs), s.pc, tuple(sorted(s.mem.items())))


# registers the ISA documents as implicit state of a compressed form (stack pointer x2; link register x1)
RVC_IMPLICIT = {'c.addi16sp': {2}, 'c.addi4spn': {2}, 'c.lwsp': {2}, 'c.swsp': {2}, 'c.jal': {1}, 'c.jalr': {1}}

SYM_ADDR, INS_ADDR = 0x000107f4, 0x00010000     # distance fits the B-type range


def relocated_bytes(ins, sym=SYM_ADDR, pc=INS_ADDR):
    """encode() bytes with the instruction's relocations applied the way the linker does (symbol at sym, instruction at pc)"""
    bs = bytes(ins.encode())
    try:
        relocs = list(ins.relocations())
    except Exception:   # noqa: BLE001
        relocs = []
    for r in relocs:
        bs = bytes(r.apply(sym, bytearray(bs), pc + getattr(r, 'offset', 0)))
    return bs, bool(relocs)


def regnums(regs):
    out = set()
    for r in regs:
        n = getattr(r, 'num', None)
        if n is None:
            n = getattr(r, 'color', None)
        if isinstance(n, int):
            out.add(n)
    return out


def run_dec(dec, s, ilen=4):
    """execute one decoded instruction, or a rendered sequence [(decoded, ilen), ...] in order"""
    if isinstance(dec, list):
        for d1, l1 in dec:
            RV.exec1(d1, s, l1)
    else:
        RV.exec1(dec, s, ilen)


def dec_repr(dec):
    return [[d1[0], d1[1]] for d1, _l in dec] if isinstance(dec, list) else [dec[0], dec[1]]


def decode_any(bs):
    """-> (decoded base instruction, length, implicit registers) or None"""
    if len(bs) == 4:
        d = RV.decode(list(bs))
        return (d, 4, set()) if d and d[0] in FMT_ROLES else None
    if len(bs) == 2:
        from props import c08
        d16 = c08.rvc_decode16(list(bs))
        d = RV.expand16((d16[0], list(d16[1]))) if d16 else None
        return (d, 2, RVC_IMPLICIT.get(d16[0], set())) if d and d[0] in FMT_ROLES else None
    return None


def pseudo_classes():
    """riscv / riscv:rvc instruction classes that define render() (pseudo instructions expanded after selection);
    found by introspection of the riscv instruction modules (the rvc pseudo classes are not registered in an isa)"""
    import importlib
    from ppci.arch.generic_instructions import ArtificialInstruction
    out, seen = [], set()
    for mod in ('instructions', 'rvc_instructions', 'rvf_instructions', 'rvfx_instructions'):
        try:
            m = importlib.import_module('ppci.arch.riscv.' + mod)
        except Exception:   # noqa: BLE001
            continue
        for c in vars(m).values():
            if not (isinstance(c, type) and issubclass(c, ArtificialInstruction)) or id(c) in seen:
                continue
            seen.add(id(c))
            if getattr(c, 'syntax', None) is None or not any('render' in vars(k) for k in c.__mro__ if k.__module__.startswith('ppci.arch.riscv')):
                continue
            out.append(c)
    return out


def pseudo_stage(ctx):
    """declared used/defined registers of every pseudo instruction against the semantics of the sequence it renders to"""
    from ppci.arch.registers import Register
    from ppci.arch.encoding import Instruction
    from ppci.arch.generic_instructions import ArtificialInstruction
    from ppci.arch.riscv import registers as Rg
    rng = ctx.rng
    regsets = [(8, 8, 8), (8, 9, 10), (9, 8, 9), (15, 14, 15), (8, 20, 9), (20, 8, 21), (5, 6, 7), (10, 10, 11), (12, 13, 12)]
    imms = [0, 1, 15, 16, 31, 2047, 2048, -1, -2048, -2049, 100000]
    stats, n_eval = {}, 0
    for cls in pseudo_classes():
        fas = cls.syntax.formal_arguments
        kinds = []
        for fa in fas:
            c = fa._cls
            kinds.append('reg' if isinstance(c, type) and issubclass(c, Register) else 'imm' if c is int else 'str' if c is str else None)
        if None in kinds or not all((k != 'reg') or issubclass(fa._cls, Rg.RiscvRegister) for k, fa in zip(kinds, fas)):
            stats[cls.__name__] = 'operand kinds not supported'
            continue
        checked = 0
        hit = False
        for rs in regsets:
            for imm in (imms if 'imm' in kinds else [0]):
                it = iter(rs)
                args = [Rg.get_register(next(it)) if k == 'reg' else imm if k == 'imm' else 'L' for k in kinds]
                try:
                    ins = cls(*args)
                    seq = []

                    def add(x, depth=0):
                        if isinstance(x, ArtificialInstruction) and depth < 4:
                            for y in x.render():
                                add(y, depth + 1)
                        elif isinstance(x, Instruction) and getattr(type(x), 'tokens', None):
                            seq.append(x)
                    add(ins)
                    dec, implicit, bts = [], set(), []
                    for x in seq:
                        bs, _rel = relocated_bytes(x)
                        d = decode_any(bs)
                        if d is None:
                            raise ValueError('undecodable %s' % type(x).__name__)
                        dec.append((d[0], d[1]))
                        implicit |= d[2]
                        bts.append(bs.hex())
                    uses = regnums(ins.used_registers)
                    defs = regnums(ins.defined_registers) | regnums(ins.clobbers)
                except Exception:   # noqa: BLE001  (operands the pseudo instruction or its expansion cannot encode)
                    continue
                if not dec:
                    continue
                checked += 1
                ops = [a.num if hasattr(a, 'num') else a for a in args]
                k, hit = exec_checks(ctx, rng, dec, uses | implicit, defs | implicit, 3,
                                     dict(cls=cls.__name__, printed='%s%r renders to %s' % (cls.__name__, ops, [type(x).__name__ for x in seq]),
                                          bytes=' '.join(bts), ops=ops, where='pseudo instruction render()'), pc=INS_ADDR)
                n_eval += k
                if hit:
                    break
            if hit:
                break
        stats[cls.__name__] = checked
    ctx.cov['stages']['pseudo_render'] = {'classes': stats, 'executions': n_eval}
    ctx.cov['evaluations'] += n_eval


def exec_checks(ctx, rng, dec, uses, defs, n_st, meta, pc=None, ilen=4):
    """frame + non-interference of one decoded instruction against declared uses/defs on n_st random states.
    meta: dict(cls, printed, bytes, ops, where).  Returns (evaluations, violation reported?)"""
    n_eval = 0
    for _k in range(n_st):
        s0 = rand_state(rng)
        if pc is not None:
            s0.pc = pc
        s0.mem = HashedMem(rng.getrandbits(20))
        s1 = s0.copy()
        s1.mem = HashedMem(s0.mem.seed)
        run_dec(dec, s1, ilen)
        n_eval += 1
        state = {'regs': s0.regs, 'pc': s0.pc, 'mem': 'byte(a) = (a*2654435761 + %d*40503 + (a>>7)) & 255' % s0.mem.seed}
        undeclared = [r for r in range(32) if s0.regs[r] != s1.regs[r] and r not in defs]
        if undeclared:
            ctx.violation({'fn': 'defined_registers', 'class': meta['cls'], 'args': meta['ops'], 'printed': meta['printed'],
                           'bytes': meta['bytes'], 'decoded': dec_repr(dec), 'where': meta['where'],
                           'key': 'frame:%s' % meta['cls'],
                           'what': 'executing the instruction changes register(s) x%s which it does not declare as written'
                                   % ',x'.join(map(str, undeclared)),
                           'expected': 'changed registers within defined_registers+clobbers %s' % sorted(defs),
                           'actual': {'x%d' % r: [s0.regs[r], s1.regs[r]] for r in undeclared}, 'state': state,
                           'how_to_replay': replay_cmd(meta['cls'], meta['ops'])})
            return n_eval, True
        cand = [r for r in range(1, 32) if r not in uses]
        named = [r for d1 in (dec if isinstance(dec, list) else [(dec, ilen)]) for r in d1[0][1][:3]
                 if isinstance(r, int) and 0 < r < 32 and r not in uses]
        r = rng.choice(named) if named and rng.random() < 0.8 else rng.choice(cand)
        s2 = s0.copy()
        s2.mem = HashedMem(s0.mem.seed)
        s2.regs[r] = RV.u32(s0.regs[r] ^ rng.choice([1, 0x80000000, 0xffffffff, rng.getrandbits(32) | 1]))
        s3 = s2.copy()
        s3.mem = HashedMem(s0.mem.seed)
        run_dec(dec, s3, ilen)
        n_eval += 1
        diff = ['x%d' % q for q in range(32)
                if s1.regs[q] != s3.regs[q] and not (s1.regs[q] == s0.regs[q] and s3.regs[q] == s2.regs[q])]
        if s1.pc != s3.pc:
            diff.append('pc')
        if dict(s1.mem) != dict(s3.mem):
            diff.append('mem')
        if diff:
            def obs(s, q):
                return s.pc if q == 'pc' else (s.regs[int(q[1:])] if q[0] == 'x' else sorted(dict(s.mem).items()))
            ctx.violation({'fn': 'used_registers', 'class': meta['cls'], 'args': meta['ops'], 'printed': meta['printed'],
                           'bytes': meta['bytes'], 'decoded': dec_repr(dec), 'where': meta['where'], 'key': 'reads:%s' % meta['cls'],
                           'what': 'two states that differ only in x%d (not in used_registers %s) give different %s'
                                   % (r, sorted(uses), ','.join(diff)),
                           'expected': 'results independent of undeclared register x%d' % r,
                           'actual': {'x%d' % r: [s0.regs[r], s2.regs[r]], 'after': {q: [obs(s1, q), obs(s3, q)] for q in diff}},
                           'state': state, 'how_to_replay': replay_cmd(meta['cls'], meta['ops'])})
            return n_eval, True
    return n_eval, False


def search(ctx, info=None, deep=True):
    """frame / non-interference of the real (relocated) bytes of every traced class - the well-formed table and the
    classes C08 lists as not well-formed - under the Python twin of RV32Exec"""
    if info is None:
        info = export(ctx)
    T, c08 = info['T'], info['c08']
    rng = ctx.rng
    n_ops, n_st = (12, 6) if deep else (4, 3)
    n_eval = 0
    reloc_classes = set()
    for d in list(info['good']) + list(info['bad']):
        if is_covered(d, c08) is None:
            continue
        for _ in range(n_ops):
            ops = rand_ops(rng, d)
            try:
                ins = T.instantiate(d['pycls'], d['vindex'], ops)
                bs, rel = relocated_bytes(ins)
                uses = regnums(ins.used_registers)
                defs = regnums(ins.defined_registers) | regnums(ins.clobbers)
            except Exception:   # noqa: BLE001
                continue
            if rel:
                reloc_classes.add(d['cls'])
            dec = RV.decode(list(bs))
            if dec is None or dec[0] not in FMT_ROLES:
                continue
            k, hit = exec_checks(ctx, rng, dec, uses, defs, n_st,
                                 dict(cls=d['cls'], printed=str(ins), bytes=bs.hex(), ops=ops, where='class table'), pc=INS_ADDR if rel else None)
            n_eval += k
            if hit:
                break
    # compressed classes (riscv:rvc): decode16 + expansion to the base instruction, executed as 2-byte instructions
    rvc_classes = {}
    try:
        rdescs = [d for d in T.export_arch('riscv:rvc')[0] if d['tokens'] == [(16, False)]]
    except Exception:   # noqa: BLE001
        rdescs = []
    for d in rdescs:
        for _ in range(3 * n_ops):
            ops = rand_ops(rng, d)
            if rng.random() < 0.7:      # most compressed forms only take x8..x15
                m8 = {}
                ops = [m8.setdefault(v, rng.randrange(8, 16)) if o['kind'] == 'reg' else v for o, v in zip(d['ops'], ops)]
            try:
                ins = T.instantiate(d['pycls'], d['vindex'], ops)
                bs, rel = relocated_bytes(ins, sym=INS_ADDR + 0x40)
                uses = regnums(ins.used_registers)
                defs = regnums(ins.defined_registers) | regnums(ins.clobbers)
            except Exception:   # noqa: BLE001
                continue
            if len(bs) != 2:
                continue
            d16 = c08.rvc_decode16(list(bs))
            dec = RV.expand16((d16[0], list(d16[1]))) if d16 else None
            if dec is None or dec[0] not in FMT_ROLES:
                continue
            # only operand tuples on which the reference decoder reads what ppci prints (C08's RVC agreement domain):
            # register operands outside x8..x15 for the 3-bit fields etc. are C08 findings, not annotation questions
            exp16 = c08.rvc_expect(''.join(d['syntax'][:3]), len(d['ops']))
            if exp16 is None or exp16[0] != d16[0] or list(c08.apply_view(exp16[1], ops)) != list(d16[1]) \
                    or not c08.rvc_valid(d16[0], list(d16[1])):
                continue
            implicit = RVC_IMPLICIT.get(d16[0], set())
            rvc_classes[d['cls']] = d16[0]
            try:
                printed = str(ins)
            except Exception:   # noqa: BLE001
                printed = d['cls']
            k, hit = exec_checks(ctx, rng, dec, uses | implicit, defs | implicit, n_st,
                                 dict(cls=d['cls'], printed=printed, bytes=bs.hex(), ops=ops, where='rvc class table'),
                                 pc=INS_ADDR if rel else None, ilen=2)
            n_eval += k
            if hit:
                break
    ctx.cov['stages']['rvc_classes_executed'] = rvc_classes
    ctx.cov['stages']['search_executions'] = n_eval
    ctx.cov['stages']['classes_executed_with_relocation_applied'] = sorted(reloc_classes)
    ctx.cov['evaluations'] += n_eval


C_SOURCE = """
int counter;
int table[8];
typedef int (*fn_t)(int);
int twice(int a) { return a * 2; }
fn_t hook = twice;
int work(int a, unsigned b, char *p, short s) {
  int i;
  for (i = 0; i < a; i++) { counter += table[i & 7] / (a | 1); p[i] = (char)(b >> 3); }
  if (b % 3 > 1) counter -= hook(a);
  if (s < 0) counter = -counter + ~a;
  return counter ^ (int)(b << 2) ^ twice(s);
}
"""


def emitted_instances(march, modules):
    """every instruction instance the code generator emits (after register allocation), pseudo instructions rendered"""
    from ppci import api
    from ppci.binutils.outstream import OutputStream
    from ppci.arch.encoding import Instruction
    from ppci.arch.generic_instructions import ArtificialInstruction

    class Recorder(OutputStream):
        def __init__(self):
            super().__init__()
            self.items = []

        def do_emit(self, item):
            self.items.append(item)
    out = []

    def add(item, depth=0):
        if isinstance(item, ArtificialInstruction) and depth < 4:
            try:
                for x in item.render():
                    add(x, depth + 1)
            except Exception:   # noqa: BLE001
                pass
            return
        if isinstance(item, Instruction) and type(item).__module__.startswith('ppci.arch.riscv'):
            out.append(item)
    for m in modules:
        rec = Recorder()
        api.ir_to_stream(m, march, rec)
        for it in rec.items:
            add(it)
    return out


def instance_stage(ctx, info):
    """annotations of every instruction INSTANCE in generated code (riscv and riscv:rvc) against the interpreter"""
    import io
    from ppci import api
    from props import c05_e2e as E
    rng = ctx.rng
    table_classes = {d['cls'] for d in list(info['good']) + list(info['bad']) if is_covered(d, info['c08'])}
    stats = {}
    for march in ('riscv', 'riscv:rvc'):
        mods = [api.c_to_ir(io.StringIO(C_SOURCE), march)]
        for _ in range(6 if ctx.quick() else 40):
            mods.append(E.gen_function(rng, 3)[0])
        try:
            instances = emitted_instances(march, mods)
        except Exception as ex:   # noqa: BLE001
            stats[march] = {'error': '%s: %s' % (type(ex).__name__, str(ex)[:100])}
            continue
        seen, per_class, uncovered, n_eval, rvc_seen = set(), {}, {}, 0, {}
        for ins in instances:
            cls = type(ins).__name__
            if cls in ('Dcd2',) or not getattr(type(ins), 'tokens', None):
                continue
            try:
                bs, rel = relocated_bytes(ins)
            except Exception as ex:   # noqa: BLE001
                uncovered[cls] = 'encode: %s' % type(ex).__name__
                continue
            key = (cls, bs)
            if key in seen:
                continue
            seen.add(key)
            dec, ilen, implicit = (RV.decode(list(bs)) if len(bs) == 4 else None), 4, set()
            if len(bs) == 2:
                from props import c08
                d16 = c08.rvc_decode16(list(bs))
                dec = RV.expand16((d16[0], list(d16[1]))) if d16 else None
                ilen = 2
                if d16:
                    implicit = RVC_IMPLICIT.get(d16[0], set())
                if dec is not None:
                    rvc_seen[d16[0]] = rvc_seen.get(d16[0], 0) + 1
            if dec is None or dec[0] not in FMT_ROLES:
                uncovered[cls] = 'not an RV32I/M/C instruction for the interpreter (%d bytes)' % len(bs)
                continue
            per_class[cls] = per_class.get(cls, 0) + 1
            try:
                uses = regnums(ins.used_registers)
                defs = regnums(ins.defined_registers) | regnums(ins.clobbers)
            except Exception as ex:   # noqa: BLE001
                uncovered[cls] = 'registers: %s' % type(ex).__name__
                continue
            try:
                printed = str(ins)
            except Exception:   # noqa: BLE001  (riscv cannot print allocated virtual registers)
                printed = '%s %s' % (cls, [sorted(regnums([getattr(ins, fa._name)])) or getattr(ins, fa._name)
                                            for fa in type(ins).syntax.formal_arguments])
            k, _hit = exec_checks(ctx, rng, dec, uses | implicit, defs | implicit, 3,
                                  dict(cls=cls, printed=printed, bytes=bs.hex(), ops=[], where='instance in code generated for ' + march),
                                  pc=INS_ADDR if rel else None, ilen=ilen)
            n_eval += k
        stats[march] = {'instances_recorded': len(instances), 'distinct_checked': sum(per_class.values()),
                        'classes_checked': sorted(per_class), 'classes_not_in_class_table': sorted(set(per_class) - table_classes),
                        'classes_seen_but_not_executable': uncovered, 'executions': n_eval,
                        'compressed_forms_executed': rvc_seen}
        ctx.cov['evaluations'] += n_eval
    ctx.cov['stages']['instances'] = stats


def replay_cmd(cls, ops):
    return ('PYTHONPATH=/repo:/verif/tools python -c "from ppci.arch.riscv import instructions as I, registers as R; '
            'c=[c for c in I.isa.instructions if c.__name__==%r][0]; print([(f._name, f._read, f._write) for f in c.syntax.formal_arguments])"'
            '  # flags of the real class; operands %r; execute the bytes with tools/rv32_py.exec1 on the two states above' % (cls, ops))


def correspondence(ctx, info):
    T = info['T']
    n_per = 6 if ctx.quick() else 40
    cases, recs = [], []
    for n, d in enumerate(info['good']):
        nreg = sum(1 for o in d['ops'] if o['kind'] == 'reg')
        for k in range(n_per if nreg else 1):
            ops = rand_ops(ctx.rng, d)
            try:
                ins = T.instantiate(d['pycls'], d['vindex'], ops)
            except Exception:   # noqa: BLE001
                continue
            real = ([r.num for r in ins.used_registers], [r.num for r in ins.defined_registers])
            term = ('(used_registers (nth %d rw_riscv (""%%string, [])) %s, defined_registers (nth %d rw_riscv (""%%string, [])) %s)'
                    % (n, zl(ops), n, zl(ops)))
            cases.append((term, real))
            recs.append((d['cls'], ops, real))
            if nreg:
                ctx.cov['distinct_nontrivial'] += 1
    bad = ctx.run_cases('rw', ['Model.RvRW', 'Gen.Tab_rv_rw'], cases)
    ctx.cov['stages']['correspondence'] = {'cases': len(cases), 'classes': len(info['good'])}
    for r in recs[:: max(1, len(recs) // 6)]:
        ctx.note_sample({'class': r[0], 'ops': r[1], 'used': r[2][0], 'defined': r[2][1]})
    if bad:
        c, ops, real = recs[bad[0]]
        ctx.failed_stages.append(('correspondence', 'exported flags disagree with used_registers/defined_registers of %s%r: real %r'
                                  % (c, ops, real)))


def run(ctx):
    info = regen(ctx)
    c08 = info['c08']
    covered = [d['cls'] for d in info['good'] if is_covered(d, c08)]
    ctx.cov['stages']['coverage'] = {
        'note': COVER_NOTE, 'table_classes': len(info['good']), 'covered_classes': len(covered), 'covered': covered,
        'not_covered': [d['cls'] for d in info['good'] if not is_covered(d, c08)],
        'nonwf_not_in_table': info['nonwf'], 'custom_not_traced': info['custom'],
        'call_rows': len(info['calls']), 'abi': info['facts']}
    ok, _ = ctx.build(['Proofs/C07_rv.vo', 'Proofs/C07_rvc.vo'])
    if ok:
        ctx.check_props('Props/C07.v')
    if ctx.build(['Gen/Tab_rv_rw.vo', 'Lib/Val.vo'])[0]:
        correspondence(ctx, info)
    # exported failing classes (twin of the Coq class check): report with a concrete pair of states from the search
    search(ctx, info, (not ctx.quick()) or bool(ctx.failed_stages) or bool(info['rwbad']) or bool(info['nbad']))
    try:
        instance_stage(ctx, info)
    except Exception as ex:   # noqa: BLE001
        ctx.failed_stages.append(('instances', 'instance stage crashed: %r' % (ex,)))
    try:
        pseudo_stage(ctx)
    except Exception as ex:   # noqa: BLE001
        ctx.failed_stages.append(('pseudo', 'pseudo-instruction stage crashed: %r' % (ex,)))
    for n, why in info['nbad']:
        d = info['bad'][n]
        ctx.violation({'fn': 'Operand flags', 'class': d['cls'], 'args': [n], 'key': 'flags:%s' % d['cls'],
                       'what': 'class %s: the decoded instruction accesses operand %d in role %s, which the Operand flags %r do not declare'
                               % (d['cls'], why[1], {'W': 'write', 'R': 'read'}.get(why[0], why[0]), info['nrows'][n][1]),
                       'expected': 'flag declared', 'actual': info['nrows'][n][1], 'how_to_replay': replay_cmd(d['cls'], [])})
    for n, why in info['rwbad']:
        d = info['good'][n]
        if not any(v.get('class') == d['cls'] for v in getattr(ctx, '_c07_reported', [])):
            ctx.violation({'fn': 'Operand flags', 'class': d['cls'], 'args': [n], 'key': 'flags:%s' % d['cls'],
                           'what': 'class %s: the decoded instruction %s operand %d in role %s, which the Operand flags %r do not declare'
                                   % (d['cls'], 'accesses', why[1], {'W': 'write', 'R': 'read'}.get(why[0], why[0]), info['rows'][n][1]),
                           'expected': 'flag declared', 'actual': info['rows'][n][1],
                           'how_to_replay': replay_cmd(d['cls'], [])})
    for k, why in info['callbad']:
        row = info['calls'][k]
        ctx.violation({'fn': 'gen_call', 'class': row[0], 'args': row[1], 'key': 'call:%d:%s' % (k, row[0]),
                       'what': 'instruction %d of the gen_call sequence (%s %r): %s' % (k, row[0], row[1], why),
                       'expected': 'accessed registers within the real used_registers/defined_registers/clobbers',
                       'actual': {'uses': row[2], 'defs': row[3], 'clobbers': row[4]},
                       'how_to_replay': replay_cmd(row[0], row[1])})
    ctx.cov['exhaustive'] = False


MANIFEST = {
    'text': 'ALSO (oracle only, no theorem): every riscv/rvc pseudo instruction that defines render() (Li, La, Labelrel, the rvc '
            '*v variants, CBl/CBlr ...) is instantiated on register/immediate combinations hitting each render branch, rendered, and '
            'the rendered sequence executed by the interpreter against the PSEUDO instruction\'s declared used/defined registers. UPDATE: unconditional for the 53 covered base classes (c07_rv_frame_reads_full uses C08\'s unbounded reference '
            'agreement); RV32C compressed forms are executed by an expansion semantics (ISA-side theorems proved, class flags checked '
            'by oracle only) which found c.sub/c.xor/c.or/c.and/c.addi declaring rd write-only (known finding + fix diff). '
            'DETAIL: PARTIAL (other): RISC-V RV32I/M base instruction classes only. The Operand(read=, write=) flags of every riscv class '
            'are exported; for each class that is a base RV32I/M instruction (R/I/S/B/U/J formats, pseudo forms mv/nop/j/bgt/ble/'
            'bgtu/bleu, label forms of lui/auipc/addi/lw/jal) Coq proves against an independently written ISA semantics '
            '(Spec/RV32Exec.v) that, for all operand values and all machine states, executing the decoded bytes changes no '
            'register outside defined_registers (x0 never changes; only stores change memory) and that the new register values, '
            'next pc and memory depend only on used_registers, pc and memory. The link bytes -> decoded instruction is C08\'s '
            'reference-decoder agreement, which C08 proves on a bounded operand domain: the unbounded theorems take it as a '
            'hypothesis, the _bounded ones are hypothesis-free on that domain. For the call sequence of gen_call the exported real '
            'used/defined/clobber sets are checked against the executed instruction, and allocatable registers are shown to be '
            'partitioned into callee_save and the call\'s clobbers. Label/relocation forms (jal/j, branches, lui/addi and '
            'auipc/addi/lw address pairs incl. Loadlrel) are inside the theorems (the relocated immediate is an arbitrary operand) '
            'and are executed by the oracle with the relocation applied; additionally every instruction INSTANCE emitted for a C '
            'program and generated IR functions (riscv and riscv:rvc) is checked against its own used/defined registers by the '
            'interpreter (oracle stage only; 16-bit RVC instances are listed in evidence as not executable). Not covered: CSR/system/F/RVC classes, what a callee does, and '
            'all other targets (ARM, Thumb, m68k, mips, x86_64) - no formal ISA semantics is available in the sandbox.',
    'note': 'trusted: Coq kernel; my reading of the RISC-V manual in Spec/RV32Decode.v + Spec/RV32Exec.v (no emulator to validate it; a '
            'Python twin executes compiled code in C05 and agrees with the IR interpreter); the flag exporter (cross-checked per run '
            'against used_registers/defined_registers of real instances); C08 tracer.',
    'technique': 'Coq proof over introspected table (reflection) + ISA semantics + differential search',
}
