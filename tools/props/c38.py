"""C38 — constant folding agrees with run-time arithmetic (DESIGN §4 C38).

ties
  T  the plain-integer helpers of ppci/opt/constantfolding.py (correct, cast, rem, is_defined) are
     re-translated by py2coq on every run after a small fail-closed *flattening* pre-pass
     (the `ty` object parameter becomes five scalar parameters, operation strings become their
     index in ir.Binop.ops)  ->  coq/Gen/constfold.v
  I  ConstantFolder().ops is exported by introspection (key -> operator.xxx / module function)
     ->  coq/Gen/constfold_ops.v ; the shape of `enhance` is compared with the expected AST
  H  is_const / eval_const / the two chain rules of on_block: coq/Model/ConstFold.v, tied by
     correspondence through the REAL pass (ConstantFolder().run on small ppci.ir modules)
search oracle: an independent Python implementation of Spec/IRArith.
"""
import ast
import copy
import os
import sys

sys.path.insert(0, os.path.dirname(os.path.dirname(os.path.abspath(__file__))))   # tools/ (for the replay CLI)
from vlib import OkV, Diag, Internal, to_term, TieBroken, ensure_repo_on_path, REPO
import py2coq

LEVEL = 'proof'

FLAT = ['ty_is_pointer', 'ty_is_integer', 'ty_is_float', 'ty_bits', 'ty_signed']
FLAT_T = {'ty_is_pointer': 'bool', 'ty_is_integer': 'bool', 'ty_is_float': 'bool', 'ty_bits': 'int',
          'ty_signed': 'bool'}
T_FUNCS = ['correct', 'cast', 'rem', 'is_defined']      # helpers the proofs talk about
OPERATOR_MEANING = {'add': 'op_add', 'sub': 'op_sub', 'mul': 'op_mul', 'mod': 'op_mod',
                    'floordiv': 'op_floordiv', 'lshift': 'op_lshift', 'rshift': 'op_rshift',
                    'and_': 'op_and', 'or_': 'op_or', 'xor': 'op_xor'}
EXPECTED_ENHANCE = 'def enhance(f):\n    return lambda ty, a, b: correct(f(a, b), ty)'


# ------------------------------------------------------------------ flattening pre-pass (fail-closed)
class Flatten(ast.NodeTransformer):
    """ty.bits -> ty_bits, isinstance(ty, ir.PointerTyp) -> ty_is_pointer, f(x, ty) -> f(x, *flat),
    "<<" -> index in ir.Binop.ops, x in (c1, c2) -> x == c1 or x == c2.  Anything else that mentions
    `ty`, and any string that is not an IR operation, raises Unsupported."""

    def __init__(self, opnames):
        self.opnames = opnames

    def visit_FunctionDef(self, node):
        if node.body and isinstance(node.body[0], ast.Expr) and isinstance(node.body[0].value, ast.Constant) \
                and isinstance(node.body[0].value.value, str):
            node.body = node.body[1:]
        new = []
        for a in node.args.args:
            if a.arg == 'ty':
                new += [ast.arg(arg=n) for n in FLAT]
            else:
                new.append(a)
        node.args.args = new
        self.generic_visit(node)
        return node

    def visit_Attribute(self, node):
        if isinstance(node.value, ast.Name) and node.value.id == 'ty':
            if node.attr in ('bits', 'signed', 'is_integer'):
                return ast.Name(id='ty_' + node.attr, ctx=ast.Load())
            raise py2coq.Unsupported('attribute ty.' + node.attr)
        self.generic_visit(node)
        return node

    def visit_Call(self, node):
        f = node.func
        if isinstance(f, ast.Name) and f.id == 'isinstance' and len(node.args) == 2 \
                and isinstance(node.args[0], ast.Name) and node.args[0].id == 'ty':
            c = ast.unparse(node.args[1])
            if c == 'ir.PointerTyp':
                return ast.Name(id='ty_is_pointer', ctx=ast.Load())
            if c == 'ir.FloatingPointTyp':
                return ast.Name(id='ty_is_float', ctx=ast.Load())
            raise py2coq.Unsupported('isinstance(ty, %s)' % c)
        args = []
        for a in node.args:
            if isinstance(a, ast.Name) and a.id == 'ty':
                args += [ast.Name(id=n, ctx=ast.Load()) for n in FLAT]
            else:
                args.append(self.visit(a))
        node.args = args
        node.func = self.visit(f)
        return node

    def visit_Name(self, node):
        if node.id == 'ty':
            raise py2coq.Unsupported('use of the type object `ty` other than .bits/.signed/.is_integer/isinstance')
        return node

    def visit_Constant(self, node):
        if isinstance(node.value, str):
            if node.value in self.opnames:
                return ast.Constant(value=self.opnames.index(node.value))
            raise py2coq.Unsupported('string constant %r is not an IR operation' % node.value)
        return node

    def visit_Compare(self, node):
        if len(node.ops) == 1 and isinstance(node.ops[0], ast.In) and isinstance(node.comparators[0], ast.Tuple):
            left = self.visit(node.left)
            alts = [ast.Compare(left=copy.deepcopy(left), ops=[ast.Eq()], comparators=[self.visit(c)])
                    for c in node.comparators[0].elts]
            return ast.BoolOp(op=ast.Or(), values=alts) if len(alts) > 1 else alts[0]
        self.generic_visit(node)
        return node


def norm_src(fn):
    """source of a function without its docstring, normalised through ast.unparse"""
    fn = copy.deepcopy(fn)
    if fn.body and isinstance(fn.body[0], ast.Expr) and isinstance(fn.body[0].value, ast.Constant) \
            and isinstance(fn.body[0].value.value, str):
        fn.body = fn.body[1:]
    return ast.unparse(fn)


_IMPL = []


def load_impl():
    """import ppci.ir and ppci.opt.constantfolding from the tree under test (once per process)"""
    if not _IMPL:
        ensure_repo_on_path()
        import ppci.ir as ir
        import ppci.opt.constantfolding as cf
        assert os.path.abspath(cf.__file__).startswith(os.path.abspath(REPO)), cf.__file__
        _IMPL.extend([ir, cf])
    return _IMPL[0], _IMPL[1]


def regen(ctx):
    """returns dict(infos=..., ops=[(code, name)], funcs=[...])"""
    ir, cf = load_impl()
    opnames = list(ir.Binop.ops)
    pyfile = os.path.join(REPO, 'ppci/opt/constantfolding.py')
    tree = ast.parse(open(pyfile).read())
    fns = {n.name: n for n in tree.body if isinstance(n, ast.FunctionDef)}
    # ---- I: the ops table (operator string -> enhance(f)), f read from the closure
    folder = cf.ConstantFolder()
    table = []
    extra = []
    try:
        if 'enhance' not in fns or norm_src(fns['enhance']) != EXPECTED_ENHANCE:
            raise py2coq.Unsupported('enhance() no longer has the shape  lambda ty, a, b: correct(f(a, b), ty)')
        for key, fn in folder.ops.items():
            if key not in opnames:
                raise py2coq.Unsupported('ops key %r is not an IR operation' % (key,))
            cells = [c.cell_contents for c in (fn.__closure__ or ())]
            if getattr(fn, '__name__', '') != '<lambda>' or fn.__code__ is not cf.enhance(abs).__code__ \
                    or len(cells) != 1 or not callable(cells[0]):
                raise py2coq.Unsupported('ops[%r] is not enhance(f)' % key)
            f = cells[0]
            mod = getattr(f, '__module__', None)
            if mod in ('_operator', 'operator') and f.__name__ in OPERATOR_MEANING:
                table.append((opnames.index(key), key, OPERATOR_MEANING[f.__name__], 'operator.' + f.__name__))
            elif mod == cf.__name__ and f.__name__ in fns and getattr(cf, f.__name__, None) is f:
                if f.__name__ not in T_FUNCS and f.__name__ not in extra:
                    extra.append(f.__name__)
                table.append((opnames.index(key), key, None, f.__name__))
            else:
                raise py2coq.Unsupported('ops[%r] wraps %r which has no Coq meaning' % (key, f))
        # ---- T: flatten, then py2coq
        names = [n for n in T_FUNCS + extra]
        missing = [n for n in names if n not in fns]
        if missing:
            raise py2coq.Unsupported('function(s) %s not found in constantfolding.py' % ', '.join(missing))
        fl = Flatten(opnames)
        flat_fns = [ast.fix_missing_locations(fl.visit(copy.deepcopy(fns[n]))) for n in names]
        flat_src = '\n\n'.join(ast.unparse(f) for f in flat_fns) + '\n'
        flat_path = os.path.join(ctx.work, 'constantfolding_flat.py')
        with open(flat_path, 'w') as f:
            f.write(flat_src)
        entries = []
        for fdef in flat_fns:
            ps = {a.arg: FLAT_T[a.arg] for a in fdef.args.args if a.arg in FLAT_T}
            entries.append({'name': fdef.name, 'params': ps})
        text, infos, hashes = py2coq.translate_module(flat_path, entries)
    except (py2coq.Unsupported, SyntaxError, OSError) as ex:
        ctx.log('C38 model cannot be regenerated from the source: %s' % ex)
        ctx.failed_stages.append(('translate', 'ppci/opt/constantfolding.py: %s' % ex))
        raise TieBroken(str(ex))
    text = text.replace(text.splitlines()[0],
                        '(* GENERATED by tools/props/c38.py (flatten) + tools/py2coq.py from '
                        'ppci/opt/constantfolding.py — do not edit; regenerated on every check run *)', 1)
    changed = ctx.write_gen('constfold', text)
    ctx.cov['stages']['gen_constfold'] = {'file': 'ppci/opt/constantfolding.py', 'functions': hashes,
                                          'flattened_source': flat_src, 'changed_on_disk': changed}
    lines = ['(* GENERATED by tools/props/c38.py from ConstantFolder().ops and ir.Binop.ops of the tree under '
             'test — do not edit *)',
             'From PV Require Import Lib.Py Model.PyOperator Gen.constfold.',
             'From Coq Require Import String.', 'Open Scope Z_scope.', '',
             '(* ir.Binop.ops; an operation is represented by its index in this list *)',
             'Definition binop_names : list string := [%s]%%string.' % '; '.join('"%s"' % o for o in opnames), '',
             '(* ConstantFolder.ops: operation code -> f of enhance(f) *)',
             'Definition ops_table : list (Z * (Z -> Z -> result Z)) := [']
    rows = []
    for code, key, meaning, origin in table:
        if meaning is None:
            info = infos[origin]
            if info.ptypes != ['int', 'int'] or info.ret != 'int':
                ctx.failed_stages.append(('translate', 'ops[%r] = %s is not an (int, int) -> int function' % (key, origin)))
                raise TieBroken(origin)
            cn = py2coq.cname(origin)
            meaning = cn if not info.pure else '(fun a b => Ok (%s a b))' % cn
        rows.append('  (%d, %s)   (* "%s": %s *)' % (code, meaning, key, origin))
    lines.append(';\n'.join(rows))
    lines.append('].')
    ctx.write_gen('constfold_ops', '\n'.join(lines) + '\n')
    ctx.cov['stages']['gen_constfold_ops'] = {'ops': {k: o for (_, k, _, o) in table}}
    return {'infos': infos, 'table': table, 'opnames': opnames}


# ------------------------------------------------------------------ driving the REAL pass
# value trees: ('const', v, ty) | ('binop', a, op, b, ty) | ('cast', src, ty) | ('param', ty)   (ty = type name)
def ty_obs(ty):
    """the five observations of a type object, as in Model.ConstFold.typ"""
    ir, _ = load_impl()
    return (isinstance(ty, ir.PointerTyp), bool(ty.is_integer), isinstance(ty, ir.FloatingPointTyp),
            getattr(ty, 'bits', 0), bool(getattr(ty, 'signed', False)))


def get_ty(name):
    ir, _ = load_impl()
    return ir.ptr if name == 'ptr' else ir.get_ty(name)


def build(tree, fn, blk, ir):
    k = tree[0]
    if k == 'const':
        ins = ir.Const(tree[1], 'c', get_ty(tree[2]))
    elif k == 'param':
        ins = ir.Parameter('x', get_ty(tree[1]))
        fn.add_parameter(ins)
        return ins
    elif k == 'cast':
        ins = ir.Cast(build(tree[1], fn, blk, ir), 'cv', get_ty(tree[2]))
    elif k == 'binop':
        a = build(tree[1], fn, blk, ir)
        b = build(tree[3], fn, blk, ir)
        ins = ir.Binop(a, tree[2], b, 'r', get_ty(tree[4]))
    else:
        raise ValueError(k)
    blk.add_instruction(ins)
    return ins


def run_pass(tree):
    """build a one-block ppci.ir function computing `tree`, run ConstantFolder().run(module) and describe
    what happened to the top instruction in the layout of Model.ConstFold.ToVal_outcome"""
    ir, cf = load_impl()
    from ppci.irutils import verify_module
    m = ir.Module('m')
    ty = get_ty(tree[-1])
    fn = ir.Function('f', ir.Binding.GLOBAL, ty)
    m.add_function(fn)
    blk = ir.Block('entry')
    fn.add_block(blk)
    fn.entry = blk
    top = build(tree, fn, blk, ir)
    ret = ir.Return(top)
    blk.add_instruction(ret)
    verify_module(m)
    orig_a = getattr(top, 'a', None) if isinstance(top, ir.Binop) else None
    orig_b = getattr(top, 'b', None) if isinstance(top, ir.Binop) else None
    cf.ConstantFolder().run(m)
    res = ret.result
    opn = list(ir.Binop.ops)

    def tyv(t):
        o = ty_obs(t)
        return (o[3], o[4], o[1])
    if res is top:
        if isinstance(top, ir.Binop) and top.b is not orig_b and isinstance(orig_a, ir.Binop) \
                and top.a is not orig_a and top.a is orig_a.a:
            y = top.a
            tag = 1 if isinstance(y, ir.Parameter) else 2 if isinstance(y, ir.Const) else \
                3 if isinstance(y, ir.Binop) else 4 if isinstance(y, ir.Cast) else 5
            if not isinstance(top.b, ir.Const):
                raise AssertionError('rechained operand is not a Const')
            return (2, tag, opn.index(top.operation), top.b.value) + tyv(top.b.ty)
        return (0,)
    if isinstance(res, ir.Const):
        return (1, res.value) + tyv(res.ty)
    raise AssertionError('unexpected replacement %r' % (res,))


def impl_pass(tree):
    try:
        return OkV(run_pass(tree))
    except Exception:   # noqa: BLE001
        return Internal


def coq_ty(name):
    o = ty_obs(get_ty(name))
    return '(Typ %s %s %s %d %s)' % (to_term(o[0]), to_term(o[1]), to_term(o[2]), o[3], to_term(o[4]))


def coq_tree(tree, opnames, pre=''):
    k = tree[0]
    if k == 'const':
        return '(%sVConst %s %s)' % (pre, to_term(tree[1]), pre_ty(coq_ty(tree[2]), pre))
    if k == 'param':
        return '(%sVOther %s)' % (pre, pre_ty(coq_ty(tree[1]), pre))
    if k == 'cast':
        return '(%sVCast %s %s)' % (pre, coq_tree(tree[1], opnames, pre), pre_ty(coq_ty(tree[2]), pre))
    return '(%sVBinop %s %d %s %s)' % (pre, coq_tree(tree[1], opnames, pre), opnames.index(tree[2]),
                                      coq_tree(tree[3], opnames, pre), pre_ty(coq_ty(tree[4]), pre))


def pre_ty(t, pre):
    return t.replace('(Typ ', '(%sTyp ' % pre) if pre else t


# ------------------------------------------------------------------ independent reference (Spec/IRArith in Python)
INT_TYPES = ['i8', 'u8', 'i16', 'u16', 'i32', 'u32', 'i64', 'u64']


def ty_bs(name):
    return int(name[1:]), name[0] == 'i'


def rng_of(name):
    bits, signed = ty_bs(name)
    return (-(1 << (bits - 1)), (1 << (bits - 1)) - 1) if signed else (0, (1 << bits) - 1)


def ref_wrap(name, v):
    bits, signed = ty_bs(name)
    m = v & ((1 << bits) - 1)
    return m - (1 << bits) if signed and (m >> (bits - 1)) & 1 else m


def ref_binop(op, name, a, b):
    """run-time value of  a op b  on type `name` for in-range a, b;  None = undefined"""
    bits, signed = ty_bs(name)
    lo, _ = rng_of(name)
    if op in ('+', '-', '*'):
        return ref_wrap(name, {'+': a + b, '-': a - b, '*': a * b}[op])
    if op in ('/', '%'):
        if b == 0 or (signed and a == lo and b == -1):
            return None
        q = abs(a) // abs(b)
        if (a < 0) != (b < 0):
            q = -q
        return q if op == '/' else a - b * q
    if op in ('<<', '>>'):
        if not 0 <= b < bits:
            return None
        if op == '<<':
            return ref_wrap(name, a * (1 << b))
        return a >> b          # in-range a: arithmetic for signed (a may be negative), logical for unsigned
    if op == '&':
        return a & b
    if op == '|':
        return a | b
    if op == '^':
        return a ^ b
    return 'unknown'           # rol / ror: no reference here; only "not folded or in range" is demanded


def in_rng(name, v):
    lo, hi = rng_of(name)
    return isinstance(v, int) and not isinstance(v, bool) and lo <= v <= hi


def pool(name, rng, extra=6):
    bits, signed = ty_bs(name)
    lo, hi = rng_of(name)
    s = {0, 1, 2, 3, 7, -1, -2, -7, lo, lo + 1, hi, hi - 1, hi // 2, hi // 2 + 1, (1 << (bits - 1)), (1 << (bits - 1)) - 1,
         -(1 << (bits - 1)), -(1 << (bits - 1)) + 1, (1 << bits) - 1, bits - 1, bits, bits + 1, 100, 200}
    for _ in range(extra):
        s.add(rng.randint(lo, hi))
    return sorted(v for v in s if lo <= v <= hi)


def check_outcome(ctx, kind, tree, out, expect, name, detail):
    """compare what the pass did (`out`) with the reference; report a violation.  Returns True if ok.
    expect: ('value', v) must fold to v or stay; ('any',) may stay or fold to something in range"""
    bad = None
    cat = ''
    if out is Internal:
        bad = 'the pass raised an exception'
        cat = 'raises'
    else:
        o = out.v
        bits, signed = ty_bs(name)
        if o[0] == 1:
            if not in_rng(name, o[1]):
                bad = 'folded constant %r outside the range of %s' % (o[1], name)
            elif o[2:] != (bits, signed, True):
                bad = 'folded constant has type observations %r, expected %s' % (o[2:], name)
            elif expect[0] == 'value' and o[1] != expect[1]:
                bad = 'folded to %r, run time gives %r' % (o[1], expect[1])
        elif o[0] == 2:
            bad = 'unexpected re-association'
    if bad:
        cat = cat or ('wrong_value' if bad.startswith('folded to') else 'range_or_type')
        ctx.violation({'fn': kind, 'key': kind + ':' + cat, 'args': detail, 'what': bad, 'expected': repr(expect),
                       'actual': 'exception' if out is Internal else list(out.v), 'tree': repr(tree),
                       'how_to_replay': "VERIF_REPO=%s /venv/bin/python /verif/tools/props/c38.py replay \"%s\"" % (REPO, repr(tree))})
    return bad is None


def oracle_sweep(ctx, deep):
    """implementation (through the real pass) against the independent reference"""
    ir, cf = load_impl()
    rng = ctx.rng
    n = 0
    opn = list(ir.Binop.ops)
    # 1. Binop of two in-range constants, every operation x every integer type x boundary pools
    for name in INT_TYPES:
        p = pool(name, rng, 10 if deep else 3)
        for op in opn:
            for a in p:
                for b in p:
                    if op == '<<' and b > 4096:
                        continue           # CPython would build a gigantic integer in an unrepaired folder
                    if not deep and (len(p) > 16) and rng.random() < 0.55 and op in ('|', '&', '^', '/', 'rol', 'ror'):
                        continue
                    tree = ('binop', ('const', a, name), op, ('const', b, name), name)
                    out = impl_pass(tree)
                    r = ref_binop(op, name, a, b)
                    exp = ('any',) if r is None or r == 'unknown' else ('value', r)
                    n += 1
                    check_outcome(ctx, 'fold:' + op, tree, out, exp, name, [op, name, a, b])
        # huge shift count: must not raise (MemoryError in an unrepaired folder), fast either way
        for b in ((1 << 40), (1 << 62)):
            if in_rng(name, b):
                tree = ('binop', ('const', 1, name), '<<', ('const', b, name), name)
                n += 1
                check_outcome(ctx, 'fold:<<', tree, impl_pass(tree), ('any',), name, ['<<', name, 1, b])
    # 2. integer casts of constants
    for src in INT_TYPES:
        for dst in INT_TYPES:
            for v in pool(src, rng, 4 if deep else 1):
                tree = ('cast', ('const', v, src), dst)
                n += 1
                check_outcome(ctx, 'cast', tree, impl_pass(tree), ('value', ref_wrap(dst, v)), dst, [src, dst, v])
    # 3. chain rules  (y op c1) op c2 : whatever the pass makes of it must compute the same for sample y
    for name in INT_TYPES:
        p = pool(name, rng, 4 if deep else 1)
        ys = pool(name, rng, 2)
        for op1 in ('+', '-'):
            for op2 in ('+', '-'):
                for c1 in p:
                    for c2 in p:
                        if not deep and rng.random() < 0.5:
                            continue
                        tree = ('binop', ('binop', ('param', name), op1, ('const', c1, name), name), op2, ('const', c2, name), name)
                        out = impl_pass(tree)
                        n += 1
                        bad = None
                        if out is Internal:
                            bad = 'the pass raised an exception'
                        elif out.v[0] == 1:
                            bad = 'a non-constant expression was folded to a constant'
                        elif out.v[0] == 2:
                            _, tag, opc, c = out.v[:4]
                            bits, signed = ty_bs(name)
                            if not in_rng(name, c):
                                bad = 'chain rule produced Const %r outside the range of %s' % (c, name)
                            elif out.v[4:] != (bits, signed, True):
                                bad = 'chain constant has the wrong type'
                            else:
                                for yv in ys:
                                    want = ref_binop(op2, name, ref_binop(op1, name, yv, c1), c2)
                                    got = ref_binop(opn[opc], name, yv, c)
                                    if want != got:
                                        bad = 'for y=%d: (y %s %d) %s %d = %d at run time, rewritten form gives %r' % (
                                            yv, op1, c1, op2, c2, want, got)
                                        break
                        if bad:
                            ctx.violation({'fn': 'chain:' + op1 + op2, 'key': 'chain:' + op1 + op2 + ':' + bad.split()[0] + bad.split()[1],
                                           'args': [name, c1, c2], 'what': bad, 'tree': repr(tree),
                                           'actual': 'exception' if out is Internal else list(out.v),
                                           'how_to_replay': "VERIF_REPO=%s /venv/bin/python /verif/tools/props/c38.py replay \"%s\"" % (REPO, repr(tree))})
    # 4. chain rule on f64: re-association must not change the value (python float = IEEE double)
    for (c1, c2, xs) in [(1e30, -1e30, [1.0, 3.5]), (0.1, 0.2, [0.3, 1e16]), (1.0, 2.0, [0.5])]:
        for op in ('+', '-'):
            tree = ('binop', ('binop', ('param', 'f64'), op, ('const', c1, 'f64'), 'f64'), op, ('const', c2, 'f64'), 'f64')
            out = impl_pass(tree)
            n += 1
            bad = None
            if out is Internal:
                bad = 'the pass raised an exception'
            elif out.v[0] == 2:
                c = out.v[3]
                for x in xs:
                    want = (x + c1) + c2 if op == '+' else (x - c1) - c2
                    got = x + c if opn[out.v[2]] == '+' else x - c
                    if want != got:
                        bad = 'f64 x=%r: (x %s %r) %s %r = %r at run time, rewritten form gives %r' % (x, op, c1, op, c2, want, got)
                        break
            elif out.v[0] == 1:
                bad = 'a non-constant expression was folded'
            if bad:
                ctx.violation({'fn': 'chain_float:' + op, 'args': ['f64', c1, c2], 'what': bad, 'tree': repr(tree),
                               'how_to_replay': "VERIF_REPO=%s /venv/bin/python /verif/tools/props/c38.py replay \"%s\"" % (REPO, repr(tree))})
    # 5. 8-bit exhaustive on the table functions themselves (cheap), through the real pass when deep
    folder = cf.ConstantFolder()
    for name in ('i8', 'u8'):
        lo, hi = rng_of(name)
        ty = get_ty(name)
        for op, f in folder.ops.items():
            isdef = getattr(cf, 'is_defined', None)
            for a in range(lo, hi + 1):
                for b in range(lo, hi + 1):
                    r = ref_binop(op, name, a, b)
                    if r is None or r == 'unknown':
                        continue
                    n += 1
                    if deep:
                        tree = ('binop', ('const', a, name), op, ('const', b, name), name)
                        check_outcome(ctx, 'fold:' + op, tree, impl_pass(tree), ('value', r), name, [op, name, a, b])
                    else:
                        try:
                            got = f(ty, a, b)
                        except Exception:   # noqa: BLE001
                            got = 'exception'
                        if got != r:
                            tree = ('binop', ('const', a, name), op, ('const', b, name), name)
                            check_outcome(ctx, 'fold:' + op, tree, impl_pass(tree), ('value', r), name, [op, name, a, b])
    return n


def search(ctx):
    n = oracle_sweep(ctx, not ctx.quick())
    ctx.cov['stages']['oracle_sweep'] = n
    ctx.cov['evaluations'] += n


# ------------------------------------------------------------------ correspondence cases (model vs real pass)
def gen_trees(ctx):
    """value trees for the H-model correspondence; returns list of (stage, tree)"""
    rng = ctx.rng
    ir, _ = load_impl()
    opn = list(ir.Binop.ops)
    out = []
    for name in INT_TYPES:
        bits, _s = ty_bs(name)
        lo, hi = rng_of(name)
        p = pool(name, rng, 2)
        small = sorted(v for v in {0, 1, -1, 2, lo, hi, bits - 1, bits, rng.randint(lo, hi)} if lo <= v <= hi)
        for op in opn:
            vals = p if op in ('+', '-', '*', '%', '<<', '>>') else [v for v in (0, 1, lo, hi) if lo <= v <= hi]
            for a in vals:
                for b in vals:
                    if op == '<<' and b > 4096:
                        continue
                    if len(vals) > 12 and rng.random() < 0.93:
                        continue
                    out.append(('bin', ('binop', ('const', a, name), op, ('const', b, name), name)))
        # malformed stream: constants outside the range of their type
        for (a, b) in [(hi + 1, 1), (lo - 1, 2), (1 << 70, 3), (5, hi + 7), (-(1 << 65), -3)]:
            for op in ('+', '%', '>>', '*'):
                out.append(('bin_out_of_range', ('binop', ('const', a, name), op, ('const', b, name), name)))
        for dst in INT_TYPES + ['ptr', 'f64']:
            for v in [0, 1, lo, hi, rng.randint(lo, hi), hi + 1, lo - 1]:
                out.append(('cast', ('cast', ('const', v, name), dst)))
        for op1 in ('+', '-', '*'):
            for op2 in ('+', '-', '*', '%'):
                for (c1, c2) in [(hi, 1), (hi, hi), (lo, lo), (1, 2), (rng.randint(lo, hi), rng.randint(lo, hi)), (200 % (hi + 1), 100)]:
                    out.append(('chain', ('binop', ('binop', ('param', name), op1, ('const', c1, name), name), op2,
                                          ('const', c2, name), name)))
    # chain on pointer / float typed values (integer-valued constants)
    for name in ('ptr', 'f32', 'f64'):
        for op in ('+', '-'):
            out.append(('chain_nonint', ('binop', ('binop', ('param', name), op, ('const', 5, name), name), op,
                                         ('const', 7, name), name)))
            out.append(('bin_nonint', ('binop', ('const', 5, name), op, ('const', 7, name), name)))
    # nested constant expressions, casts inside, undefined inner operations
    def rnd(depth, name):
        lo, hi = rng_of(name)
        k = rng.random()
        if depth == 0 or k < 0.25:
            return ('const', rng.choice([0, 1, -1 if lo < 0 else 3, lo, hi, rng.randint(lo, hi), 7]), name)
        if k < 0.4:
            src = rng.choice(INT_TYPES)
            return ('cast', rnd(depth - 1, src), name)
        if k < 0.47:
            return ('param', name)
        op = rng.choice(['+', '-', '*', '%', '<<', '>>', '+', '-', '/', '&'])
        b = rnd(depth - 1, name)
        if op == '<<' and b[0] == 'const' and b[1] > 4096:
            b = ('const', 3, name)
        if op == '<<' and b[0] != 'const':
            op = '+'
        return ('binop', rnd(depth - 1, name), op, b, name)
    for _ in range(260):
        name = rng.choice(INT_TYPES)
        t = rnd(3, name)
        if t[0] in ('const', 'param'):
            continue
        out.append(('nested', t))
    # whole-tree theorems (Proofs/C38_trees.v): their three example trees, and chain rules whose c1/c2 are
    # constant subtrees (folded, cast, undefined) rather than literals
    out.append(('nested', ('binop', ('binop', ('const', -7, 'i8'), '%', ('const', 2, 'i8'), 'i8'), '+',
                           ('cast', ('binop', ('const', 100, 'i32'), '*', ('const', 3, 'i32'), 'i32'), 'i8'), 'i8')))
    out.append(('nested', ('binop', ('const', 1, 'i32'), '+', ('binop', ('const', 7, 'i32'), '%', ('const', 0, 'i32'), 'i32'), 'i32')))
    for name in INT_TYPES:
        lo, hi = rng_of(name)
        for op in ('+', '-'):
            k50 = ('binop', ('const', 50, name), '+', ('const', 50, name), name)
            for c1, c2 in ((('const', hi, name), k50),
                           (('binop', ('const', hi, name), '*', ('const', 3, name), name), ('cast', ('const', lo, name), name)),
                           (('cast', ('const', 300, 'i32'), name), ('binop', ('const', 1, name), '<<', ('const', 200, name), name)),
                           (('binop', ('const', 5, name), '%', ('const', 0, name), name), k50)):
                out.append(('chain_subtrees', ('binop', ('binop', ('param', name), op, c1, name), op, c2, name)))
    return out


def helper_cases(ctx, gen):
    """direct calls of the T-translated helpers and of the exported table entries"""
    ir, cf = load_impl()
    rng = ctx.rng
    infos = gen['infos']
    cases, recs = [], []

    def flat(name):
        o = ty_obs(get_ty(name))
        return ' '.join(to_term(x) for x in o)

    def wrapt(v):
        t = to_term(v)
        return t if not t.startswith('-') else '(%s)' % t
    for name in INT_TYPES:
        ty = get_ty(name)
        lo, hi = rng_of(name)
        vals = pool(name, rng, 2) + [hi + 1, lo - 1, (1 << 70) + 5, -(1 << 70) - 5, 3 * (hi + 1)]
        for v in vals:
            for fn in ('correct', 'cast'):
                try:
                    r = OkV(getattr(cf, fn)(v, ty))
                except Exception:   # noqa: BLE001
                    r = Internal
                term = '%s %s %s' % (py2coq.cname(fn), wrapt(v), flat(name))
                if infos[fn].pure:
                    term = 'Ok (%s)' % term
                cases.append((term, r))
                recs.append((fn, [v, name]))
        for code, key, _m, origin in gen['table']:
            f = cf.ConstantFolder().ops[key]
            bs = [0, 1, -1, 7, ty.bits - 1, ty.bits, ty.bits + 1, rng.randint(lo, hi)]
            for a in [1, -7 if lo < 0 else 7, lo, rng.randint(lo, hi)]:
                for b in bs:
                    if key in ('<<', '>>') and b > 4096:
                        continue       # neither CPython nor coqc should build a 2^(2^31) integer / iterate 2^62 halvings
                    try:
                        r = OkV(f(ty, a, b))
                    except Exception:   # noqa: BLE001
                        r = Internal
                    cases.append(('apply_op %d %s %s %s' % (code, coq_ty(name), wrapt(a), wrapt(b)), r))
                    recs.append(('ops[%s]' % key, [name, a, b]))
        if hasattr(cf, 'is_defined') and 'is_defined' in infos:
            for op in ir.Binop.ops:
                for b in [0, -1, ty.bits - 1, ty.bits, hi]:
                    r = OkV(bool(cf.is_defined(op, ty, b)))
                    term = 'is_defined %d %s %s' % (list(ir.Binop.ops).index(op), flat(name), wrapt(b))
                    if infos['is_defined'].pure:
                        term = 'Ok (%s)' % term
                    cases.append((term, r))
                    recs.append(('is_defined', [op, name, b]))
    for fn in [o for (_c, _k, m, o) in gen['table'] if m is None]:
        for a in [0, 1, -1, 7, -7, 127, -128, 1 << 40, -(1 << 40)]:
            for b in [0, 1, -1, 2, -2, 3, -3, 128, -(1 << 33)]:
                try:
                    r = OkV(getattr(cf, fn)(a, b))
                except Exception:   # noqa: BLE001
                    r = Internal
                term = '%s %s %s' % (py2coq.cname(fn), wrapt(a), wrapt(b))
                if infos[fn].pure:
                    term = 'Ok (%s)' % term
                cases.append((term, r))
                recs.append((fn, [a, b]))
    return cases, recs


WITNESSES = [
    ('bin', ('binop', ('const', -7, 'i32'), '%', ('const', 2, 'i32'), 'i32')),
    ('bin', ('binop', ('const', 7, 'i32'), '%', ('const', 0, 'i32'), 'i32')),
    ('bin', ('binop', ('const', 1, 'i32'), '<<', ('const', -1, 'i32'), 'i32')),
    ('chain', ('binop', ('binop', ('param', 'u8'), '+', ('const', 200, 'u8'), 'u8'), '+', ('const', 100, 'u8'), 'u8')),
    ('chain', ('binop', ('binop', ('param', 'i8'), '-', ('const', 100, 'i8'), 'i8'), '-', ('const', 100, 'i8'), 'i8')),
    ('chain', ('binop', ('binop', ('param', 'f32'), '+', ('const', 1, 'f32'), 'f32'), '+', ('const', 2, 'f32'), 'f32')),
]


def run(ctx):
    import time
    ir, cf = load_impl()
    opn = list(ir.Binop.ops)
    gen = None
    tm = ctx.cov['stages'].setdefault('wall_s', {})
    t0 = [time.time()]

    def lap(name):
        tm[name] = round(time.time() - t0[0], 1)
        t0[0] = time.time()
    try:
        gen = regen(ctx)
    except TieBroken:
        pass
    # ---- the frozen as-found model and its refutations do not depend on the regenerated files
    if ctx.build(['Proofs/C38_asfound.vo'])[0]:
        ctx.check_props('Props/C38_asfound.v')
    if gen is not None:
        ok, _ = ctx.build(['Proofs/C38_constfold.vo', 'Proofs/C38_trees.vo'])
        if ok:
            ctx.check_props('Props/C38.v')
    lap('regen_build_props')
    # ---- correspondence: Model.ConstFold (+ Gen) vs the real pass
    if gen is not None and ctx.build(['Model/ConstFold.vo', 'Lib/Val.vo'])[0]:
        trees = gen_trees(ctx)
        seen, cases, recs = set(), [], []
        for stage, t in trees:
            if repr(t) in seen:
                continue
            seen.add(repr(t))
            out = impl_pass(t)
            cases.append(('on_instruction %s' % coq_tree(t, opn), out))
            recs.append((stage, t, out))
        dist = {}
        for (st, t, o) in recs:
            d = dist.setdefault(st, {'unchanged': 0, 'folded': 0, 'rechained': 0, 'exception': 0})
            d['exception' if o is Internal else ['unchanged', 'folded', 'rechained'][o.v[0]]] += 1
        ctx.cov['stages']['pass_correspondence_distribution'] = dist
        ctx.cov['distinct_nontrivial'] += sum(1 for (_s, t, o) in recs if o is not Internal and o.v[0] != 0)
        for r in recs[:: max(1, len(recs) // 6)]:
            ctx.note_sample({'tree': repr(r[1]), 'pass': 'exception' if r[2] is Internal else list(r[2].v)})
        bad = ctx.run_cases('pass', ['Model.ConstFold'], cases)
        if bad:
            for i in bad[:5]:
                ctx.log('model/pass disagree on', recs[i][1], 'pass=', 'exception' if recs[i][2] is Internal else recs[i][2].v)
            ctx.failed_stages.append(('correspondence', 'Model.ConstFold disagrees with ConstantFolder().run on %d of %d cases, first: %r'
                                      % (len(bad), len(cases), recs[bad[0]][1])))
        lap('pass_correspondence')
        hcases, hrecs = helper_cases(ctx, gen)
        ctx.cov['stages']['helper_cases'] = len(hcases)
        ctx.cov['distinct_nontrivial'] += sum(1 for (c, r) in hcases if r is not Internal)
        bad = ctx.run_cases('helpers', ['Gen.constfold', 'Gen.constfold_ops', 'Model.ConstFold'], hcases)
        if bad:
            for i in bad[:5]:
                ctx.log('generated model/implementation disagree on', hrecs[i])
            ctx.failed_stages.append(('correspondence', 'Gen.constfold disagrees with constantfolding.py on %d cases, first: %r'
                                      % (len(bad), hrecs[bad[0]])))
    lap('helper_correspondence')
    # ---- frozen model vs an unrepaired tree: only while the tree still behaves as found
    asfound = not hasattr(cf, 'is_defined') and impl_pass(WITNESSES[0][1]) is not Internal \
        and impl_pass(WITNESSES[0][1]).v[:2] == (1, 1)
    ctx.cov['stages']['tree_is_as_found'] = asfound
    if asfound and ctx.build(['Model/ConstFoldOrig.vo', 'Lib/Val.vo'])[0]:
        wc = [('Orig.on_instruction %s' % coq_tree(t, opn, 'Orig.'), impl_pass(t)) for (_s, t) in WITNESSES]
        bad = ctx.run_cases('asfound', ['Model.ConstFoldOrig'], wc)
        if bad:
            ctx.failed_stages.append(('correspondence', 'Model.ConstFoldOrig disagrees with the unrepaired pass on witnesses %r' % bad))
    # ---- reference oracle sweep: always; deep when a stage failed or tier is thorough
    n = oracle_sweep(ctx, (not ctx.quick()) or bool(ctx.failed_stages))
    lap('oracle_sweep')
    ctx.cov['stages']['oracle_sweep'] = n
    ctx.cov['evaluations'] += n
    ctx.cov['exhaustive'] = False


RULE = ('model/pass cases: value trees Binop(Const,Const) for all 12 ir.Binop operations x 8 integer types x boundary pools '
        '(0, +-1, MIN, MIN+1, MAX, MAX-1, 2^(w-1), 2^w-1, w-1, w, w+1, seeded random), integer casts between all type pairs, '
        'chain shapes (y op1 c1) op2 c2 incl. ptr/f32/f64, out-of-range constants, ~250 seeded random nested trees; each is built '
        'as a ppci.ir module, run through ConstantFolder().run and compared with Model.ConstFold.on_instruction; plus direct calls of '
        'correct/cast/rem/is_defined/ops[k]. Non-trivial = distinct tree whose outcome is a fold or a re-association (not unchanged, '
        'not an exception), or a helper call that returns a value')
EXPLANATION = ('Unbounded Coq theorems (all widths >= 1, all operands) over the regenerated integer helpers and ops table and the '
               'hand model of is_const/eval_const/on_block, against Spec/IRArith; 8-bit exhaustive vm_compute sweeps per operator as '
               'bounded extras; whole expression trees of any depth (Proofs/C38_trees.v: a tree that evaluates at run time folds to that value; '
               'no well-formed tree makes the pass raise, chain rules with constant subtrees included); refutations on the frozen as-found model. Green only with fixes/C38-*.diff applied to ppci. '
               'Not modelled: float-valued constants, multi-instruction effects of on_block (insertion position, use lists).')
TRUSTED = ['tools/py2coq.py and the flattening pre-pass in tools/props/c38.py (fail-closed; output cross-checked on every run)',
           'Model/PyOperator.v: meaning of operator.add/sub/mul/mod/lshift/rshift on ints',
           'Model/ConstFold.v: hand model of the IR-object plumbing (cross-checked against the real pass on every run)',
           'Python int arithmetic == Coq Z arithmetic',
           'Spec/IRArith.v is the intended run-time semantics (two\'s complement wrap, truncating % and /, shifts defined for 0 <= n < bits)']
ASSUMPTIONS = ['IR types are the built-in singletons of ppci.ir (type identity = equality of the five observations)',
               'a left shift by an astronomically large count raises MemoryError in CPython; the repaired folder never evaluates such a shift',
               'constant values are Python ints (float constants are outside the model)']
MANIFEST = {
    'text': 'proof: for every integer width and every operator in the folder\'s table (+ - * % << >>) a Binop of two in-range constants '
            'whose operation is defined at run time is replaced by exactly the run-time value; folded and chain-folded constants lie in '
            'the range of their type; integer casts of constants equal the run-time conversion; (y+c1)+c2 and (y-c1)-c2 are rewritten to '
            'an equivalent instruction for every y; undefined operations (x % 0, out-of-range shifts) and floating point chains are left '
            'alone and never make the pass raise; nested constant expressions of any depth (Binop/Cast trees) fold to their run-time value, and no '
            'well-formed tree (unknown leaves, undefined inner operations) makes the pass raise or create an out-of-range constant. Helpers and ops table are regenerated from the source on every run.',
    'note': 'holds for ppci with fixes/C38-rem-truncates.diff, C38-chain-wrap.diff, C38-undefined-not-folded.diff applied (as found: % used '
            'floor modulo, chain constants were not wrapped and floats were re-associated, x % 0 / negative shifts raised - see '
            'Props/C38_asfound.v). Trusted: Coq kernel, py2coq + flattening pre-pass, operator.* meanings, the hand model of '
            'is_const/eval_const/on_block (cross-checked through ConstantFolder().run on ~3000 trees per run), Python int == Z. '
            '/ & | ^ rol ror are not folded by ppci, so nothing is claimed (or can go wrong) for them.',
    'technique': 'Coq proof over py2coq/table-export regenerated model + hand model tied by differential runs of the real pass',
}


if __name__ == '__main__':
    if len(sys.argv) >= 3 and sys.argv[1] == 'replay':
        tree = ast.literal_eval(sys.argv[2])
        print('tree   :', tree)
        print('outcome:', 'exception' if impl_pass(tree) is Internal else impl_pass(tree).v,
              '  (0,)=unchanged  (1,v,bits,signed,is_int)=folded  (2,ytag,opcode,c,bits,signed,is_int)=re-associated')
        if tree[0] == 'binop' and tree[1][0] == 'const' and tree[3][0] == 'const' and tree[-1] in INT_TYPES:
            print('run-time value:', ref_binop(tree[2], tree[-1], tree[1][1], tree[3][1]))
