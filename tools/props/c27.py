"""C27 — C integer constant expressions are evaluated as C prescribes (DESIGN §4 C27).

Spec: coq/Spec/CIntSpec.v (C11 typing, promotions, usual arithmetic conversions, operators, UB = None).
Model: Gen/ceval.v (tie T: module-level helpers c_div/c_rem/c_wrap of ppci/lang/c/eval.py and the lambda
tables `op_map` of eval_unop/eval_binop, extracted with `ast` and translated by py2coq; BasicType sets and
CSemantics.basic_ranks exported by introspection), Model/CEval.v (tie H: eval_expr/eval_cast/eval_unop/
eval_binop/eval_ternop, CContext.pack, gen_global_initialize_expression), Model/CSema.v (tie H: the typing
part of CSemantics: on_unop/on_binop/on_ternop/coerce/promote/get_common_type), Model/CEvalOrig.v (tie H,
frozen: the evaluator before the fixes, only used by the *_refuted theorems).
"""
import ast
import io
import os
import sys

sys.path.insert(0, os.path.dirname(os.path.abspath(__file__)))
import cintspec as S  # noqa: E402
from vlib import OkV, Diag, Internal, TieBroken, REPO  # noqa: E402
import py2coq  # noqa: E402

LEVEL = 'proof'
RULE = ('random typed constant-expression trees (depth <= 5, all 4 unary / 18 binary operators, ?:, casts; '
        'literals from per-type boundary pools) rendered to C and compiled as `T g = EXPR;` for T in all 10 '
        'integer types on x86_64 / arm / msp430 / or1k through ppci.api.c_to_ir; distinct non-trivial = distinct '
        '(target, T, expression) with >= 1 operator whose C value is defined (spec /= None)')
EXPLANATION = ('c27_eval_exact / c27_converted: unbounded Coq theorems that the evaluator and the packed global image '
               'equal CIntSpec on every expression (literals, casts, 4 unary, 18 binary operators, ?:) and every data '
               'model; c27_sema_agrees_all: the typing of CSemantics (Model/CSema.elab, with c83990b) is C typing. The '
               '*_refuted and *_orig theorems document the defects of the earlier evaluator and typing rule. The '
               'EnumType branch of eval_binop is translated too (c27_enum_branch_same_operators: the same operators as '
               'the integer branch); enum-typed operands are otherwise covered by search in every constant context. '
               'c27_enum_values_exact / c27_enum_values_no_internal: CContext._calculate_enum_values (Model/CEnum.v, tie H) '
               'gives every enumeration constant its C11 6.7.2.2 value (Spec/CEnumSpec.v) for every enumerator list and '
               'diagnoses exactly the values not representable as int. '
               'sizeof, floating constants, pointers in constant expressions are not modelled.')
TRUSTED = ['tools/py2coq.py + the op_map extractor in tools/props/c27.py (fail-closed, cross-checked per run)',
           'hand models Model/CEval.v, Model/CSema.v (cross-checked per run against the real typed AST and the real '
           'global image on generated programs)',
           'reading of C11 in Spec/CIntSpec.v (validated against gcc on LP64 in the search stage)',
           'CPython struct.pack range/byte-order behaviour as modelled by pack_int']
ASSUMPTIONS = ['implementation-defined behaviour as gcc: signed conversion wraps, >> of negatives is arithmetic',
               'char is signed (ppci maps char and signed char to BasicType.CHAR on every target)',
               'literals are written with a suffix matching their type and fit it (ppci types unsuffixed decimal '
               'literals that do not fit int as unsigned int, C as long: outside the generated space)']

TARGETS = ['x86_64', 'arm', 'msp430', 'or1k']
PP_T = {'char': 'CHAR', 'uchar': 'UCHAR', 'short': 'SHORT', 'ushort': 'USHORT', 'int': 'INT', 'uint': 'UINT',
        'long': 'LONG', 'ulong': 'ULONG', 'llong': 'LONGLONG', 'ullong': 'ULONGLONG'}


# ------------------------------------------------------------------ regen (tie T + I)
def _class_method(tree, cls, name):
    for n in tree.body:
        if isinstance(n, ast.ClassDef) and n.name == cls:
            for m in n.body:
                if isinstance(m, ast.FunctionDef) and m.name == name:
                    return m
    raise py2coq.Unsupported('%s.%s not found' % (cls, name))


def _opmap_entries(fn, int_branch):
    """[(key, value-node)] of the dict literal assigned to op_map in fn, plus `op_map[k] = v` assignments in
    the `if expr.typ.is_integer:` branch. Fail closed on any other use of op_map."""
    ents = []
    uses = sum(1 for n in ast.walk(fn) if isinstance(n, ast.Name) and n.id == 'op_map')
    seen = 0
    for n in ast.walk(fn):
        if isinstance(n, ast.Assign) and len(n.targets) == 1 and isinstance(n.targets[0], ast.Name) \
                and n.targets[0].id == 'op_map':
            if not isinstance(n.value, ast.Dict):
                raise py2coq.Unsupported('op_map is not a dict literal')
            for k, v in zip(n.value.keys, n.value.values):
                if not (isinstance(k, ast.Constant) and isinstance(k.value, str)):
                    raise py2coq.Unsupported('op_map key')
                ents.append((k.value, v))
            seen += 1
    if int_branch:
        for n in ast.walk(fn):
            if isinstance(n, ast.If) and ast.unparse(n.test) == 'expr.typ.is_integer':
                for s in n.body:
                    t = s.targets[0] if isinstance(s, ast.Assign) and len(s.targets) == 1 else None
                    if not (isinstance(t, ast.Subscript) and isinstance(t.value, ast.Name) and t.value.id == 'op_map'
                            and isinstance(t.slice, ast.Constant) and isinstance(t.slice.value, str)):
                        raise py2coq.Unsupported('statement in the integer branch of eval_binop: ' + ast.unparse(s))
                    ents = [(k, v) for (k, v) in ents if k != t.slice.value] + [(t.slice.value, s.value)]
                    seen += 1
                seen += sum(1 for s in n.orelse for x in ast.walk(s) if isinstance(x, ast.Name) and x.id == 'op_map')
    if uses != seen + 1:
        raise py2coq.Unsupported('%s uses op_map in an unrecognised way (%d uses, %d recognised)' % (fn.name, uses, seen + 1))
    return ents


def _enum_entries(fn):
    """[(key, value-node)] of `op_map.update({...})` in the `elif isinstance(expr.typ, types.EnumType):` branch of
    eval_binop (operands of enumerated type, C11 6.7.2.2); [] when the branch does not exist"""
    ents = []
    for n in ast.walk(fn):
        if isinstance(n, ast.If) and ast.unparse(n.test) == 'isinstance(expr.typ, types.EnumType)':
            for st in n.body:
                c = st.value if isinstance(st, ast.Expr) else None
                if isinstance(c, ast.Call) and ast.unparse(c.func) == 'op_map.update' and len(c.args) == 1 \
                        and isinstance(c.args[0], ast.Dict) and not c.keywords:
                    for k, v in zip(c.args[0].keys, c.args[0].values):
                        if not (isinstance(k, ast.Constant) and isinstance(k.value, str)):
                            raise py2coq.Unsupported('op_map.update key')
                        ents.append((k.value, v))
                else:
                    raise py2coq.Unsupported('statement in the EnumType branch of eval_binop: ' + ast.unparse(st))
    return ents


HELPERS = [{'name': 'c_div'}, {'name': 'c_rem'}, {'name': 'c_wrap', 'params': {'signed': 'bool'}}]


def regen(ctx):
    """Gen/ceval.v from <repo>/ppci/lang/c/eval.py (+ BasicType sets, basic_ranks)."""
    pyfile = os.path.join(REPO, 'ppci/lang/c/eval.py')
    try:
        tree = ast.parse(open(pyfile).read())
        fns = {n.name: n for n in tree.body if isinstance(n, ast.FunctionDef)}
        parts = [ast.unparse(f) for f in fns.values()]
        entries = [h for h in HELPERS]
        tables = {}
        for meth, prefix, nargs, intb in (('eval_unop', 'unop', 1, False), ('eval_binop', 'binop', 2, True)):
            fn = _class_method(tree, 'ConstantExpressionEvaluator', meth)
            rows = []
            for i, (key, v) in enumerate(_opmap_entries(fn, intb)):
                if isinstance(v, ast.Name) and v.id in fns:
                    rows.append((key, v.id))
                elif isinstance(v, ast.Lambda) and len(v.args.args) == nargs and not v.args.defaults:
                    name = '%s_%d' % (prefix, i)
                    args = ', '.join(a.arg for a in v.args.args)
                    parts.append('def %s(%s):\n    return %s\n' % (name, args, ast.unparse(v.body)))
                    entries.append({'name': name})
                    rows.append((key, name))
                else:
                    raise py2coq.Unsupported('op_map[%r] is neither a lambda nor a module function' % key)
            tables[prefix] = rows
            if prefix == 'binop':
                erows = []
                for i, (key, v) in enumerate(_enum_entries(fn)):
                    if isinstance(v, ast.Name) and v.id in fns:
                        erows.append((key, v.id))
                    elif isinstance(v, ast.Lambda) and len(v.args.args) == 2 and not v.args.defaults:
                        name = 'binop_e_%d' % i
                        parts.append('def %s(%s):\n    return %s\n' % (name, ', '.join(a.arg for a in v.args.args),
                                                                      ast.unparse(v.body)))
                        entries.append({'name': name})
                        erows.append((key, name))
                    else:
                        raise py2coq.Unsupported('enum op_map[%r] is neither a lambda nor a module function' % key)
                tables['binop_enum'] = erows
        syn = os.path.join(ctx.work, 'ceval_syn.py')
        with open(syn, 'w') as f:
            f.write('\n\n'.join(parts))
        text, infos, hashes = py2coq.translate_module(
            syn, entries, ['From Coq Require Import String.', 'From PV Require Import Spec.CIntSpec.'])
    except (py2coq.Unsupported, SyntaxError, OSError) as ex:
        ctx.log('cannot regenerate Gen/ceval.v: %s' % ex)
        ctx.failed_stages.append(('translate', 'ppci/lang/c/eval.py: %s' % ex))
        raise TieBroken(str(ex))
    text = text.replace(os.path.relpath(syn, '/repo'), 'ppci/lang/c/eval.py (module functions + op_map lambdas)')
    out = [text, '']
    for prefix, ty in (('unop', 'Z -> result Z'), ('binop', 'Z -> Z -> result Z'), ('binop_enum', 'Z -> Z -> result Z')):
        rows = []
        for key, name in tables[prefix]:
            vs = 'x' if prefix == 'unop' else 'x y'
            body = '%s %s' % (py2coq.cname(name), vs)
            if infos[name].pure:
                body = 'Ok (%s)' % body
            rows.append('  ("%s"%%string, fun %s => %s)' % (key, vs, body))
        out.append('Definition %s_table : list (string * (%s)) := [\n%s].\n' % (prefix, ty, ';\n'.join(rows)))
    # introspective export: BasicType sets and CSemantics.basic_ranks
    from ppci.lang.c.nodes.types import BasicType
    from ppci.lang.c.semantics import CSemantics
    inv = {getattr(BasicType, v): k for k, v in PP_T.items()}
    def tl(s):
        return '[%s]' % '; '.join(S.COQ_T[t] for t in S.TYPES if getattr(BasicType, PP_T[t]) in s)
    out.append('Definition signed_types : list ity := %s.' % tl(BasicType.SIGNED_INTEGER_TYPES))
    out.append('Definition integer_types : list ity := %s.' % tl(BasicType.INTEGER_TYPES))
    out.append('Definition promotable_types : list ity := %s.' % tl(BasicType.PROMOTABLE_INTEGER_TYPES))
    out.append('Definition basic_rank (t : ity) : Z :=\n  match t with\n%s\n  end.' % '\n'.join(
        '  | %s => %d' % (S.COQ_T[t], CSemantics.basic_ranks[getattr(BasicType, PP_T[t])]) for t in S.TYPES))
    out.append('#[global] Hint Unfold %s : ceval_ops.' % ' '.join(
        py2coq.cname(n) for rows in tables.values() for _, n in rows if n not in fns))
    changed = ctx.write_gen('ceval', '\n'.join(out) + '\n')
    ctx.cov['stages']['gen_ceval'] = {'file': 'ppci/lang/c/eval.py', 'functions': hashes, 'changed_on_disk': changed,
                                      'unop_table': [k for k, _ in tables['unop']],
                                      'binop_table': [k for k, _ in tables['binop']]}
    return infos, tables


# ------------------------------------------------------------------ driving the real front-end
_ARCH = {}


def arch_info(march):
    if march not in _ARCH:
        from ppci.api import get_arch
        _ARCH[march] = get_arch(march).info
    return _ARCH[march]


def target_dm(march):
    """(data model dict in bits, coq cctx term) from the real CContext of the target"""
    from ppci.lang.c import COptions
    from ppci.lang.c.context import CContext
    from ppci.lang.c.nodes.types import BasicType
    from ppci.arch.arch_info import Endianness
    c = CContext(COptions(), arch_info(march))
    sz = {t: c.type_size_map[getattr(BasicType, PP_T[t])][0] for t in S.TYPES}
    assert sz['char'] == 1 and sz['short'] == 2 and sz['uchar'] == 1 and sz['ushort'] == 2
    for t in ('int', 'long', 'llong'):
        assert sz[t] == sz['u' + t]
    little = arch_info(march).endianness == Endianness.LITTLE
    dm = {'char': 8, 'short': 16, 'int': 8 * sz['int'], 'long': 8 * sz['long'], 'llong': 8 * sz['llong'],
          'char_signed': True}
    cctx = '(mkctx %d %d %d %s)' % (sz['int'], sz['long'], sz['llong'], 'true' if little else 'false')
    return dm, cctx, little


def export_ast(e):
    """real typed AST -> the tuple shape of Model.CEval.cexpr_val; None when outside the modelled nodes"""
    from ppci.lang.c.nodes import expressions as ex, types
    inv = {v: i for i, v in enumerate(['char', 'unsigned char', 'short', 'unsigned short', 'int', 'unsigned int',
                                       'long', 'unsigned long', 'long long', 'unsigned long long'])}
    def ty(t):
        if isinstance(t, types.BasicType) and t.type_id in inv:
            return inv[t.type_id]
        raise KeyError(str(t))
    def go(n):
        if isinstance(n, (ex.NumericLiteral, ex.CharLiteral)):
            return ('lit', n.value, ty(n.typ))
        if isinstance(n, ex.Cast):
            return ('cast', go(n.expr), ty(n.typ))
        if isinstance(n, ex.UnaryOperator):
            return ('un', n.op, go(n.a), ty(n.typ))
        if isinstance(n, ex.BinaryOperator):
            return ('bin', go(n.a), n.op, go(n.b), ty(n.typ))
        if isinstance(n, ex.TernaryOperator):
            return ('tern', go(n.a), go(n.b), go(n.c), ty(n.typ))
        raise KeyError(type(n).__name__)
    try:
        return go(e)
    except KeyError:
        return None


def front_end(march, src, name='g'):
    """-> (typed AST of g's initializer or None, outcome of the global image: OkV(bytes) | Diag | Internal, detail)"""
    from ppci.lang.c import COptions
    from ppci.lang.c.context import CContext
    from ppci.lang.c.builder import _parse
    from ppci.lang.c.codegenerator import CCodeGenerator
    from ppci.common import CompilerError
    context = CContext(COptions(), arch_info(march))
    tree = None
    try:
        unit = _parse(io.StringIO(src), 'x.c', context)
        for d in unit.declarations:
            if getattr(d, 'name', None) == name and getattr(d, 'initial_value', None) is not None:
                tree = d.initial_value
        module = CCodeGenerator(context).gen_code(unit)
        for v in module.variables:
            if v.name == name:
                val = v.value
                if isinstance(val, tuple) and all(isinstance(x, bytes) for x in val):
                    return tree, OkV(b''.join(val)), ''
                return tree, Internal, 'non-bytes image %r' % (val,)
        return tree, Internal, 'global not found'
    except CompilerError as ex:
        return tree, Diag, 'CompilerError: %s' % ex.msg
    except RecursionError:
        return tree, Internal, 'RecursionError'
    except Exception as ex:   # noqa: BLE001
        return tree, Internal, '%s: %s' % (type(ex).__name__, str(ex)[:100])


def spec_bytes(dm, little, t, v):
    n = S.nbits(dm, t) // 8
    b = (S.convert(dm, t, v) & ((1 << (8 * n)) - 1)).to_bytes(n, 'little')
    return b if little else b[::-1]


def is_fixed_tree():
    src = open(os.path.join(REPO, 'ppci/lang/c/eval.py')).read()
    return 'def c_wrap' in src and 'def c_div' in src


FIXED_WITNESSES = [   # (what, declared type, C source of the initializer, tree)
    ('% missing from op_map (KeyError)', 'int', ('bin', '%', ('lit', 'int', 7), ('lit', 'int', 3))),
    ('< missing from op_map (KeyError)', 'int', ('bin', '<', ('lit', 'int', 1), ('lit', 'int', 2))),
    ('&& missing from op_map (KeyError)', 'int', ('bin', '&&', ('lit', 'int', 1), ('lit', 'int', 2))),
    ('?: not evaluated (NotImplementedError)', 'int', ('cond', ('lit', 'int', 1), ('lit', 'int', 2), ('lit', 'int', 3))),
    ('! not evaluated (NotImplementedError)', 'int', ('un', '!', ('lit', 'int', 5))),
    ('/ floors instead of truncating', 'int', ('bin', '/', ('un', '-', ('lit', 'int', 7)), ('lit', 'int', 2))),
    ('unsigned arithmetic not reduced modulo 2^N', 'llong', ('bin', '+', ('lit', 'uint', 65535), ('lit', 'uint', 1))),
    ('out-of-range initializer reaches struct.pack (struct.error)', 'uchar', ('lit', 'int', 300)),
    ('cast does not convert', 'int', ('cast', 'char', ('lit', 'int', 200))),
]


# ------------------------------------------------------------------ case generation
def boundary_cases(march):
    """literals at INT_MAX / UINT_MAX / LONG_MAX / ... (and neighbours) of exactly their C type, under
    sign-sensitive uses: unary minus, ~, /, <, >>, conversion to a wider type"""
    dm, _, _ = target_dm(march)
    out = []
    for t in ('int', 'uint', 'long', 'ulong', 'llong', 'ullong'):
        hi = S.limits(dm, t)[1]
        for v in (hi, hi - 1, hi // 2 + 1):
            L = ('lit', t, v)
            m1 = ('un', '-', ('lit', 'int', 1))
            for e in (L, ('un', '-', L), ('un', '~', L), ('bin', '/', ('un', '-', L), ('lit', 'int', 2)),
                      ('bin', '<', L, m1), ('bin', '>>', ('un', '-', L), ('lit', 'int', 1)),
                      ('bin', '%', ('un', '-', L), ('lit', 'int', 7)), ('bin', '<', ('un', '-', L), ('lit', 'int', 0)),
                      ('bin', '+', ('bin', '-', L, L), m1), ('cond', ('lit', 'int', 1), m1, L)):
                for T in ('llong', 'ullong', 'int'):
                    out.append((march, T, S.desugar(dm, e), '%s g = %s;' % (S.C_T[T], S.render(dm, e))))
    return out


def gen_cases(ctx, n_per_target, depth):
    """[(march, T, tree(desugared), C source)]"""
    rng = ctx.rng
    out = []
    for march in TARGETS:
        dm, _, _ = target_dm(march)
        bc = boundary_cases(march)
        out += bc if n_per_target >= 300 else rng.sample(bc, 90)
        for i in range(n_per_target):
            small = rng.random() < 0.4
            e = S.gen_expr(rng, dm, rng.randint(1, depth), small=small) if rng.random() < 0.25 else \
                S.gen_defined(rng, dm, rng.randint(1, depth), small=small)
            t = rng.choice(S.TYPES)
            out.append((march, t, S.desugar(dm, e), '%s g = %s;' % (S.C_T[t], S.render(dm, e))))
    return out


def correspondence(ctx, cases, fixed):
    """model vs implementation: (a) typed AST = elab, (b) global image = global_init (elab_init)"""
    elab, init, ginit, mods = ('elab', 'elab_init CCTX', 'global_init', ['Spec.CIntSpec', 'Model.CEval', 'Model.CSema']) \
        if fixed else ('elab0', 'elab_init0', 'global_init0', ['Spec.CIntSpec', 'Model.CEval', 'Model.CEvalOrig'])
    cc, recs = [], []
    dist = {'ok': 0, 'diag': 0, 'internal': 0, 'ast_exported': 0}
    for (march, t, e, src) in cases:
        dm, cctx, little = target_dm(march)
        tree, out, detail = front_end(march, src)
        ast_t = export_ast(tree) if tree is not None else None
        ce = S.coq_expr(e)
        if ast_t is not None:
            dist['ast_exported'] += 1
            cc.append(('%s %s %s' % (init.replace('CCTX', cctx), S.COQ_T[t], ce), ast_t))
            recs.append(('ast', march, src, detail))
        if out is Diag:
            dist['diag'] += 1      # literal too big etc.: not modelled, skip
            continue
        dist['ok' if isinstance(out, OkV) else 'internal'] += 1
        cc.append(('%s %s %s (%s %s %s)' % (ginit, cctx, S.COQ_T[t], init.replace('CCTX', cctx), S.COQ_T[t], ce), out))
        recs.append(('image', march, src, detail))
    ctx.cov['stages']['correspondence_distribution'] = dist
    bad = ctx.run_cases('ceval', mods, cc)
    if bad:
        for i in bad[:5]:
            ctx.log('model/implementation disagree:', recs[i])
        ctx.failed_stages.append(('correspondence', 'model disagrees with the front-end on %d cases, first: %r'
                                  % (len(bad), recs[bad[0]])))
    return bad


# ------------------------------------------------------------------ search: implementation vs independent oracle
TYPING_WITNESSES = [   # typing defects fixed by c83990b (C01): re-executed on every run
    ('x86_64', 'int g = (-1ll) < 1ul;', 0), ('arm', 'int g = (-1l) < 1u;', 0),
    ('msp430', 'int g = ((unsigned short)65535u) > 0;', 1),
]


def check_one(ctx, march, t, e, src, stats):
    """implementation vs oracle on one program; returns True when it was a defined, compared case"""
    dm, _, little = target_dm(march)
    v = S.ev(dm, e)
    if v is None:
        stats['undefined'] += 1
        return False
    exp = spec_bytes(dm, little, t, v)
    _, out, detail = front_end(march, src)
    ctx.cov['evaluations'] += 1
    if isinstance(out, OkV) and out.v == exp:
        stats['agree'] += 1
        return True
    actual = out.v.hex() if isinstance(out, OkV) else detail
    infrag = S.sema_agrees(dm, e)
    rec = {'fn': 'c_to_ir global initializer' if infrag else 'expression typing (get_common_type/promote)',
           'args': [march, src], 'expected': exp.hex(), 'actual': actual,
           'expected_value': S.convert(dm, t, v), 'in_proved_fragment': infrag,
           'how_to_replay': "PYTHONPATH=%s /venv/bin/python -c \"import io; from ppci.api import c_to_ir; "
                            "m = c_to_ir(io.StringIO('%s'), '%s'); print([v.value for v in m.variables])\""
                            % (REPO, src, march)}
    if infrag:
        stats['violations'] += 1
        ctx.violation(rec)
    else:
        stats['typing_deviation'] += 1
        rec['key'] = 'typing'
        rec['class'] = 'outside-fragment'
        ctx.violation(rec)
    return True


def search(ctx, cases=None):
    stats = {'agree': 0, 'undefined': 0, 'violations': 0, 'typing_deviation': 0, 'witnesses': 0}
    # the witnesses of the fixed defects are re-executed on every run
    for march in TARGETS:
        dm, _, little = target_dm(march)
        umax = (1 << dm['int']) - 1
        wit = FIXED_WITNESSES + [('unsigned arithmetic not reduced modulo 2^N (UINT_MAX + 1)', 'llong',
                                  ('bin', '+', ('lit', 'uint', umax), ('lit', 'uint', 1)))]
        for what, t, e in wit:
            src = '%s g = %s;' % (S.C_T[t], S.render(dm, e))
            stats['witnesses'] += 1
            check_one(ctx, march, t, S.desugar(dm, e), src, stats)
    for march, src, expv in TYPING_WITNESSES:
        dm, _, little = target_dm(march)
        _, out, detail = front_end(march, src)
        exp = spec_bytes(dm, little, 'int', expv)
        stats['witnesses'] += 1
        if not (isinstance(out, OkV) and out.v == exp):
            stats['violations'] += 1
            ctx.violation({'fn': 'expression typing (get_common_type/promote)', 'args': [march, src],
                           'expected': exp.hex(), 'actual': out.v.hex() if isinstance(out, OkV) else detail})
    deep = (not ctx.quick()) or bool(ctx.failed_stages)
    if cases is None:
        cases = gen_cases(ctx, 700 if deep else 120, 5)
    nontriv = set()
    for (march, t, e, src) in cases:
        if check_one(ctx, march, t, e, src, stats) and S.size(e) > 1:
            nontriv.add((march, t, src))
    # uses other than global initializers: enumerator values, array sizes, case labels (same evaluator)
    for march in TARGETS:
        dm, _, little = target_dm(march)
        for k in range(60 if deep else 12):
            e = S.gen_defined(ctx.rng, dm, 3, types=['int', 'uint', 'long'], small=True)
            d = S.desugar(dm, e)
            v = S.ev(dm, d)
            if v is None or not S.sema_agrees(dm, d):
                continue
            c = S.render(dm, e)
            progs = []
            if S.fits(dm, 'int', v):
                progs.append(('enum', 'enum E { A = %s }; int g = A;' % c, spec_bytes(dm, little, 'int', v)))
                progs.append(('case', 'int f(int x) { switch (x) { case %s: return 1; default: return 0; } } int g = 1;' % c,
                              spec_bytes(dm, little, 'int', 1)))
            if 1 <= v <= 64:
                progs.append(('array', 'char a[%s]; int g = sizeof(a);' % c, spec_bytes(dm, little, 'int', v)))
            for kind, src, exp in progs:
                _, out, detail = front_end(march, src)
                ctx.cov['evaluations'] += 1
                if not (isinstance(out, OkV) and out.v == exp):
                    stats['violations'] += 1
                    ctx.violation({'fn': 'constant expression as ' + kind, 'args': [march, src], 'expected': exp.hex(),
                                   'actual': out.v.hex() if isinstance(out, OkV) else detail})
                else:
                    stats['agree'] += 1
    enum_operands(ctx, stats, deep)
    ctx.cov['distinct_nontrivial'] += len(nontriv)
    ctx.cov['stages']['search'] = stats
    return cases


def enum_operands(ctx, stats, deep):
    """operands of enumerated type (both / left only / right only) for every binary operator, with negative values,
    in every constant context: global initializer, enumerator value, array bound, case label (duplicate detection).
    Enumeration constants have type int (C11 6.7.2.2p3), so the oracle evaluates the same expression over int."""
    pairs = [(-7, 2), (7, -2), (-8, 3), (-7, -2), (5, 5)] if deep else [(-7, 2), (7, -2), (-8, 3)]
    n = 0
    for march in (TARGETS if deep else ['x86_64', 'msp430']):
        dm, _, little = target_dm(march)
        for a, b in pairs:
            decl = 'enum E { EA = %d, EB = %d };' % (a, b)
            for op in S.BINOPS:
                v = S.ev(dm, S.desugar(dm, ('bin', op, ('lit', 'int', a), ('lit', 'int', b))))
                if v is None:
                    continue
                for kind, l, r in (('both', 'EA', 'EB'), ('left', 'EA', '(%d)' % b), ('right', '(%d)' % a, 'EB')):
                    e = '%s %s %s' % (l, op, r)
                    progs = [('global', '%s int g = %s;' % (decl, e), OkV(spec_bytes(dm, little, 'int', v))),
                             ('enumerator', '%s enum F { FX = %s }; int g = FX;' % (decl, e), OkV(spec_bytes(dm, little, 'int', v))),
                             ('case', '%s int f(int x) { switch (x) { case %s: return 1; case %d: return 2; default: return 0; } return 3; } int g = 1;'
                              % (decl, e, v), Diag)]
                    if 1 <= v + 20 <= 64:
                        progs.append(('array', '%s char arr[(%s) + 20]; int g = sizeof(arr);' % (decl, e),
                                      OkV(spec_bytes(dm, little, 'int', v + 20))))
                    for ctxname, src, exp in progs:
                        _, out, detail = front_end(march, src)
                        n += 1
                        ok = (exp is Diag and out is Diag) or (isinstance(exp, OkV) and isinstance(out, OkV) and out.v == exp.v)
                        if ok:
                            stats['agree'] += 1
                            continue
                        stats['violations'] += 1
                        ctx.violation({'fn': 'enum-typed operands (%s) in %s' % (kind, ctxname), 'args': [march, src],
                                       'expected': 'duplicate case diagnostic' if exp is Diag else exp.v.hex(),
                                       'expected_value': v,
                                       'actual': out.v.hex() if isinstance(out, OkV) else (detail or str(out)),
                                       'how_to_replay': 'ppci.api.c_to_ir(io.StringIO(%r), %r); read the image of g' % (src, march)})
    ctx.cov['evaluations'] += n
    stats['enum_operand_programs'] = n


# ------------------------------------------------------------------ enumerator values (CContext._calculate_enum_values)
def real_enum_values(march, src):
    """values of the constants of the enum type of the declared object `x`, in declaration order, through
    CContext.get_enum_value -> _calculate_enum_values; plus the typed ASTs of the defining expressions"""
    from ppci.lang.c import COptions
    from ppci.lang.c.context import CContext
    from ppci.lang.c.builder import _parse
    from ppci.common import CompilerError
    context = CContext(COptions(), arch_info(march))
    asts = None
    try:
        unit = _parse(io.StringIO(src), 'x.c', context)
        typ = [d.typ for d in unit.declarations if getattr(d, 'name', None) == 'x'][0]
        asts = [None if k.value is None else export_ast(k.value) for k in typ.constants]
        return OkV([context.get_enum_value(typ, k) for k in typ.constants]), asts, ''
    except CompilerError as ex:
        return Diag, asts, 'CompilerError: %s' % ex.msg
    except RecursionError:
        return Internal, asts, 'RecursionError'
    except Exception as ex:   # noqa: BLE001
        return Internal, asts, '%s: %s' % (type(ex).__name__, str(ex)[:100])


def enum_value_cases(ctx, n_per_target):
    """[(march, [None | tree], C source)]: enumerator lists with and without defining expressions, values around
    INT_MIN / INT_MAX (so that `previous + 1` and explicit values leave the range of int)"""
    rng = ctx.rng
    out = []
    for march in TARGETS:
        dm, _, _ = target_dm(march)
        hi = S.limits(dm, 'int')[1]
        pool = [('lit', 'int', hi), ('lit', 'int', hi - 1), ('un', '-', ('lit', 'int', hi)),
                ('bin', '-', ('un', '-', ('lit', 'int', hi)), ('lit', 'int', 1)), ('lit', 'uint', hi + 1),
                ('lit', 'llong', hi + 1), ('un', '-', ('lit', 'llong', hi + 2)), ('lit', 'int', 0),
                ('bin', '/', ('un', '-', ('lit', 'int', 7)), ('lit', 'int', 2)),
                ('bin', '%', ('un', '-', ('lit', 'int', 7)), ('lit', 'int', 3))]
        fixed = [[('lit', 'int', hi), None], [pool[3], None, None], [None, None, None], [pool[4]], [pool[6], None],
                 [('lit', 'int', hi - 1), None, None]]
        for i in range(n_per_target):
            if i < len(fixed):
                l = fixed[i]
            else:
                l = []
                for _ in range(rng.randint(1, 5)):
                    r = rng.random()
                    l.append(None if r < 0.45 else rng.choice(pool) if r < 0.7 else
                             S.gen_defined(rng, dm, rng.randint(1, 3), types=['int', 'uint', 'long'], small=True))
            src = 'enum E { %s } x;' % ', '.join('K%d' % j if e is None else 'K%d = %s' % (j, S.render(dm, e))
                                                  for j, e in enumerate(l))
            out.append((march, [None if e is None else S.desugar(dm, e) for e in l], src))
    return out


def enum_values(ctx, n_per_target):
    """correspondence Model.CEnum.enum_values = CContext._calculate_enum_values (values, diagnostic) and elab = typed
    AST of the defining expressions; search: the implementation against the C11 6.7.2.2 rule evaluated in Python"""
    cases = enum_value_cases(ctx, n_per_target)
    cc, recs = [], []
    stats = {'lists': len(cases), 'ok': 0, 'diag': 0, 'internal': 0, 'undefined': 0, 'violations': 0}
    for march, l, src in cases:
        dm, cctx, _ = target_dm(march)
        out, asts, detail = real_enum_values(march, src)
        ctx.cov['evaluations'] += 1
        stats['ok' if isinstance(out, OkV) else 'diag' if out is Diag else 'internal'] += 1
        cc.append(('enum_values %s [%s]' % (cctx, '; '.join(
            'None' if e is None else 'Some (elab %s %s)' % (cctx, S.coq_expr(e)) for e in l)), out))
        recs.append((march, src, detail))
        for e, a in zip(l, asts or []):
            if e is not None and a is not None:
                cc.append(('elab %s %s' % (cctx, S.coq_expr(e)), a))
                recs.append((march, src, 'typed AST of a defining expression'))
        # independent oracle: explicit value, else previous + 1 (first 0); all representable as int, else diagnostic
        exp, nxt = [], 0
        for e in l:
            v = nxt if e is None else S.ev(dm, e)
            if v is None:
                exp = None
                break
            if not S.fits(dm, 'int', v):
                exp = Diag
                break
            exp.append(v)
            nxt = v + 1
        if exp is None:
            stats['undefined'] += 1
            continue
        good = (out is Diag) if exp is Diag else (isinstance(out, OkV) and out.v == exp)
        if not good:
            stats['violations'] += 1
            ctx.violation({'fn': 'CContext._calculate_enum_values', 'args': [march, src],
                           'expected': 'diagnostic (value not representable as int)' if exp is Diag else exp,
                           'actual': out.v if isinstance(out, OkV) else (detail or str(out)),
                           'how_to_replay': 'parse %r for %s with ppci.lang.c.builder._parse and read '
                                            'context.get_enum_value(typ, k) for the constants of enum E' % (src, march)})
        elif len(l) > 1 or any(e is not None and S.size(e) > 1 for e in l):
            ctx.cov['distinct_nontrivial'] += 1
    ctx.cov['stages']['enum_values'] = stats
    ctx.note_sample({'target': cases[-1][0], 'program': cases[-1][2]})
    bad = ctx.run_cases('cenum', ['Spec.CIntSpec', 'Model.CEval', 'Model.CSema', 'Model.CEnum'], cc)
    if bad:
        for i in bad[:5]:
            ctx.log('enum model/implementation disagree:', recs[i])
        ctx.failed_stages.append(('correspondence', 'Model.CEnum disagrees with CContext._calculate_enum_values on %d '
                                  'cases, first: %r' % (len(bad), recs[bad[0]])))


def spec_cross_check(ctx, cases):
    """the Python oracle used by the search equals the Coq Spec (value and type) on the generated trees"""
    cc = []
    for (march, t, e, src) in cases:
        dm, _, _ = target_dm(march)
        cdm = S.coq_dm(dm)
        cc.append(('eval %s %s' % (cdm, S.coq_expr(e)), S.ev(dm, e)))
        cc.append(('ity_tag (type_of %s %s)' % (cdm, S.coq_expr(e)), S.TYPES.index(S.type_of(dm, e))))
        cc.append(('sema_agrees %s %s %s' % (target_dm(march)[1], cdm, S.coq_expr(e)), S.sema_agrees(dm, e)))
    bad = ctx.run_cases('spec', ['Spec.CIntSpec', 'Model.CEval', 'Model.CSema'], cc)
    if bad:
        ctx.log('Python oracle and Coq Spec disagree on', [cases[i // 3][3] for i in bad[:3]])
        ctx.failed_stages.append(('oracle', 'tools/props/cintspec.py disagrees with Spec/CIntSpec.v on %d cases' % len(bad)))


def gcc_validation(ctx, n):
    """the spec reading itself against gcc (LP64): value, sizeof and signedness of the type"""
    dm = S.DM_LP64
    es = [S.gen_defined(ctx.rng, dm, 4) for _ in range(n)]
    try:
        vals = S.gcc_values([S.render(dm, e) for e in es])
    except (OSError, Exception) as ex:   # noqa: BLE001
        ctx.log('gcc oracle unavailable:', ex)
        return
    bad = []
    for e, g in zip(es, vals):
        d = S.desugar(dm, e)
        t = S.type_of(dm, d)
        exp = (S.convert(dm, 'llong', S.ev(dm, d)), S.nbits(dm, t) // 8, int(S.signed(dm, t)))
        if g != exp:
            bad.append((S.render(dm, e), exp, g))
    ctx.cov['stages']['gcc_validation_of_spec'] = {'expressions': n, 'disagreements': len(bad)}
    ctx.cov['evaluations'] += n
    if bad:
        ctx.log('spec oracle disagrees with gcc:', bad[:3])
        ctx.failed_stages.append(('spec_validation', 'CIntSpec disagrees with gcc on %r' % (bad[0],)))


def run(ctx):
    fixed = is_fixed_tree()
    ctx.cov['stages']['tree'] = 'fixed (fixes/C27-*.diff applied)' if fixed else 'UNFIXED evaluator'
    regen(ctx)            # TieBroken on the unfixed tree (c_div/c_rem/c_wrap missing) -> driver calls search()
    ok, _ = ctx.build(['Proofs/C27_ceval.vo', 'Proofs/C27_enum.vo'])
    if ok:
        ctx.check_props('Props/C27.v')
    deep = not ctx.quick()
    cases = gen_cases(ctx, 500 if deep else 110, 5)
    if ctx.build(['Model/CSema.vo', 'Model/CEvalOrig.vo', 'Model/CEnum.vo', 'Lib/Val.vo'])[0]:
        correspondence(ctx, cases, True)
        enum_values(ctx, 150 if deep else 40)
        spec_cross_check(ctx, cases[:: 2])
    for c in cases[:: max(1, len(cases) // 8)]:
        ctx.note_sample({'target': c[0], 'program': c[3]})
    gcc_validation(ctx, 400 if deep else 80)
    search(ctx, cases if not deep else None)
    ctx.cov['exhaustive'] = False


MANIFEST = {
    'text': 'proof: unbounded Coq theorems that the constant-expression evaluator of '
            'ppci/lang/c/eval.py (with fixes/C27-operators, C27-convert, C27-sema-promotions applied) returns exactly the '
            'C11 value (truncating / and %, shifts, bitwise, comparisons, && || ! ?:, casts, integer promotions, usual '
            'arithmetic conversions, wrap of unsigned results) and that `T g = e;` is packed as the object representation '
            'of the value converted to T, for every data model and every expression of the modelled syntax (c27_eval_exact, c27_converted; '
            'c27_sema_agrees_all: the typing of CSemantics, with c83990b, is C typing on every operand pair). The defects of the previous evaluator are recorded as refuted theorems '
            'with witnesses (7 % 3, 1 < 2, -7 / 2, UINT_MAX + 1u, unsigned char g = 300).',
    'note': 'trusted: Coq kernel; py2coq + op_map extractor (helpers and operator lambdas regenerated from eval.py per run); '
            'hand models of eval_expr/pack (Model/CEval.v) and of CSemantics typing (Model/CSema.v), cross-checked per run '
            'against the real typed AST and the real global image; the reading of C11 in Spec/CIntSpec.v (validated against '
            'gcc on LP64 per run). Enumerator values: CContext._calculate_enum_values is modelled (Model/CEnum.v, correspondence per run) and '
            'proved against C11 6.7.2.2 (c27_enum_values_exact). Not modelled: sizeof, enum constants as operands, floats, '
            'pointers/addresses in initializers; array sizes and case labels are covered by search only. No axioms.',
    'technique': 'Coq proof over regenerated operator tables + hand model with differential correspondence',
}
