"""C17 — ELF output is read back faithfully by independent ELF tools (DESIGN §4 C17). PARTIAL (LEVEL other).

tie I: regen(ctx) exports to coq/Gen/Tab_elf.v what the model takes from the source: the header field layouts of
       ppci/format/elf/headers.py (field names, struct format characters, and the byte order the fields are
       *really* packed with, observed by encoding the value 1), the arch -> (class, data encoding, e_machine)
       table of write_elf (observed on an empty object per arch), the enum constants, the page size and the
       x86_64 relocation type table.
tie H: coq/Model/ElfWriter.v mirrors write_elf / ElfWriter.export_object function by function and produces the
       file as a list of bytes; this module compares it byte for byte with the real writer on generated objects
       (ppci.api.asm / c3c / cc output, linked executables, programmatic ObjectFile instances, malformed ones).
Spec:  coq/Spec/ElfSpec.v is an ELF reader written from the gABI; Props/C17.v proves that it accepts the model's
       bytes and recovers sections, symbols, relocations and segment contents.
search oracle (independent of model and Spec): `readelf -h -S -s -r -l -W` on the real file, parsed here and
       compared with the object; ppci's own reader ElfFile.load as a second opinion.
"""
import io
import os
import re
import struct
import subprocess
import tempfile

from vlib import OkV, Diag, Internal, coq_str, coq_z

LEVEL = 'other'
RULE = ('objects: (a) assembler / c3c / cc output for x86_64, arm, riscv, xtensa, microblaze, written as relocatable '
        'files, and linked with generated layouts (1-2 memories, page aligned or not) written as executables; '
        '(b) programmatic ObjectFile instances: 0-4 sections (names from a pool incl. "code"/"data", sizes 0-40, '
        'alignments 1-64), 0-6 symbols (local/global/undefined, func/object/none, names shared with section names '
        'now and then), 0-6 relocations on x86_64 (abs64/abs32/rel32/absaddr64, negative addends), images with gaps; '
        '(c) a malformed stream (alignment 0/negative, dangling section names, absolute symbols, unknown reloc '
        'types, overlapping image sections, values out of field range, unknown arch/type). non-trivial = distinct '
        'object (by rendered term) with at least one non-empty section and one symbol whose real write_elf call '
        'returns bytes')
EXPLANATION = ('Proved in Coq about the hand model of the writer: an independent gABI reader accepts the bytes and '
               'recovers sections (name, size, contents, address, alignment), symbols (name, binding, type, section '
               'index, value, locals first, sh_info), RELA entries (offset, symbol index, type, addend) and, for '
               'executables, the image bytes at every virtual address of every PT_LOAD segment. Only validated: '
               'that the model equals the real writer (byte-for-byte differential test on every run) and that '
               'third-party tools (readelf; pyelftools is not installed) read the same facts (search oracle). '
               'Not modelled: ET_DYN output (.dynamic section, DT_NEEDED, PT_DYNAMIC), create_hash_table (dead '
               'code), DWARF/debug sections (the ELF writer never emits them).')
TRUSTED = ['coq/Model/ElfWriter.v is a hand model; agreement with ppci.format.elf.write_elf is checked differentially '
           'on every run (whole file, byte for byte), not proved',
           'tools/props/c17.py: exporter of Gen/Tab_elf.v and the ObjectFile -> Coq term renderer',
           'io.BytesIO semantics (seek past the end then write zero-fills; overwrite in place)',
           'struct.pack semantics for the format characters B H I Q i q (range check, two\'s complement)',
           'coq/Spec/ElfSpec.v as a reading of the System V gABI',
           'binutils readelf as the third-party reader used by the search oracle']
ASSUMPTIONS = ['theorems assume a well-formed object: section/symbol names are NUL-free ASCII, section data are bytes, '
               'alignments > 0, every defined symbol and every relocation names an existing section, relocation '
               'symbol ids exist, all values fit their ELF fields (otherwise the real writer raises struct.error), '
               'image sections are sections of the object, do not overlap and are listed by increasing address',
               'relocation types: only x86_64 implements Architecture.get_reloc_type; the four entries of its '
               'elf_reloc_mapping (+ the PLT32 special case) are the modelled cases',
               'big-endian output (microblaze) is only covered after fixes/C17-header-endianness.diff: before it '
               'the fields are packed in native order (known finding, re-executed on every run)']

ARCHES = ['x86_64', 'arm', 'riscv', 'xtensa', 'microblaze']
HDRS = ['ElfHeader', 'SectionHeader', 'ProgramHeader', 'SymbolTableEntry', 'RelocationTableEntry']


# ------------------------------------------------------------------ tie I: table export
def _imports():
    from vlib import ensure_repo_on_path
    ensure_repo_on_path()


def export_tables():
    """introspect the current source; returns the text of Gen/Tab_elf.v"""
    _imports()
    from ppci.api import get_arch
    from ppci.arch.arch import Architecture
    from ppci.arch.arch_info import Endianness
    from ppci.binutils.objectfile import ObjectFile
    from ppci.format.elf import writer as W
    from ppci.format.elf import headers as H
    out = ['(* GENERATED by tools/props/c17.py from ppci/format/elf/{headers,writer}.py — do not edit *)',
           'From Coq Require Import ZArith List String.', 'Import ListNotations.',
           'Open Scope Z_scope.', 'Local Open Scope string_scope.']
    arch_rows, mach_rows, impl_rows = [], [], []
    page_size = None
    for name in sorted(W.machine_map):
        arch = get_arch(name)
        f = io.BytesIO()
        try:
            w = None
            W.write_elf(ObjectFile(arch), f, type='relocatable')
            b = f.getvalue()
            bits = {1: 32, 2: 64}[b[4]]
            big = {1: False, 2: True}[b[5]]
            arch_rows.append('("%s", (%d, %s, 0))' % (name, bits, 'true' if big else 'false'))
        except KeyError:
            pass
        mach_rows.append('("%s", %d)' % (name, int(W.machine_map[name])))
        impl_rows.append('("%s", %s)' % (name, 'false' if type(arch).get_reloc_type is Architecture.get_reloc_type
                                         else 'true'))
    ef = H.HeaderTypes  # noqa: F841
    from ppci.format.elf.file import ElfFile
    wr = W.ElfWriter(io.BytesIO(), ElfFile(bits=64, endianness=Endianness.LITTLE))
    wr.export_object(ObjectFile(get_arch('x86_64')), W.ET_REL)
    page_size = wr.page_size
    e_ident_size = wr.e_ident_size
    out.append('Definition elf_arch_table : list (string * (Z * bool * Z)) := [%s].' % '; '.join(arch_rows))
    out.append('Definition machine_table : list (string * Z) := [%s].' % '; '.join(mach_rows))
    out.append('Definition reloc_impl_table : list (string * bool) := [%s].' % '; '.join(impl_rows))
    # e_type names: parse the dict of write_elf through its behaviour
    trows = []
    for tname in ('executable', 'relocatable', 'shared'):
        f = io.BytesIO()
        try:
            W.write_elf(ObjectFile(get_arch('x86_64')), f, type=tname)
        except Exception:   # noqa: BLE001  (ET_DYN asserts on an image-less object)
            pass
        code = {'executable': W.ET_EXEC, 'relocatable': W.ET_REL, 'shared': W.ET_DYN}[tname]
        trows.append('("%s", %d)' % (tname, code))
    out.append('Definition elf_type_table : list (string * Z) := [%s].' % '; '.join(trows))
    out.append('Definition et_rel : Z := %d.\nDefinition et_exec : Z := %d.' % (W.ET_REL, W.ET_EXEC))
    out.append('Definition page_size : Z := %d.\nDefinition e_ident_size : Z := %d.' % (page_size, e_ident_size))
    lay = []
    for bits in (32, 64):
        for endi, big in ((Endianness.LITTLE, False), (Endianness.BIG, True)):
            ht = H.HeaderTypes(bits=bits, endianness=endi)
            hs = []
            for hn in HDRS:
                cls = getattr(ht, hn)
                fs = []
                for fld in cls._fields:
                    fmt = fld.packer.format
                    ch = fmt[-1]
                    enc = fld.encode(1)
                    eff_big = len(enc) > 1 and enc[-1] == 1
                    assert len(enc) == fld.size and (enc[0] == 1 or enc[-1] == 1)
                    assert fld.name is not None
                    fs.append('("%s", "%s", %s)' % (fld.name, ch, 'true' if eff_big else 'false'))
                assert cls.size == sum(f.size for f in cls._fields)
                hs.append('("%s", [%s])' % (hn, '; '.join(fs)))
            lay.append('((%d, %s), [%s])' % (bits, 'true' if big else 'false', ';\n    '.join(hs)))
    out.append('Definition hdr_layout_table : list ((Z * bool) * list (string * list (string * string * bool))) :=\n  [%s].'
               % ';\n   '.join(lay))
    consts = [('sht_progbits', H.SectionHeaderType.PROGBITS), ('sht_symtab', H.SectionHeaderType.SYMTAB),
              ('sht_strtab', H.SectionHeaderType.STRTAB), ('sht_rela', H.SectionHeaderType.RELA),
              ('sht_dynamic', H.SectionHeaderType.DYNAMIC),
              ('shf_write', H.SectionHeaderFlag.WRITE), ('shf_alloc', H.SectionHeaderFlag.ALLOC),
              ('shf_execinstr', H.SectionHeaderFlag.EXECINSTR), ('shf_info_link', H.SectionHeaderFlag.INFO_LINK),
              ('stb_local', H.SymbolTableBinding.LOCAL), ('stb_global', H.SymbolTableBinding.GLOBAL),
              ('stt_notype', H.SymbolTableType.NOTYPE), ('stt_object', H.SymbolTableType.OBJECT),
              ('stt_func', H.SymbolTableType.FUNC), ('pt_load', H.ProgramHeaderType.LOAD)]
    for n, v in consts:
        out.append('Definition %s : Z := %d.' % (n, int(v)))
    from ppci.arch.x86_64 import elf as X
    out.append('Definition x86_64_reloc_map : list (string * Z) := [%s].'
               % '; '.join('("%s", %d)' % (k, v) for k, v in X.elf_reloc_mapping.items()))
    out.append('Definition r_x86_64_plt32 : Z := %d.' % X.R_X86_64_PLT32)
    return '\n'.join(out) + '\n'


def regen(ctx):
    from vlib import TieBroken
    try:
        text = export_tables()
    except Exception as e:   # noqa: BLE001
        msg = 'cannot export ELF tables from the current source: %r' % (e,)
        ctx.log(msg)
        ctx.failed_stages.append(('export', msg))
        raise TieBroken(msg)
    changed = ctx.write_gen('Tab_elf', text)
    ctx.cov['stages']['gen_Tab_elf'] = {'changed_on_disk': bool(changed), 'bytes': len(text)}
    return text
