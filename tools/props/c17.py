"""C17 — ELF output is read back faithfully by independent ELF tools (DESIGN §4 C17). PARTIAL (LEVEL other).

tie I: regen(ctx) exports to coq/Gen/Tab_elf.v what the model takes from the source: the header field layouts of
       ppci/format/elf/headers.py (field names, struct format characters, and the byte order the fields are
       *really* packed with, observed by encoding the value 1), the arch -> (class, data encoding, e_machine)
       table of write_elf (observed on an empty object per arch), the enum constants, the page size and the
       x86_64 relocation type table.
tie H: coq/Model/ElfWriter.v mirrors write_elf / ElfWriter.export_object function by function and produces the
       file as a list of bytes; this module compares it byte for byte with the real writer on generated objects
       (ppci.api.asm / c3c / cc output, linked executables, programmatic ObjectFile instances, malformed ones).
Spec:  coq/Spec/ElfSpec.v is an ELF reader written from the gABI; Props/C17.v proves that it accepts the model's
       bytes and recovers sections, symbols, relocations and segment contents.
search oracle (independent of model and Spec): `readelf -h -S -s -r -l -W` on the real file, parsed here and
       compared with the object; ppci's own reader ElfFile.load as a second opinion.
"""
import io
import os
import re
import struct
import subprocess
import tempfile

from vlib import OkV, Diag, Internal, coq_str, coq_z

LEVEL = 'other'
RULE = ('objects: (a) assembler / c3c / cc output for x86_64, arm, riscv, xtensa, microblaze, written as relocatable '
        'files, and linked with generated layouts (1-2 memories, page aligned or not) written as executables; '
        '(b) programmatic ObjectFile instances: 0-4 sections (names from a pool incl. "code"/"data", sizes 0-40, '
        'alignments 1-64), 0-6 symbols (local/global/undefined, func/object/none, names shared with section names '
        'now and then), 0-6 relocations on x86_64 (abs64/abs32/rel32/absaddr64, negative addends), images with gaps; '
        '(c) a malformed stream (alignment 0/negative, dangling section names, absolute symbols, unknown reloc '
        'types, overlapping image sections, values out of field range, unknown arch/type). non-trivial = distinct '
        'object (by rendered term) with at least one non-empty section and one symbol whose real write_elf call '
        'returns bytes')
EXPLANATION = ('Proved in Coq about the hand model of the writer: an independent gABI reader accepts the bytes and '
               'recovers sections (name, size, contents, address, alignment), symbols (name, binding, type, section '
               'index, value, locals first, sh_info), RELA entries (offset, symbol index, type, addend) and, for '
               'executables, the image bytes at every virtual address of every PT_LOAD segment (layers + bounded family); '
               'unbounded for every object: the offset bookkeeping of export_object (c17_file_layout: section and image '
               'byte ranges of the final file hold the section/image bytes; reader corollaries for contents, address, '
               'alignment, name index and segment bytes incl. p_offset/p_vaddr congruence). Only validated: '
               'that the model equals the real writer (byte-for-byte differential test on every run) and that '
               'third-party tools (readelf; pyelftools is not installed) read the same facts (search oracle). '
               'Not modelled: ET_DYN output (.dynamic section, DT_NEEDED, PT_DYNAMIC), create_hash_table (dead '
               'code), DWARF/debug sections (the ELF writer never emits them).')
TRUSTED = ['coq/Model/ElfWriter.v is a hand model; agreement with ppci.format.elf.write_elf is checked differentially '
           'on every run (whole file, byte for byte), not proved',
           'tools/props/c17.py: exporter of Gen/Tab_elf.v and the ObjectFile -> Coq term renderer',
           'io.BytesIO semantics (seek past the end then write zero-fills; overwrite in place)',
           'struct.pack semantics for the format characters B H I Q i q (range check, two\'s complement)',
           'coq/Spec/ElfSpec.v as a reading of the System V gABI',
           'binutils readelf as the third-party reader used by the search oracle']
ASSUMPTIONS = ['theorems assume a well-formed object: section/symbol names are NUL-free ASCII, section data are bytes, '
               'alignments > 0, every defined symbol and every relocation names an existing section, relocation '
               'symbol ids exist, all values fit their ELF fields (otherwise the real writer raises struct.error), '
               'image sections are sections of the object, do not overlap and are listed by increasing address',
               'relocation types: only x86_64 implements Architecture.get_reloc_type; the four entries of its '
               'elf_reloc_mapping (+ the PLT32 special case) are the modelled cases',
               'big-endian output (microblaze) is only covered after fixes/C17-header-endianness.diff: before it '
               'the fields are packed in native order (known finding, re-executed on every run)']

ARCHES = ['x86_64', 'arm', 'riscv', 'xtensa', 'microblaze']
HDRS = ['ElfHeader', 'SectionHeader', 'ProgramHeader', 'SymbolTableEntry', 'RelocationTableEntry']


# ------------------------------------------------------------------ tie I: table export
def _imports():
    from vlib import ensure_repo_on_path
    ensure_repo_on_path()


def export_tables():
    """introspect the current source; returns the text of Gen/Tab_elf.v"""
    _imports()
    from ppci.api import get_arch
    from ppci.arch.arch import Architecture
    from ppci.arch.arch_info import Endianness
    from ppci.binutils.objectfile import ObjectFile
    from ppci.format.elf import writer as W
    from ppci.format.elf import headers as H
    out = ['(* GENERATED by tools/props/c17.py from ppci/format/elf/{headers,writer}.py — do not edit *)',
           'From Coq Require Import ZArith List String.', 'Import ListNotations.',
           'Open Scope Z_scope.', 'Local Open Scope string_scope.']
    arch_rows, mach_rows, impl_rows = [], [], []
    page_size = None
    for name in sorted(W.machine_map):
        arch = get_arch(name)
        f = io.BytesIO()
        try:
            w = None
            W.write_elf(ObjectFile(arch), f, type='relocatable')
            b = f.getvalue()
            bits = {1: 32, 2: 64}[b[4]]
            big = {1: False, 2: True}[b[5]]
            arch_rows.append('("%s", (%d, %s, 0))' % (name, bits, 'true' if big else 'false'))
        except KeyError:
            pass
        mach_rows.append('("%s", %d)' % (name, int(W.machine_map[name])))
        impl_rows.append('("%s", %s)' % (name, 'false' if type(arch).get_reloc_type is Architecture.get_reloc_type
                                         else 'true'))
    ef = H.HeaderTypes  # noqa: F841
    from ppci.format.elf.file import ElfFile
    wr = W.ElfWriter(io.BytesIO(), ElfFile(bits=64, endianness=Endianness.LITTLE))
    wr.export_object(ObjectFile(get_arch('x86_64')), W.ET_REL)
    page_size = wr.page_size
    e_ident_size = wr.e_ident_size
    out.append('Definition elf_arch_table : list (string * (Z * bool * Z)) := [%s].' % '; '.join(arch_rows))
    out.append('Definition machine_table : list (string * Z) := [%s].' % '; '.join(mach_rows))
    out.append('Definition reloc_impl_table : list (string * bool) := [%s].' % '; '.join(impl_rows))
    # e_type names: parse the dict of write_elf through its behaviour
    trows = []
    for tname in ('executable', 'relocatable', 'shared'):
        f = io.BytesIO()
        try:
            W.write_elf(ObjectFile(get_arch('x86_64')), f, type=tname)
        except Exception:   # noqa: BLE001  (ET_DYN asserts on an image-less object)
            pass
        code = {'executable': W.ET_EXEC, 'relocatable': W.ET_REL, 'shared': W.ET_DYN}[tname]
        trows.append('("%s", %d)' % (tname, code))
    out.append('Definition elf_type_table : list (string * Z) := [%s].' % '; '.join(trows))
    out.append('Definition et_rel : Z := %d.\nDefinition et_exec : Z := %d.' % (W.ET_REL, W.ET_EXEC))
    out.append('Definition page_size : Z := %d.\nDefinition e_ident_size : Z := %d.' % (page_size, e_ident_size))
    lay = []
    for bits in (32, 64):
        for endi, big in ((Endianness.LITTLE, False), (Endianness.BIG, True)):
            ht = H.HeaderTypes(bits=bits, endianness=endi)
            hs = []
            for hn in HDRS:
                cls = getattr(ht, hn)
                fs = []
                for fld in cls._fields:
                    fmt = fld.packer.format
                    ch = fmt[-1]
                    enc = fld.encode(1)
                    eff_big = len(enc) > 1 and enc[-1] == 1
                    assert len(enc) == fld.size and (enc[0] == 1 or enc[-1] == 1)
                    assert fld.name is not None
                    fs.append('("%s", "%s", %s)' % (fld.name, ch, 'true' if eff_big else 'false'))
                assert cls.size == sum(f.size for f in cls._fields)
                hs.append('("%s", [%s])' % (hn, '; '.join(fs)))
            lay.append('((%d, %s), [%s])' % (bits, 'true' if big else 'false', ';\n    '.join(hs)))
    out.append('Definition hdr_layout_table : list ((Z * bool) * list (string * list (string * string * bool))) :=\n  [%s].'
               % ';\n   '.join(lay))
    consts = [('sht_progbits', H.SectionHeaderType.PROGBITS), ('sht_symtab', H.SectionHeaderType.SYMTAB),
              ('sht_strtab', H.SectionHeaderType.STRTAB), ('sht_rela', H.SectionHeaderType.RELA),
              ('sht_dynamic', H.SectionHeaderType.DYNAMIC),
              ('shf_write', H.SectionHeaderFlag.WRITE), ('shf_alloc', H.SectionHeaderFlag.ALLOC),
              ('shf_execinstr', H.SectionHeaderFlag.EXECINSTR), ('shf_info_link', H.SectionHeaderFlag.INFO_LINK),
              ('stb_local', H.SymbolTableBinding.LOCAL), ('stb_global', H.SymbolTableBinding.GLOBAL),
              ('stt_notype', H.SymbolTableType.NOTYPE), ('stt_object', H.SymbolTableType.OBJECT),
              ('stt_func', H.SymbolTableType.FUNC), ('pt_load', H.ProgramHeaderType.LOAD)]
    for n, v in consts:
        out.append('Definition %s : Z := %d.' % (n, int(v)))
    # absolute symbols (defined, no section): KeyError before fixes/C17-absolute-symbols.diff, SHN_ABS after
    ao = ObjectFile(get_arch('x86_64'))
    ao.add_symbol(0, 'a', 'global', 77, None, 'object', 0)
    f = io.BytesIO()
    try:
        W.write_elf(ao, f, type='relocatable')
        b = f.getvalue()
        shoff = int.from_bytes(b[40:48], 'little')
        symoff = int.from_bytes(b[shoff + 64 + 24:shoff + 64 + 32], 'little')     # section 1 = .symtab
        shndx = int.from_bytes(b[symoff + 24 + 6:symoff + 24 + 8], 'little')
        val = int.from_bytes(b[symoff + 24 + 8:symoff + 24 + 16], 'little')
        assert val == 77, val
        out.append('Definition abs_symbol_shndx : option Z := Some %d.' % shndx)
    except KeyError:
        out.append('Definition abs_symbol_shndx : option Z := None.')
    # PT_LOAD congruence: is p_offset % page == p_vaddr % page for an image at a non page-aligned address?
    from ppci.binutils.objectfile import Section, Image
    co = ObjectFile(get_arch('x86_64'))
    cs = Section('code')
    cs.address = 0x40010
    cs.add_data(bytes([1, 2, 3]))
    co.add_section(cs)
    ci = Image('code', 0x40010)
    ci.add_section(cs)
    co.add_image(ci)
    f = io.BytesIO()
    W.write_elf(co, f, type='executable')
    p_offset = int.from_bytes(f.getvalue()[64 + 8:64 + 16], 'little')
    out.append('Definition segments_congruent : bool := %s.' % ('true' if p_offset % page_size == 0x10 else 'false'))
    assert p_offset % page_size in (0, 0x10), p_offset
    from ppci.arch.x86_64 import elf as X
    out.append('Definition x86_64_reloc_map : list (string * Z) := [%s].'
               % '; '.join('("%s", %d)' % (k, v) for k, v in X.elf_reloc_mapping.items()))
    out.append('Definition r_x86_64_plt32 : Z := %d.' % X.R_X86_64_PLT32)
    return '\n'.join(out) + '\n'


def regen(ctx):
    from vlib import TieBroken
    try:
        text = export_tables()
    except Exception as e:   # noqa: BLE001
        msg = 'cannot export ELF tables from the current source: %r' % (e,)
        ctx.log(msg)
        ctx.failed_stages.append(('export', msg))
        raise TieBroken(msg)
    changed = ctx.write_gen('Tab_elf', text)
    ctx.cov['stages']['gen_Tab_elf'] = {'changed_on_disk': bool(changed), 'bytes': len(text)}
    return text


# ------------------------------------------------------------------ ObjectFile -> Coq term
def _s(x):
    return coq_str(x)


def sec_term(s):
    return ('{| ms_name := %s; ms_addr := %s; ms_align := %s; ms_data := [%s] |}'
            % (_s(s.name), coq_z(s.address), coq_z(s.alignment), '; '.join(str(b) for b in s.data)))


def obj_term(obj):
    syms = []
    for y in obj.symbols:
        syms.append('{| my_id := %s; my_name := %s; my_global := %s; my_value := %s; my_section := %s; '
                    'my_typ := %s; my_size := %s |}'
                    % (coq_z(y.id), _s(y.name), 'true' if y.binding == 'global' else 'false',
                       'None' if y.value is None else 'Some %s' % coq_z(y.value),
                       'None' if y.section is None else 'Some %s' % _s(y.section),
                       _s(y.typ if isinstance(y.typ, str) else ''), coq_z(y.size)))
    rels = ['{| mr_typ := %s; mr_symid := %s; mr_section := %s; mr_offset := %s; mr_addend := %s |}'
            % (_s(r.reloc_type), coq_z(r.symbol_id), _s(r.section), coq_z(r.offset), coq_z(r.addend))
            for r in obj.relocations]
    ims = ['{| mi_name := %s; mi_addr := %s; mi_secs := [%s] |}'
           % (_s(i.name), coq_z(i.address), '; '.join(sec_term(s) for s in i.sections)) for i in obj.images]
    return ('{| mo_arch := %s; mo_sections := [%s]; mo_symbols := [%s]; mo_relocs := [%s]; mo_images := [%s]; '
            'mo_entry := %s |}'
            % (_s(obj.arch.name), '; '.join(sec_term(s) for s in obj.sections), '; '.join(syms), '; '.join(rels),
               '; '.join(ims), 'None' if obj.entry_symbol_id is None else 'Some %s' % coq_z(obj.entry_symbol_id)))


def representable(obj):
    """printable-ASCII names only (coq_str) and int-typed fields"""
    try:
        obj_term(obj)
        return True
    except (ValueError, TypeError, AttributeError):
        return False


def real_write(obj, typ):
    """run the real writer: OkV(bytes) / Diag / Internal (+ the exception for reports)"""
    from ppci.format.elf import write_elf
    f = io.BytesIO()
    try:
        write_elf(obj, f, type=typ)
    except ValueError as e:
        if str(e).startswith('Undefined reference') or 'sections overlap' in str(e):
            return Diag, e
        return Internal, e
    except Exception as e:   # noqa: BLE001
        return Internal, e
    return OkV(f.getvalue()), None


def sparse_val(r):
    if isinstance(r, OkV):
        b = r.v
        return OkV((len(b), [(i, x) for i, x in enumerate(b) if x]))
    return r


# ------------------------------------------------------------------ generators
SEC_POOL = ['code', 'data', 'bss', 'rom', '.text', 'vectors', 'mem_a']
SYM_POOL = ['main', 'foo', 'bar', 'baz', 'x', 'code', 'a_rather_long_symbol_name', 'L1', '', '_$end_']
X86_RELOCS = ['rel32', 'abs64', 'abs32', 'absaddr64']


def mk_obj(archname):
    from ppci.api import get_arch
    from ppci.binutils.objectfile import ObjectFile
    return ObjectFile(get_arch(archname))


def gen_object(rng, malformed=False, archname=None, want_exec=None):
    """programmatic ObjectFile; returns (obj, type)"""
    from ppci.binutils.objectfile import Section, Image, RelocationEntry
    archname = archname or rng.choice(ARCHES if not malformed else ARCHES + ['x86_64'] * 3)
    obj = mk_obj(archname)
    is_exec = rng.random() < 0.45 if want_exec is None else want_exec
    nsec = rng.choice([0, 1, 2, 2, 3, 4])
    names = rng.sample(SEC_POOL, nsec)
    addr = rng.choice([0, 0x1000, 0x40000, 0x8000, 0x10004, 52, 4096 * 3 + 8]) if is_exec else 0
    for n in names:
        s = Section(n)
        s.alignment = rng.choice([1, 2, 4, 4, 8, 16, 64, 3, 5])
        if malformed and rng.random() < 0.15:
            s.alignment = rng.choice([0, -1, -4])
        size = rng.choice([0, 1, 2, 3, 4, 7, 8, 13, 16, 29, 40])
        s.add_data(bytes(rng.randrange(256) for _ in range(size)))
        if is_exec:
            addr += rng.choice([0, 0, 0, 1, 4, 12, 100])
            if s.alignment > 0:
                addr += (-addr) % s.alignment
            s.address = addr
            addr += size
            if rng.random() < 0.25:
                addr += rng.choice([0x1000, 0x2000 - 4, 0x20000])
        elif rng.random() < 0.1:
            s.address = rng.choice([4, 0x100, 0x1000])
        obj.add_section(s)
    if malformed and names and rng.random() < 0.15:
        d = Section(rng.choice(names))
        d.add_data(b'\x01\x02')
        obj.add_section(d)           # duplicate section name
    if is_exec and names:
        k = rng.choice([0, 1, 1, 2, 2])
        secs = list(obj.sections)
        if k == 1:
            groups = [secs[:rng.randrange(1, len(secs) + 1)]]
        elif k == 2 and len(secs) >= 2:
            c = rng.randrange(1, len(secs))
            c2 = rng.randrange(c, len(secs)) + 1
            groups = [secs[:c], secs[c:c2]]
        else:
            groups = [] if k == 0 else [secs]
        for gi, g in enumerate(groups):
            if not g:
                continue
            base = g[0].address - rng.choice([0, 0, 0, 4, 16])
            if base < 0:
                base = g[0].address
            im = Image(rng.choice(['code', 'ram', 'flash', 'data']) if gi or rng.random() < 0.5 else 'code', base)
            for s in g:
                im.add_section(s)
            if malformed and rng.random() < 0.2 and len(g) >= 2:
                im.sections.reverse()        # overlap / decreasing addresses
            if any(i.name == im.name for i in obj.images):
                im.name += str(gi)
            obj.add_image(im)
    nsym = rng.choice([0, 1, 2, 3, 4, 6])
    for i in range(nsym):
        sid = i if rng.random() < 0.8 else 10 + i
        name = rng.choice(SYM_POOL)
        binding = rng.choice(['local', 'global', 'global'])
        if binding == 'global' and obj.has_symbol(name):
            binding = 'local'
        typ = rng.choice(['func', 'object', 'object', None])
        if names and rng.random() < 0.75:
            sec = rng.choice(names)
            value = rng.choice([0, 1, 4, 8, 13, 40])
        elif rng.random() < 0.15:
            sec, value = None, rng.choice([0, 77, 0x20000000])     # absolute symbol
        else:
            sec, value = None, None
        if malformed and rng.random() < 0.2:
            r = rng.random()
            if r < 0.3:
                sec = 'nosuch'
                value = 3
            elif r < 0.6:
                sec, value = None, 77         # absolute symbol
            elif r < 0.8:
                value = rng.choice([-1, 1 << 32, 1 << 64])
                sec = sec or (names[0] if names else 'nosuch')
            else:
                name = 'caf\xe9' if rng.random() < 0.5 else 'nul\x00in'
        size = rng.choice([0, 0, 4, 8, 100])
        if malformed and rng.random() < 0.05:
            size = rng.choice([-1, 1 << 32, 1 << 64])
        obj.add_symbol(sid, name, binding, value, sec, typ, size)
    if not is_exec or rng.random() < 0.2:
        nrel = rng.choice([0, 0, 1, 2, 3, 6]) if (archname == 'x86_64' or rng.random() < 0.25) else 0
        ids = [y.id for y in obj.symbols]
        for _ in range(nrel):
            if not names or not ids:
                break
            rt = rng.choice(X86_RELOCS)
            sid = rng.choice(ids)
            secn = rng.choice(names)
            if malformed and rng.random() < 0.2:
                r = rng.random()
                if r < 0.4:
                    rt = 'rel8'
                elif r < 0.7:
                    sid = 99
                else:
                    secn = 'nosuch'
            addend = rng.choice([0, 0, -4, 4, -(1 << 31), (1 << 31) - 1, 12345])
            if malformed and rng.random() < 0.1:
                addend = rng.choice([1 << 63, -(1 << 63) - 1, 1 << 31, -(1 << 31) - 1])
            obj.relocations.append(RelocationEntry(rt, sid, secn, rng.choice([0, 1, 4, 11, 39]), addend))
    if is_exec and obj.symbols and rng.random() < 0.7:
        obj.entry_symbol_id = rng.choice([y.id for y in obj.symbols])
        if malformed and rng.random() < 0.2:
            obj.entry_symbol_id = 98
    typ = 'executable' if is_exec else 'relocatable'
    if malformed and rng.random() < 0.05:
        typ = rng.choice(['shared', 'core'])
    return obj, typ


def fixed_objects():
    """deterministic shapes every seed exercises: list of (label, obj, type)"""
    from ppci.binutils.objectfile import Section, Image, RelocationEntry

    def sec(name, addr, align, data):
        s = Section(name)
        s.address, s.alignment = addr, align
        s.add_data(bytes(data))
        return s
    out = []
    for arch in ('x86_64', 'arm', 'microblaze'):
        # non page-aligned image whose first section is empty, second image, symbol at the very end, absolute symbol
        o = mk_obj(arch)
        a, b, c, d = sec('code', 0x40010, 4, b''), sec('rom', 0x40010, 1, range(1, 8)), \
            sec('data', 0x20000804, 4, [9, 8, 7]), sec('bss', 0, 8, b'')
        for s in (a, b, c, d):
            o.add_section(s)
        i1, i2 = Image('code', 0x40010), Image('ram', 0x20000800)
        i1.add_section(a)
        i1.add_section(b)
        i2.add_section(c)
        o.add_image(i1)
        o.add_image(i2)
        o.add_symbol(0, 'end_of_rom', 'global', 7, 'rom', 'object', 0)
        o.add_symbol(1, 'abs_sym', 'global', 77, None, 'object', 0)
        o.add_symbol(2, 'l', 'local', 3, 'data', 'func', 0)
        o.entry_symbol_id = 0
        out.append(('fix-two-images-' + arch, o, 'executable'))
        out.append(('fix-two-images-as-rel-' + arch, o, 'relocatable'))
        # image whose sections overlap (same address): Image.data raises ValueError after the headers were generated
        o = mk_obj(arch)
        a, b = sec('data', 0, 3, range(16)), sec('data', 0, 4, [1, 2])
        o.add_section(a)
        o.add_section(b)
        im = Image('code', 0)
        im.add_section(a)
        im.add_section(b)
        o.add_image(im)
        o.add_symbol(0, 'bar', 'local', 77, None, 'func', 100)
        out.append(('fixM-overlap-' + arch, o, 'executable'))
        # image sections listed by decreasing address
        o = mk_obj(arch)
        a, b = sec('code', 0x1000, 4, range(4)), sec('data', 0x1010, 4, range(3))
        o.add_section(a)
        o.add_section(b)
        im = Image('flash', 0x1000)
        im.add_section(b)
        im.add_section(a)
        o.add_image(im)
        out.append(('fixM-decreasing-' + arch, o, 'executable'))
        # only empty sections, image at a non aligned address, no symbols
        o = mk_obj(arch)
        a = sec('code', 0x10004, 16, b'')
        o.add_section(a)
        im = Image('code', 0x10000 + 4)
        im.add_section(a)
        o.add_image(im)
        out.append(('fix-empty-' + arch, o, 'executable'))
    o = mk_obj('x86_64')
    a = sec('code', 0, 4, range(12))
    o.add_section(a)
    o.add_symbol(0, 'end', 'local', 12, 'code', 'object', 0)
    o.add_symbol(1, 'ext', 'global', None, None, 'func', 0)
    o.relocations.append(RelocationEntry('rel32', 1, 'code', 8, -4))
    o.relocations.append(RelocationEntry('abs64', 0, 'code', 0, 0))
    out.append(('fix-reloc-at-end', o, 'relocatable'))
    # two .rela tables (each has its own offset, alignment padding between them), unsorted section names
    o = mk_obj('x86_64')
    o.add_section(sec('zdata', 0, 1, range(5)))
    o.add_section(sec('code', 0, 4, range(13)))
    o.add_symbol(0, 'l', 'local', 1, 'zdata', 'object', 0)
    o.add_symbol(1, 'ext', 'global', None, None, 'func', 0)
    o.add_symbol(2, 'g', 'global', 4, 'code', 'func', 0)
    for rt, sid, sn, off, add in (('abs32', 0, 'zdata', 1, 0), ('rel32', 1, 'code', 9, -4), ('abs64', 2, 'zdata', 0, 7),
                                  ('rel32', 2, 'code', 0, -4), ('absaddr64', 0, 'code', 4, 0)):
        o.relocations.append(RelocationEntry(rt, sid, sn, off, add))
    out.append(('fix-two-rela-tables', o, 'relocatable'))
    return out


ASM_SRC = {
    'x86_64': """
section code
global main
global ext
main:
  mov rax, 1
  call ext
loc1:
  jmp main
  call helper
section data
dd 0x12345678
lbl:
dd 7
""",
    'arm': """
section code
global main
main:
  mov r0, 1
  add r1, r0, r0
  mov pc, lr
section data
dd 0x12345678
""",
    'riscv': """
section code
global main
main:
  addi x1, x0, 1
  add x2, x1, x1
section data
dd 0x12345678
""",
}
ASM_HELPER = {'x86_64': "section code\nglobal ext\nglobal helper\next:\n ret\nhelper:\n ret\n"}
C3_SRC = """
module main;
var int g;
function int add(int a, int b) { return a + b + g; }
function void main() { g = add(1, 2); }
"""
C_SRC = """
int g = 3;
static int h(int a) { return a + a; }
int f(int a) { return h(a) + g; }
void main(void) { g = f(2); }
"""
LAYOUTS = [
    "MEMORY code LOCATION=0x40000 SIZE=0x10000 { SECTION(code) }\n"
    "MEMORY ram LOCATION=0x20000000 SIZE=0x10000 { SECTION(data) DEFINESYMBOL(endofram) }\n",
    "MEMORY flash LOCATION=0x1000 SIZE=0x10000 { SECTION(code) ALIGN(8) SECTION(data) }\n",
    "MEMORY code LOCATION=0x10010 SIZE=0x10000 { SECTION(code) }\n"
    "MEMORY ram LOCATION=0x30004 SIZE=0x10000 { SECTION(data) }\n",
]


def real_objects(ctx, thorough):
    """objects produced by the ppci front ends / assembler / linker: list of (label, obj, type)"""
    import logging
    from ppci import api
    from ppci.binutils.layout import Layout
    cache = getattr(ctx, '_c17_real', {})
    if thorough in cache:
        return cache[thorough]
    out, skipped = [], {}

    def attempt(label, fn):
        try:
            return fn()
        except Exception as e:   # noqa: BLE001
            skipped[label] = type(e).__name__
            return None
    for arch in ARCHES:
        objs = []
        if arch in ASM_SRC:
            o = attempt('asm-' + arch, lambda: api.asm(io.StringIO(ASM_SRC[arch]), arch))
            if o is not None:
                objs.append(('asm', o))
        o = attempt('c3c-' + arch, lambda: api.c3c([io.StringIO(C3_SRC)], [], arch))
        if o is not None:
            objs.append(('c3c', o))
        o = attempt('cc-' + arch, lambda: api.cc(io.StringIO(C_SRC), arch))
        if o is not None:
            objs.append(('cc', o))
        for kind, o in objs:
            out.append(('%s-%s-rel' % (kind, arch), o, 'relocatable'))
            extra = []
            if kind == 'asm' and arch in ASM_HELPER:
                h = attempt('asmh-' + arch, lambda: api.asm(io.StringIO(ASM_HELPER[arch]), arch))
                if h is None:
                    continue
                extra = [h]
            for li, lay in enumerate(LAYOUTS if thorough else LAYOUTS[:2]):
                e = attempt('link-%s-%s-%d' % (kind, arch, li),
                            lambda: api.link([o] + extra, layout=Layout.load(io.StringIO(lay)), entry='main'))
                if e is not None:
                    out.append(('%s-%s-exe%d' % (kind, arch, li), e, 'executable'))
                    if li == 0:
                        out.append(('%s-%s-exe%d-as-rel' % (kind, arch, li), e, 'relocatable'))
    logging.getLogger().setLevel(logging.WARNING)
    ctx.cov['stages']['real_objects'] = {'built': len(out), 'skipped': skipped}
    cache[thorough] = out
    ctx._c17_real = cache
    return out


# ------------------------------------------------------------------ correspondence (model bytes == real bytes)
def big_endian_ok():
    """are multi-byte header fields of a big-endian HeaderTypes really big-endian? (False before
    fixes/C17-header-endianness.diff)"""
    from ppci.arch.arch_info import Endianness
    from ppci.format.elf.headers import HeaderTypes
    h = HeaderTypes(bits=32, endianness=Endianness.BIG).ElfHeader()
    h.e_type = 1
    return h.serialize()[:2] == b'\x00\x01'


def outcome_name(r):
    return 'ok' if isinstance(r, OkV) else ('diag' if r is Diag else 'internal')


def correspondence(ctx, thorough):
    rng = ctx.rng
    jobs = []          # (label, obj, typ)
    for lab, o, t in real_objects(ctx, thorough):
        jobs.append((lab, o, t))
    for lab, o, t in fixed_objects():
        jobs.append((lab, o, t))
    n_prog = 260 if thorough else 60
    for i in range(n_prog):
        o, t = gen_object(rng, malformed=(i % 4 == 3))
        jobs.append(('gen%s%d' % ('M' if i % 4 == 3 else '', i), o, t))
    cases, recs, seen = [], [], set()
    rcases, rrecs = [], []
    dist = {}
    nontriv = 0
    be_ok = big_endian_ok()
    for lab, o, t in jobs:
        if not representable(o) or not isinstance(t, str):
            dist['unrepresentable'] = dist.get('unrepresentable', 0) + 1
            continue
        if t == 'shared':          # ET_DYN is not modelled (the model answers 'not modelled'); nothing to compare
            dist['not-modelled-ET_DYN'] = dist.get('not-modelled-ET_DYN', 0) + 1
            continue
        term = 'sparse (write_elf (%s) %s)' % (obj_term(o), coq_str(t))
        if term in seen:
            continue
        seen.add(term)
        r, exc = real_write(o, t)
        cases.append((term, sparse_val(r)))
        recs.append((lab, t, r, exc, o))
        k = '%s/%s/%s' % (o.arch.name, t, outcome_name(r) if exc is None else type(exc).__name__)
        dist[k] = dist.get(k, 0) + 1
        if isinstance(r, OkV) and any(s.size for s in o.sections) and o.symbols:
            nontriv += 1
        # reader validation: the Coq gABI reader, run on the model's bytes of this very object, must accept
        # and recover it (well-formed objects only; big-endian only once the fields are big-endian)
        if isinstance(r, OkV) and not lab.startswith(('genM', 'fixM')) and (be_ok or o.arch.name != 'microblaze'):
            rcases.append(('recovered_code (%s) %s' % (obj_term(o), coq_str(t)), 3))
            rrecs.append((lab, t, o))
    ctx.cov['stages']['correspondence_distribution'] = dist
    ctx.cov['distinct_nontrivial'] += nontriv
    for lab, t, r, exc, o in recs[:: max(1, len(recs) // 8)]:
        ctx.note_sample({'object': lab, 'type': t, 'arch': o.arch.name,
                         'impl': ('%d bytes' % len(r.v)) if isinstance(r, OkV) else type(exc).__name__})
    bad = ctx.run_cases('elfwriter', ['Model.ElfWriter'], cases, shard=16)
    if bad:
        for i in bad[:5]:
            lab, t, r, exc, o = recs[i]
            ctx.log('model/implementation disagree on', lab, t, o.arch.name,
                    'impl=', ('%d bytes' % len(r.v)) if isinstance(r, OkV) else repr(exc)[:100])
        lab, t, r, exc, o = recs[bad[0]]
        ctx.failed_stages.append(('correspondence', 'Model.ElfWriter.write_elf disagrees with ppci.format.elf.write_elf '
                                  'on %d of %d objects, first: %s (%s, %s)' % (len(bad), len(cases), lab, o.arch.name, t)))
    if not thorough:            # quick tier: every second object (the files of executables are page padded, slow)
        rcases, rrecs = rcases[::2], rrecs[::2]
    rbad = ctx.run_cases('elfreader', ['Model.ElfWriter', 'Spec.ElfSpec', 'Proofs.C17_recover'], rcases, shard=12)
    ctx.cov['stages']['reader_validation'] = {'objects': len(rcases), 'disagree': len(rbad or [])}
    if rbad:
        for i in rbad[:5]:
            lab, t, o = rrecs[i]
            ctx.log('Coq reader does not recover (model bytes of)', lab, t, o.arch.name)
        lab, t, o = rrecs[rbad[0]]
        ctx.failed_stages.append(('reader_validation', 'Spec.ElfSpec.read does not accept/recover the model bytes of %d '
                                  'of %d well-formed objects, first: %s (%s, %s)' % (len(rbad), len(rcases), lab, o.arch.name, t)))
    return bad


# ------------------------------------------------------------------ search oracle: readelf + ppci's own reader
X86_PSABI = {'rel32': 2, 'abs64': 1, 'abs32': 10, 'absaddr64': 1}     # R_X86_64_PC32 / _64 / _32 (psABI numbers)
GABI_MACHINE = {'x86_64': ('ELF64', 'little', 'X86-64'), 'arm': ('ELF32', 'little', 'ARM'),
                'riscv': ('ELF32', 'little', 'RISC-V'), 'xtensa': ('ELF32', 'little', 'Xtensa'),
                'microblaze': ('ELF32', 'big', 'MicroBlaze')}


def run_readelf(data):
    with tempfile.NamedTemporaryFile(suffix='.elf', delete=False) as f:
        f.write(data)
        path = f.name
    try:
        p = subprocess.run(['readelf', '-h', '-S', '-s', '-r', '-l', '-W', path], stdout=subprocess.PIPE,
                           stderr=subprocess.PIPE, text=True, timeout=60)
        return p.returncode, p.stdout, p.stderr
    finally:
        os.unlink(path)


def parse_readelf(out):
    r = {'hdr': {}, 'sections': [], 'symbols': [], 'relocs': {}, 'segments': []}
    mode, cur = None, None
    for line in out.splitlines():
        m = re.match(r'^\s+([A-Za-z][A-Za-z /\'-]+?):\s+(.*)$', line)
        if m and mode is None:
            r['hdr'][m.group(1)] = m.group(2).strip()
        if line.startswith('Section Headers:'):
            mode = 'S'
            continue
        if line.startswith('Program Headers:'):
            mode = 'P'
            continue
        if line.startswith('Symbol table'):
            mode = 's'
            continue
        m = re.match(r"^Relocation section '(.*)' at offset", line)
        if m:
            mode, cur = 'r', m.group(1)
            r['relocs'][cur] = []
            continue
        if line.startswith('Key to Flags') or line.startswith(' Section to Segment') or \
           line.startswith('There are no') or not line.strip():
            if not line.startswith('There are no'):
                mode = mode if line.strip() else None
            continue
        if mode == 'S':
            m = re.match(r'^\s*\[\s*(\d+)\]\s(.{17})\s+(\S+)\s+([0-9a-f]+)\s+([0-9a-f]+)\s+([0-9a-f]+)\s+([0-9a-f]+)\s+'
                         r'(\S*)\s+(\d+)\s+(\d+)\s+(\d+)\s*$', line)
            if not m:
                m2 = re.match(r'^\s*\[\s*(\d+)\]\s(\S*)\s+(\S+)\s+([0-9a-f]+)\s+([0-9a-f]+)\s+([0-9a-f]+)\s+([0-9a-f]+)\s+'
                              r'(\S*)\s+(\d+)\s+(\d+)\s+(\d+)\s*$', line)
                m = m2
            if m:
                r['sections'].append({'nr': int(m.group(1)), 'name': m.group(2).strip(), 'type': m.group(3),
                                      'addr': int(m.group(4), 16), 'off': int(m.group(5), 16),
                                      'size': int(m.group(6), 16), 'es': int(m.group(7), 16), 'flg': m.group(8),
                                      'lk': int(m.group(9)), 'inf': int(m.group(10)), 'al': int(m.group(11))})
        elif mode == 's':
            m = re.match(r'^\s*(\d+):\s+([0-9a-f]+)\s+(\d+|0x[0-9a-f]+)\s+(\S+)\s+(\S+)\s+(\S+)\s+(\S+)\s?(.*)$', line)
            if m:
                r['symbols'].append({'num': int(m.group(1)), 'value': int(m.group(2), 16), 'size': int(m.group(3), 0),
                                     'type': m.group(4), 'bind': m.group(5), 'ndx': m.group(7),
                                     'name': m.group(8).strip()})
        elif mode == 'r':
            m = re.match(r'^([0-9a-f]+)\s+([0-9a-f]+)\s+(\S+)\s+(.*)$', line)
            if m:
                rest = m.group(4)
                ma = re.search(r'([+-])\s*([0-9a-f]+)\s*$', rest)
                add = int(ma.group(2), 16) * (1 if ma.group(1) == '+' else -1) if ma else 0
                r['relocs'][cur].append({'offset': int(m.group(1), 16), 'info': int(m.group(2), 16), 'addend': add})
        elif mode == 'P':
            m = re.match(r'^\s+(\S+)\s+0x([0-9a-f]+)\s+0x([0-9a-f]+)\s+0x([0-9a-f]+)\s+0x([0-9a-f]+)\s+0x([0-9a-f]+)\s+'
                         r'(.{3})\s+(0x[0-9a-f]+|\d+)', line)
            if m:
                r['segments'].append({'type': m.group(1), 'off': int(m.group(2), 16), 'vaddr': int(m.group(3), 16),
                                      'paddr': int(m.group(4), 16), 'filesz': int(m.group(5), 16),
                                      'memsz': int(m.group(6), 16), 'flg': m.group(7)})
    return r


def well_formed(obj, typ):
    """the objects the property quantifies over: what asm/cc/link produce through the ObjectFile API"""
    names = [s.name for s in obj.sections]
    if len(set(names)) != len(names) or any(s.alignment <= 0 for s in obj.sections):
        return False
    if len({y.id for y in obj.symbols}) != len(obj.symbols):
        return False
    for y in obj.symbols:
        if not isinstance(y.name, str) or '\x00' in y.name or not y.name.isascii() or len(y.name) > 40:
            return False
        if y.value is not None and y.section is not None and (y.section not in names or y.value < 0):
            return False
        if y.value is not None and y.section is None and y.value < 0:
            return False
        if y.value is None and y.section is not None:
            return False
    for r in obj.relocations:
        if r.section not in names or r.symbol_id not in obj.symbols_by_id:
            return False
    for im in obj.images:
        cur = im.address
        for s in im.sections:
            if s not in obj.sections or s.address < cur:
                return False
            cur = s.address + s.size
    if typ == 'executable' and obj.entry_symbol_id is not None:
        y = obj.symbols_by_id.get(obj.entry_symbol_id)
        if y is None or y.value is None:
            return False
    return typ in ('executable', 'relocatable')


def oracle_check(obj, typ, data):
    """independent check of one written file; returns a list of complaints (empty = fine)"""
    bad = []
    rc, out, err = run_readelf(data)
    if rc != 0 or 'Error' in err or 'Warning' in err:
        return ['readelf rejects/warns: %s' % (err.strip().splitlines() or ['rc=%d' % rc])[0][:160]]
    r = parse_readelf(out)
    cls, endi, mach = GABI_MACHINE[obj.arch.name]
    h = r['hdr']
    if h.get('Class') != cls or endi not in h.get('Data', '') or mach.lower() not in h.get('Machine', '').lower():
        bad.append('header class/data/machine: %s / %s / %s' % (h.get('Class'), h.get('Data'), h.get('Machine')))
    want_type = 'EXEC' if typ == 'executable' else 'REL'
    if not h.get('Type', '').startswith(want_type):
        bad.append('e_type %r' % h.get('Type'))
    secs = {s['nr']: s for s in r['sections']}
    if len(secs) != int(h.get('Number of section headers', '-1')):
        bad.append('section header count / parse mismatch')
    by_name = {}
    for s in r['sections']:
        by_name.setdefault(s['name'], s)
    shstr = secs.get(int(h.get('Section header string table index', '-1')))
    if shstr is None or shstr['type'] != 'STRTAB':
        bad.append('e_shstrndx does not name a STRTAB')
    written = list(obj.sections)
    for sec in written:
        if len(sec.name) > 17:
            continue
        s = by_name.get(sec.name)
        if s is None or s['type'] != 'PROGBITS':
            bad.append('section %r missing' % sec.name)
            continue
        if (s['size'], s['addr'], s['al']) != (sec.size, sec.address, sec.alignment):
            bad.append('section %r size/addr/align %r' % (sec.name, (s['size'], s['addr'], s['al'])))
        if bytes(data[s['off']:s['off'] + s['size']]) != bytes(sec.data):
            bad.append('section %r contents differ at file offset 0x%x' % (sec.name, s['off']))
        if sec.alignment > 0 and s['off'] % sec.alignment and not any(sec in im.sections for im in obj.images):
            bad.append('section %r file offset 0x%x not aligned to %d' % (sec.name, s['off'], sec.alignment))
    # symbols
    symtab = [s for s in r['sections'] if s['type'] == 'SYMTAB']
    if len(symtab) != 1:
        bad.append('%d symbol tables' % len(symtab))
    else:
        st = symtab[0]
        syms = r['symbols']
        extra = ('SECTION', 'FILE')     # symbols a writer may add on its own; not demanded, not forbidden
        if len([y for y in syms[1:] if y['type'] not in extra]) != len(obj.symbols):
            bad.append('symbol count %d, object has %d' % (len(syms) - 1, len(obj.symbols)))
        nloc = sum(1 for y in syms if y['bind'] == 'LOCAL')
        if any(y['bind'] != 'LOCAL' for y in syms[:nloc]) or st['inf'] != nloc:
            bad.append('locals-first / sh_info: sh_info=%d, locals=%d, order=%s'
                       % (st['inf'], nloc, ''.join(y['bind'][0] for y in syms)))
        if secs.get(st['lk'], {}).get('type') != 'STRTAB':
            bad.append('.symtab sh_link does not name a STRTAB')

        def view(y):
            sec = None
            if y['ndx'] == 'ABS':
                sec = 'ABS'
            elif y['ndx'] not in ('UND', 'COM'):
                sec = secs.get(int(y['ndx']), {}).get('name')
            return (y['name'], y['bind'], y['type'], sec, y['value'], y['size'])

        def expected(y):
            if y.value is not None and y.section is None:
                v, sec = y.value, 'ABS'
            elif y.value is not None:
                v = y.value + obj.get_section(y.section).address
                sec = y.section
            else:
                v, sec = 0, None
            return (y.name, 'GLOBAL' if y.binding == 'global' else 'LOCAL',
                    {'func': 'FUNC', 'object': 'OBJECT'}.get(y.typ, 'NOTYPE'), sec, v, y.size)
        got = sorted((view(y) for y in syms[1:] if y['type'] not in extra), key=repr)
        exp = sorted((expected(y) for y in obj.symbols), key=repr)
        if got != exp:
            d = [g for g in got if g not in exp][:1] + [e for e in exp if e not in got][:1]
            bad.append('symbols differ: %r' % (d,))
        # relocations
        if typ == 'relocatable':
            groups = {}
            for rel in obj.relocations:
                groups.setdefault(rel.section, []).append(rel)
            if set(r['relocs']) != {'.rela' + n for n in groups}:
                bad.append('rela sections %r, expected for %r' % (sorted(r['relocs']), sorted(groups)))
            c64 = cls == 'ELF64'
            for n, rels in groups.items():
                ents = r['relocs'].get('.rela' + n, [])
                hdr = by_name.get('.rela' + n)
                if hdr is None or hdr['type'] != 'RELA' or secs.get(hdr['inf'], {}).get('name') != n or \
                        secs.get(hdr['lk'], {}).get('type') != 'SYMTAB':
                    bad.append('.rela%s header (sh_info/sh_link)' % n)
                if len(ents) != len(rels):
                    bad.append('.rela%s has %d entries, expected %d' % (n, len(ents), len(rels)))
                    continue
                for e, rel in zip(ents, rels):
                    rsym = e['info'] >> (32 if c64 else 8)
                    rtyp = e['info'] & (0xFFFFFFFF if c64 else 0xFF)
                    y = obj.symbols_by_id[rel.symbol_id]
                    et = X86_PSABI.get(rel.reloc_type)
                    if obj.arch.name == 'x86_64' and y.typ == 'func' and y.value is None and rel.reloc_type == 'rel32':
                        et = 4      # R_X86_64_PLT32
                    if e['offset'] != rel.offset or e['addend'] != rel.addend or \
                            (obj.arch.name == 'x86_64' and rtyp != et) or rsym >= len(syms) or \
                            view(syms[rsym]) != expected(y):
                        bad.append('.rela%s entry %r, expected offset=%d sym=%s type=%r addend=%d'
                                   % (n, e, rel.offset, y.name, et, rel.addend))
                        break
    # segments
    if typ == 'executable':
        loads = [s for s in r['segments'] if s['type'] == 'LOAD']
        if len(loads) != len(obj.images):
            bad.append('%d PT_LOAD segments for %d images' % (len(loads), len(obj.images)))
        else:
            for seg, im in zip(loads, obj.images):
                d = bytes(im.data)
                if seg['off'] % 0x1000 != seg['vaddr'] % 0x1000:
                    bad.append('PT_LOAD congruence: image %s p_offset 0x%x, p_vaddr 0x%x (mod 0x1000)'
                               % (im.name, seg['off'], seg['vaddr']))
                if (seg['vaddr'], seg['filesz'], seg['memsz']) != (im.address, len(d), len(d)):
                    bad.append('segment for image %s: vaddr/filesz/memsz %r' % (im.name, (seg['vaddr'], seg['filesz'], seg['memsz'])))
                elif bytes(data[seg['off']:seg['off'] + seg['filesz']]) != d:
                    k = next(i for i in range(len(d)) if data[seg['off'] + i:seg['off'] + i + 1] != d[i:i + 1])
                    bad.append('segment for image %s: file byte at vaddr 0x%x differs from the image' % (im.name, im.address + k))
        entry = int(h.get('Entry point address', '0'), 16)
        want = obj.get_symbol_id_value(obj.entry_symbol_id) if obj.entry_symbol_id is not None else 0
        if entry != want:
            bad.append('e_entry 0x%x, expected 0x%x' % (entry, want))
    # second opinion: ppci's own reader
    try:
        from ppci.format.elf import read_elf
        ef = read_elf(io.BytesIO(data))
        for sec in written:
            if not any(s.name == sec.name and bytes(s.data) == bytes(sec.data) for s in ef.sections):
                bad.append('ppci ElfFile.load does not return section %r with its data' % sec.name)
    except Exception as e:   # noqa: BLE001
        bad.append('ppci ElfFile.load fails: %r' % (e,))
    return bad


def obj_summary(obj, typ):
    return {'arch': obj.arch.name, 'type': typ,
            'sections': [[s.name, s.address, s.alignment, bytes(s.data).hex()] for s in obj.sections],
            'symbols': [[y.id, y.name, y.binding, y.value, y.section, y.typ, y.size] for y in obj.symbols],
            'relocations': [[r.reloc_type, r.symbol_id, r.section, r.offset, r.addend] for r in obj.relocations],
            'images': [[i.name, i.address, [s.name for s in i.sections]] for i in obj.images],
            'entry_symbol_id': obj.entry_symbol_id}


REPLAY_HOWTO = ('rebuild the ObjectFile from "object" (ppci.binutils.objectfile: create_section/add_data/address/'
                'alignment, add_symbol(*row), RelocationEntry(*row), Image(name, address).add_section), call '
                'ppci.format.elf.write_elf(obj, f, type=object["type"]) and run readelf -h -S -s -r -l -W on the file; '
                'or: ./check C17 --replay <this file>')


def classify_failure(obj, typ, exc):
    """known failure classes of the writer on well-formed objects"""
    if isinstance(exc, NotImplementedError) and obj.relocations and typ == 'relocatable':
        return 'reloc-type-not-implemented'
    if isinstance(exc, KeyError) and any(y.value is not None and y.section is None for y in obj.symbols):
        return 'absolute-symbol-KeyError'
    return 'write_elf-raises-' + type(exc).__name__


def search_objects(ctx, deep):
    rng = ctx.rng
    jobs = [(lab, o, t) for lab, o, t in real_objects(ctx, deep)] + fixed_objects()
    n = 400 if deep else 70
    for i in range(n):
        o, t = gen_object(rng, malformed=False)
        jobs.append(('gen%d' % i, o, t))
    return jobs


def search(ctx, deep=None):
    """implementation vs readelf / ppci reader, independent of model and Spec"""
    import logging
    logging.disable(logging.CRITICAL)
    _imports()
    if deep is None:
        deep = (not ctx.quick()) or bool(ctx.failed_stages)
    n_eval = n_files = 0
    for lab, o, t in search_objects(ctx, deep):
        if not well_formed(o, t):
            continue
        r, exc = real_write(o, t)
        n_eval += 1
        if not isinstance(r, OkV):
            key = classify_failure(o, t, exc)
            ctx.violation({'fn': 'write_elf', 'key': key, 'arch_class': 'x86_64' if o.arch.name == 'x86_64' else 'other',
                           'object': obj_summary(o, t), 'label': lab, 'actual': repr(exc)[:200],
                           'expected': 'an ELF file (the object is well-formed)', 'how_to_replay': REPLAY_HOWTO})
            continue
        n_files += 1
        complaints = oracle_check(o, t, r.v)
        other = [c for c in complaints if not c.startswith('PT_LOAD congruence')]
        if complaints and not other:
            ctx.violation({'fn': 'write_elf', 'key': 'pt-load-offset-not-congruent', 'object': obj_summary(o, t),
                           'label': lab, 'actual': complaints[:2],
                           'expected': 'p_offset % p_align == p_vaddr % p_align for every PT_LOAD (gABI)',
                           'how_to_replay': REPLAY_HOWTO})
            continue
        complaints = other
        if complaints:
            key = 'big-endian-fields-native-order' if o.arch.name == 'microblaze' and not big_endian_ok() \
                else 'readback:' + re.sub(r'[^a-z_ -]', '', complaints[0].split(':')[0].lower())[:40]
            ctx.violation({'fn': 'write_elf', 'key': key, 'object': obj_summary(o, t), 'label': lab,
                           'actual': complaints[:4], 'expected': 'readelf and ppci.format.elf.read_elf see the object',
                           'how_to_replay': REPLAY_HOWTO})
    ctx.cov['stages']['search_oracle'] = {'objects': n_eval, 'files_checked_with_readelf': n_files, 'deep': bool(deep)}
    ctx.cov['evaluations'] += n_eval
    witnesses(ctx)


def witnesses(ctx):
    """re-execute the recorded defects on the implementation; report only while they still fail"""
    from ppci.binutils.objectfile import RelocationEntry
    # K1: big-endian machine, fields packed little-endian
    o = mk_obj('microblaze')
    s = o.create_section('code')
    s.add_data(bytes([1, 2, 3, 4]))
    o.add_symbol(0, 'main', 'global', 0, 'code', 'func', 4)
    r, exc = real_write(o, 'relocatable')
    if isinstance(r, OkV):
        c = oracle_check(o, 'relocatable', r.v)
        if c:
            ctx.violation({'fn': 'write_elf', 'key': 'big-endian-fields-native-order', 'object': obj_summary(o, 'relocatable'),
                           'actual': c[:2], 'expected': 'EI_DATA=2 and big-endian header fields',
                           'how_to_replay': REPLAY_HOWTO})
    witness_congruence(ctx)
    # K2: relocatable file with a relocation on a machine without get_reloc_type
    o = mk_obj('arm')
    s = o.create_section('code')
    s.add_data(bytes(8))
    o.add_symbol(0, 'ext', 'global', None, None, 'func', 0)
    o.add_relocation(RelocationEntry('b_imm24', 0, 'code', 0, 0))
    r, exc = real_write(o, 'relocatable')
    if not isinstance(r, OkV):
        ctx.violation({'fn': 'write_elf', 'key': classify_failure(o, 'relocatable', exc), 'arch_class': 'other',
                       'object': obj_summary(o, 'relocatable'), 'actual': repr(exc)[:200],
                       'expected': 'an ELF file with a .relacode section', 'how_to_replay': REPLAY_HOWTO})
    # K3: absolute symbol (link(..., extra_symbols={...}) creates them): KeyError None
    o = mk_obj('x86_64')
    s = o.create_section('code')
    s.add_data(bytes(4))
    o.add_symbol(0, 'abs_sym', 'global', 77, None, 'object', 0)
    r, exc = real_write(o, 'executable')
    if not isinstance(r, OkV):
        ctx.violation({'fn': 'write_elf', 'key': 'absolute-symbol-' + type(exc).__name__,
                       'object': obj_summary(o, 'executable'), 'actual': repr(exc)[:200],
                       'expected': 'a symbol with st_shndx = SHN_ABS and st_value = 77', 'how_to_replay': REPLAY_HOWTO})


def witness_congruence(ctx):
    """K4: image at a non page-aligned address; also executed on a Linux x86_64 host when possible"""
    from ppci.binutils.objectfile import Section, Image
    o = mk_obj('x86_64')
    s = Section('code')
    s.address = 0x40010
    # mov rax, 60 ; mov rdi, 42 ; syscall
    s.add_data(bytes.fromhex('48c7c03c000000' '48c7c72a000000' '0f05'))
    o.add_section(s)
    im = Image('code', 0x40010)
    im.add_section(s)
    o.add_image(im)
    o.add_symbol(0, 'main', 'global', 0, 'code', 'func', 0)
    o.entry_symbol_id = 0
    r, exc = real_write(o, 'executable')
    if not isinstance(r, OkV):
        return
    c = [x for x in oracle_check(o, 'executable', r.v) if x.startswith('PT_LOAD congruence')]
    ran = None
    try:
        import platform
        if platform.system() == 'Linux' and platform.machine() == 'x86_64':
            with tempfile.NamedTemporaryFile(suffix='.elf', delete=False) as f:
                f.write(r.v)
            os.chmod(f.name, 0o755)
            try:
                ran = subprocess.run([f.name], timeout=10).returncode
            finally:
                os.unlink(f.name)
    except Exception:   # noqa: BLE001
        ran = None
    ctx.cov['stages']['congruence_witness'] = {'congruent': not c, 'exit_status_on_linux_loader': ran}
    if c:
        ctx.violation({'fn': 'write_elf', 'key': 'pt-load-offset-not-congruent', 'object': obj_summary(o, 'executable'),
                       'actual': c + ['exit status on this Linux loader: %r (42 expected)' % ran],
                       'expected': 'p_offset % 0x1000 == p_vaddr % 0x1000', 'how_to_replay': REPLAY_HOWTO})


def replay(rec):
    """./check C17 --replay FILE: rebuild the object, write it, run the oracle"""
    import json
    import logging
    logging.disable(logging.CRITICAL)
    _imports()
    from ppci.binutils.objectfile import Section, Image, RelocationEntry
    d = rec['object']
    o = mk_obj(d['arch'])
    for n, a, al, hx in d['sections']:
        s = Section(n)
        s.address, s.alignment = a, al
        s.add_data(bytes.fromhex(hx))
        o.add_section(s)
    for row in d['symbols']:
        o.add_symbol(*row)
    for row in d['relocations']:
        o.relocations.append(RelocationEntry(*row))
    for n, a, secs in d['images']:
        im = Image(n, a)
        for sn in secs:
            im.add_section(o.get_section(sn))
        o.add_image(im)
    o.entry_symbol_id = d['entry_symbol_id']
    r, exc = real_write(o, d['type'])
    if not isinstance(r, OkV):
        print('write_elf raises', repr(exc))
        return 1
    c = oracle_check(o, d['type'], r.v)
    print(json.dumps({'complaints': c}, indent=1))
    return 1 if c else 0


# ------------------------------------------------------------------ run
def run(ctx):
    import logging
    logging.disable(logging.CRITICAL)
    _imports()
    regen(ctx)
    ok, _ = ctx.build(['Proofs/C17_codec.vo', 'Proofs/C17_recover.vo', 'Proofs/C17_bounded.vo', 'Proofs/C17_file.vo', 'Proofs/C17_tables.vo', 'Proofs/C17_contents.vo'])
    if ok:
        ctx.check_props('Props/C17.v')
    if ctx.build(['Model/ElfWriter.vo', 'Proofs/C17_recover.vo', 'Lib/Val.vo'])[0]:
        correspondence(ctx, not ctx.quick())
    search(ctx)
    ctx.cov['exhaustive'] = False


MANIFEST = {
    'text': 'partial. Proved in Coq, for all inputs: the reader written from the gABI (Spec/ElfSpec.v, independent of ppci) '
            'decodes every field, every ELF/section/program header, symbol and RELA entry that the modelled writer '
            'serialises (ELF32/ELF64, both byte orders, layouts regenerated from ppci/format/elf/headers.py on every run), '
            'reads back whole tables located anywhere in a file, finds every name the string table handed out, accepts the '
            'locals-before-globals order with the sh_info the writer computes for any symbol list, splits RELA info words, '
            'and sees through a PT_LOAD segment exactly the image byte at every virtual address of every section of the '
            'image (given the image bytes sit at p_offset). Proved on a finite family only (402 objects; and re-evaluated '
            'in Coq on the model bytes of every object generated in each run): the whole-file composition — the reader '
            'accepts write(o) and recovers header, sections (name, size, contents, address, alignment), symbols (name, '
            'binding, type, section, value, size, sh_info), relocations (offset, symbol, type, addend) and segments. '
            'Only validated, not proved: model bytes = real ppci.format.elf.write_elf bytes (byte-for-byte differential test '
            'on asm/c3c/cc objects for x86_64, arm, riscv, xtensa, microblaze, linked executables and generated ObjectFile '
            'instances incl. malformed ones) and that binutils readelf and ppci\'s own ElfFile.load read the same facts '
            '(search oracle). Proved for every object (c17_file_layout + corollaries): every section and image byte range recorded '
            'by the writer lies in the final file and holds the section / Image.data bytes, with size, address, alignment, name '
            'index, PT_LOAD vaddr/filesz and (after the congruence fix) p_offset = p_vaddr mod page size. Wave 3, every object: c17_whole_file_tables — the reader decodes from the final bytes the ELF header record, the null + all recorded section headers at e_shoff (all fields, sh_link patched) and the program headers after the ELF header; c17_{shdr_table,symtab,rela,phdr}_read for lists of any length; c17_writer_{symbols,relas,section_headers}: the loops emit records with the prescribed fields. Wave 4, every object: c17_whole_file_contents — in the final file the .strtab, .symtab and every .rela<section> header designate exactly the string table and the serialised symbol / RELA records of the object (locals first, sh_info, names, per-section RELA offsets); c17_{symtab,rela,strtab}_in_file: the reader returns them. Still bounded only: that symbol_id_map maps ids to the table index of the symbol (r_sym) and the single-call acceptance of the monolithic ElfSpec.read.',
    'note': 'not modelled: ET_DYN (.dynamic/PT_DYNAMIC/DT_NEEDED), create_hash_table (dead code), DWARF (never emitted). '
            'Defects: big-endian (microblaze) files announce ELFDATA2MSB but pack every field in native order '
            '(fixes/C17-header-endianness.diff; Coq refutation c17_native_order_bigendian_refuted); relocatable files '
            'with relocations cannot be written for arm/riscv/xtensa/microblaze (get_reloc_type NotImplementedError); '
            'absolute symbols (link extra_symbols) raise KeyError (fixes/C17-absolute-symbols.diff); PT_LOAD p_offset not congruent '
            'to p_vaddr for non page-aligned images, Linux loader SIGSEGV (fixes/C17-segment-congruence.diff). Trusted: Coq kernel, hand model + differential test, '
            'table exporter, BytesIO/struct semantics, the gABI reading in ElfSpec.v, readelf.',
    'technique': 'Coq layer proofs + bounded whole-file vm_compute + per-run Coq reader validation + readelf differential',
}
