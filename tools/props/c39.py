"""C39 — bit-manipulation helpers compute their mathematical definitions (DESIGN §4 C39).

tie T: Gen/bitfun.v is regenerated from /repo/ppci/utils/bitfun.py; Props/C39.v states the
theorems about the regenerated definitions; the model/implementation correspondence re-checks
the translator on boundary pools; the search oracle (independent bit-by-bit reference) looks
for a concrete failing input whenever a stage breaks (and cheaply on every run).
"""
import itertools
from vlib import OkV, Diag, Internal, call_impl, to_term, boundary_pool

LEVEL = 'proof'
RULE = ('model/implementation cases: every translated function on boundary pools (widths 1..12, 16, 32, 64; '
        'values around +-2^k; all rotation counts for small widths); non-trivial = distinct argument tuple '
        'whose implementation outcome is a value (not an exception) and whose value argument is not 0')
EXPLANATION = ('Unbounded Coq theorems (all v, all widths) about the regenerated Gen.bitfun; correspondence and '
               'reference-oracle sweep are supporting validation of the translator, not the proof. '
               'c39_impl_choice_encode_imm32_smallest_rotation records an implementation choice (smallest rotation) that C39 does not '
               'require: a refactoring of encode_imm32 that returns another valid rotation keeps c39_encode_imm32_ok/_rejects/_total and '
               'the oracle sweep green and breaks only that one theorem (reported as an unproved obligation, not a wrong encoding)')
TRUSTED = ['tools/py2coq.py (translator, fail-closed; output cross-checked against the implementation on every run)',
           'Python int arithmetic == Coq Z arithmetic (floor div/mod, two\'s-complement bit ops)']
ASSUMPTIONS = ['width arguments are small enough for CPython to allocate 1 << bits',
               'encode_imm32 theorems assume 0 <= v < 2^32 (its callers pass 32-bit values); clz for bits >= 1, '
               'ctz/value_to_bytes_big_endian for bits/size >= 0; fuel > bits (always satisfiable)',
               'wasm runtime wrappers: the names rotl/rotr/to_signed/to_unsigned/clz/ctz/popcnt/sign_extend used in '
               'ppci/wasm/execution/runtime.py are the ones of ppci.utils.bitfun (checked on the import statements of '
               'the current source on every run)',
               'value_to_bits, bits_to_bytes: translated and cross-checked, no theorem stated (not part of '
               'the C39 statement)',
               'wrap_negative/inrange theorems for bits >= 1 (bits <= 0 makes 1 << (bits - 1) raise); align theorem for '
               'm > 0 with fuel >= m (m == 0 raises ZeroDivisionError, m < 0 is not covered)']

WRAP_FILE = 'ppci/wasm/execution/runtime.py'
WRAP_EXTERNAL = ['rotr', 'rotl', 'to_signed', 'to_unsigned', 'clz', 'ctz', 'popcnt', 'sign_extend']
WRAP_ENTRIES = [{'name': n} for n in (
    'i32_rotr', 'i64_rotr', 'i32_rotl', 'i64_rotl', 'i32_clz', 'i64_clz', 'i32_ctz', 'i64_ctz',
    'i32_popcnt', 'i64_popcnt', 'i32_extend8_s', 'i32_extend16_s', 'i64_extend8_s', 'i64_extend16_s',
    'i64_extend32_s')]

ENTRIES = [
    {'name': 'rotate_right'}, {'name': 'rotate_left'}, {'name': 'rotl'}, {'name': 'reverse_bits'},
    {'name': 'rotr'}, {'name': 'correct', 'params': {'signed': 'bool'}}, {'name': 'to_signed'},
    {'name': 'to_unsigned'}, {'name': 'clz'}, {'name': 'ctz'}, {'name': 'popcnt'}, {'name': 'sign_extend'},
    {'name': 'value_to_bytes_big_endian'}, {'name': 'value_to_bits'},
    {'name': 'bits_to_bytes', 'params': {'bits': 'blist'}}, {'name': 'encode_imm32'}, {'name': 'align'},
    {'name': 'wrap_negative'}, {'name': 'inrange'},
]


# ---------------------------------------------------------------- reference oracle (independent)
def bit(v, i):
    return (v >> i) & 1 if i >= 0 else 0


def ref(name, args):
    """mathematical definition; returns ('ok', value) or None when the definition does not apply"""
    if name in ('rotl', 'rotr'):
        v, c, n = args
        if n <= 0 or not (0 <= v < (1 << n)):
            return None
        c %= n
        if name == 'rotl':
            return sum(bit(v, (i - c) % n) << i for i in range(n))
        return sum(bit(v, (i + c) % n) << i for i in range(n))
    if name == 'rotate_right':
        v, n = args
        if not (0 <= n <= 32 and 0 <= v < (1 << 32)):
            return None
        return sum(bit(v, (i + n) % 32) << i for i in range(32))
    if name == 'rotate_left':
        v, n = args
        if not (0 <= n < 32 and 0 <= v < (1 << 32)):
            return None
        return sum(bit(v, (i - n) % 32) << i for i in range(32))
    if name == 'reverse_bits':
        v, n = args
        if n < 0:
            return None
        return sum(bit(v, n - 1 - i) << i for i in range(n))
    if name in ('sign_extend', 'to_signed'):
        v, n = args
        if n < 1:
            return None
        u = sum(bit(v, i) << i for i in range(n))
        return u - (1 << n) if bit(v, n - 1) else u
    if name == 'to_unsigned':
        v, n = args
        if n < 0:
            return None
        return sum(bit(v, i) << i for i in range(n))
    if name == 'popcnt':
        v, n = args
        if n < 0:
            return None
        return sum(bit(v, i) for i in range(n))
    if name == 'clz':
        v, n = args
        if n < 1 or not (0 <= v < (1 << n)):
            return None
        k = 0
        while k < n and bit(v, n - 1 - k) == 0:
            k += 1
        return k
    if name == 'ctz':
        v, n = args
        if n < 0:
            return None
        k = 0
        while k < n and bit(v, k) == 0:
            k += 1
        return k
    return None


def ref_wrapper(name, args):
    """n-bit operation on the two's-complement reading of the signed operand(s)"""
    n = 32 if name.startswith('i32') else 64
    op = name[4:]
    u = [bit(args[0], i) for i in range(n)]          # bit() reads negative ints as two's complement
    def signed(bits_):
        x = sum(b << i for i, b in enumerate(bits_))
        return x - (1 << n) if bits_[n - 1] else x
    if op in ('rotl', 'rotr'):
        c = args[1] % n
        if op == 'rotl':
            return signed([u[(i - c) % n] for i in range(n)])
        return signed([u[(i + c) % n] for i in range(n)])
    if op == 'clz':
        k = 0
        while k < n and u[n - 1 - k] == 0:
            k += 1
        return k
    if op == 'ctz':
        k = 0
        while k < n and u[k] == 0:
            k += 1
        return k
    if op == 'popcnt':
        return sum(u)
    if op.startswith('extend'):
        w = int(op[6:].split('_')[0])
        x = sum(bit(args[0], i) << i for i in range(w))
        return x - (1 << w) if bit(args[0], w - 1) else x
    return None


def wrapper_pool(ctx, name, big=False):
    rng = ctx.rng
    n = 32 if name.startswith('i32') else 64
    lo, hi = -(1 << (n - 1)), (1 << (n - 1)) - 1
    vals = {0, 1, -1, 2, -2, lo, hi, lo + 1, hi - 1, 0x80, 0xFF, 0x7F, 0x8000, 0xFFFF, 0x7FFF, -129, -32769,
            1 << (n - 2), -(1 << (n - 2))}
    for k in range(0, n - 1, 5 if not big else 1):
        vals.update([1 << k, -(1 << k), (1 << k) - 1])
    for _ in range(6 if not big else 60):
        vals.add(rng.randrange(lo, hi + 1))
    vals = sorted(v for v in vals if lo <= v <= hi)
    if name[4:] in ('rotl', 'rotr'):
        cnts = sorted({0, 1, n - 1, n, n + 1, -1, lo, hi, rng.randrange(lo, hi + 1)})
        return [(v, c) for v in vals for c in cnts]
    return [(v,) for v in vals]


def ref_encode_imm32(v):
    """('ok', check(x)) — representable iff exists rot<16, imm8<256 with ror32(imm8, 2*rot) == v"""
    def ror32(x, c):
        c %= 32
        return ((x >> c) | (x << (32 - c))) & 0xFFFFFFFF
    reps = [(rot, imm) for rot in range(16) for imm in range(256) if ror32(imm, 2 * rot) == v]
    return reps, ror32


def arg_pool(ctx, name):
    rng = ctx.rng
    widths = list(range(1, 13)) + [16, 32, 64]
    out = []
    if name in ('rotl', 'rotr'):
        for n in widths:
            vals = {0, 1, (1 << n) - 1, 1 << (n - 1), (1 << n) // 3, rng.randrange(1 << n), rng.randrange(1 << n)}
            for v in sorted(vals):
                for c in sorted({0, 1, n - 1, n, n + 1, -1, rng.randrange(0, 2 * n + 1)}):
                    out.append((v, c, n))
        out += [(5, 1, 0), (5, 1, -1), (300, 1, 8), (-1, 1, 8)]
    elif name in ('rotate_right', 'rotate_left'):
        for v in [0, 1, 0x80000000, 0xFFFFFFFF, 0x12345678, 0x80000001, rng.randrange(1 << 32)]:
            for n in [0, 1, 2, 15, 16, 30, 31, 32, 33, -1]:
                out.append((v, n))
    elif name in ('reverse_bits', 'sign_extend', 'to_signed', 'to_unsigned', 'popcnt', 'clz', 'ctz'):
        for n in widths + [0]:
            vals = {0, 1, 2, 3, -1, -2, (1 << n) - 1, 1 << max(n - 1, 0), (1 << n), (1 << n) + 1,
                    -(1 << max(n - 1, 0)), rng.randrange(1 << max(n, 1)), rng.randrange(-(1 << n), 1 << (n + 1))}
            for v in sorted(vals):
                out.append((v, n))
    elif name == 'correct':
        for n in widths:
            for v in [0, 1, -1, (1 << n) - 1, 1 << (n - 1), (1 << (n - 1)) - 1, 1 << n, -(1 << n) - 1,
                      rng.randrange(-(1 << n), 1 << (n + 1))]:
                out.append((v, n, True))
                out.append((v, n, False))
    elif name == 'value_to_bytes_big_endian':
        for v in [0, 1, 255, 256, 0x1234, 0x123456, 0xFFFFFFFF, 0x123456789A, -1, -256]:
            for s in [0, 1, 2, 3, 4, 8]:
                out.append((v, s))
    elif name == 'value_to_bits':
        for v in [0, 1, 5, 0xA5, 0x1234, -1]:
            for n in [0, 1, 7, 8, 9, 16]:
                out.append((v, n))
    elif name == 'bits_to_bytes':
        for k in [0, 1, 7, 8, 9, 15, 16, 17]:
            out.append(([bool(rng.randrange(2)) for _ in range(k)],))
    elif name == 'encode_imm32':
        for v in [0, 1, 255, 256, 257, 0x3FC, 0xFF000000, 0xF000000F, 0x104, 0x102, 0xFF00, 0xFF0000,
                  0x101, 0xFFFFFFFF, 0x80000000, 0xC0000034, -1, 1 << 32, (1 << 32) + 1] + \
                 [rng.randrange(256) << (2 * rng.randrange(12)) for _ in range(12)] + \
                 [rng.randrange(1 << 32) for _ in range(6)]:
            out.append((v,))
    elif name == 'align':
        for v in [0, 1, 3, 4, 5, 17, 100, -3]:
            for m in [1, 2, 4, 8, 16, 3, 0]:
                out.append((v, m))
    elif name in ('wrap_negative', 'inrange'):
        for n in [1, 2, 3, 7, 8, 12, 16, 20, 32]:
            for v in sorted({0, 1, -1, (1 << n) - 1, (1 << n), (1 << n) + 1, -(1 << (n - 1)), -(1 << (n - 1)) - 1,
                             (1 << (n - 1)), (1 << (n - 1)) - 1, -(1 << n), rng.randrange(-(1 << n), 1 << n)}):
                out.append((v, n))
    return out


def model_call(info, name, args):
    fuel = 'FUEL ' if getattr(info, 'uses_fuel', False) else ''
    return '%s %s%s' % (py2name(name), fuel, ' '.join(wrap(to_term(a)) for a in args))


def py2name(n):
    import py2coq
    return py2coq.cname(n)


def wrap(t):
    return t if t.startswith('(') or t.startswith('[') or t.isalnum() else '(%s)' % t


def impl_outcome(fn, name, args):
    import copy
    r = call_impl(fn, copy.deepcopy(list(args)), diag=(ValueError, TypeError) if name in
                  ('encode_imm32', 'wrap_negative') else ())
    if isinstance(r, OkV):
        v = r.v
        if name == 'value_to_bits':
            v = [int(b) for b in v]
        return OkV(v)
    return r


def oracle_sweep(ctx, bf, thorough):
    """implementation vs independent reference. Returns number of evaluations."""
    n_eval = 0
    maxw = 12 if thorough else 7
    names = ['rotl', 'rotr', 'reverse_bits', 'sign_extend', 'to_signed', 'to_unsigned', 'popcnt', 'clz', 'ctz']
    for name in names:
        fn = getattr(bf, name)
        for n in range(1, maxw + 1):
            for v in range(1 << n):
                counts = range(0, n + 1) if name in ('rotl', 'rotr') else [None]
                for c in counts:
                    args = (v, c, n) if c is not None else (v, n)
                    exp = ref(name, args)
                    if exp is None:
                        continue
                    n_eval += 1
                    got = call_impl(fn, list(args))
                    if not (isinstance(got, OkV) and got.v == exp):
                        ctx.violation({'fn': name, 'args': list(args), 'expected': exp,
                                       'actual': got.v if isinstance(got, OkV) else 'exception',
                                       'how_to_replay': 'PYTHONPATH=/repo python -c "from ppci.utils.bitfun import %s; print(%s%r)"' % (name, name, tuple(args))})
                        break
    # boundary pools for wide widths and out-of-range inputs
    for name in names + ['rotate_right', 'rotate_left']:
        fn = getattr(bf, name)
        for args in arg_pool(ctx, name):
            exp = ref(name, args)
            if exp is None:
                continue
            n_eval += 1
            got = call_impl(fn, list(args))
            if not (isinstance(got, OkV) and got.v == exp):
                ctx.violation({'fn': name, 'args': list(args), 'expected': exp,
                               'actual': got.v if isinstance(got, OkV) else 'exception'})
    # encode_imm32: succeeds exactly for representable values; result decodes to the input
    vals = set()
    for rot in range(16):
        for imm in ([0, 1, 2, 0x80, 0xFF, 0x81, 0x55] if not thorough else range(256)):
            x = ((imm >> (2 * rot)) | (imm << (32 - 2 * rot))) & 0xFFFFFFFF
            vals.update([x, x + 1, x - 1, x ^ 0x100])
    vals.update([0x102, 0x101, 0x104, 0xFFFFFFFF, 0x1FE, 0x3FC, 0xFF1, 0xF000000F, 0xF000001F])
    for v in sorted(vals):
        if not (0 <= v < (1 << 32)):
            continue
        reps, ror32 = ref_encode_imm32(v)
        got = call_impl(bf.encode_imm32, [v], diag=(ValueError,))
        n_eval += 1
        bad = None
        if reps and not isinstance(got, OkV):
            bad = 'representable value rejected'
        elif not reps and isinstance(got, OkV):
            bad = 'non-representable value accepted'
        elif reps and ror32(got.v & 0xFF, 2 * (got.v >> 8)) != v or (reps and not 0 <= got.v < 4096):
            bad = 'encoding does not decode to the input'
        if bad:
            ctx.violation({'fn': 'encode_imm32', 'args': [v], 'what': bad,
                           'actual': got.v if isinstance(got, OkV) else 'exception'})
    # value_to_bytes_big_endian: size bytes, most significant first, of value mod 256^size
    for v in boundary_pool(70) + [ctx.rng.randrange(-(1 << 70), 1 << 70) for _ in range(20)]:
        for size in (0, 1, 2, 3, 4, 8, 9):
            got = call_impl(bf.value_to_bytes_big_endian, [v, size])
            n_eval += 1
            exp = [((v % (256 ** size)) // (256 ** (size - 1 - k))) % 256 for k in range(size)]
            if not (isinstance(got, OkV) and list(got.v) == exp):
                ctx.violation({'fn': 'value_to_bytes_big_endian', 'args': [v, size], 'expected': exp,
                               'actual': list(got.v) if isinstance(got, OkV) else 'exception'})
    # wrap_negative / inrange / align against their definitions (Spec/BitsSpecExt.v)
    for n in list(range(1, (9 if thorough else 6))) + [12, 16, 32, 64]:
        lo, hi = -(1 << (n - 1)), (1 << n)
        if n <= 8:
            vals_ = range(lo - 3, hi + 4)
        else:
            vals_ = sorted({lo - 1, lo, lo + 1, -1, 0, 1, -lo - 1, -lo, -lo + 1, hi - 1, hi, hi + 1, -hi,
                            ctx.rng.randrange(2 * lo, 2 * hi)})
        for v in vals_:
            n_eval += 2
            got = call_impl(bf.wrap_negative, [v, n], diag=(ValueError,))
            if lo <= v < hi:
                good = isinstance(got, OkV) and got.v == v % (1 << n)
                exp = v % (1 << n)
            else:
                good = got is Diag
                exp = 'ValueError'
            if not good:
                ctx.violation({'fn': 'wrap_negative', 'args': [v, n], 'expected': exp,
                               'actual': got.v if isinstance(got, OkV) else getattr(got, '__name__', repr(got)),
                               'how_to_replay': 'PYTHONPATH=/repo python -c "from ppci.utils.bitfun import wrap_negative; print(wrap_negative(%d, %d))"' % (v, n)})
            got = call_impl(bf.inrange, [v, n])
            exp = (lo <= v < -lo)
            if not (isinstance(got, OkV) and got.v is exp):
                ctx.violation({'fn': 'inrange', 'args': [v, n], 'expected': exp,
                               'actual': got.v if isinstance(got, OkV) else 'exception',
                               'how_to_replay': 'PYTHONPATH=/repo python -c "from ppci.utils.bitfun import inrange; print(inrange(%d, %d))"' % (v, n)})
    for m in list(range(1, 10)) + [16, 64, 100]:
        for v in list(range(-2 * m - 1, 2 * m + 2)) + [ctx.rng.randrange(-(1 << 40), 1 << 40)]:
            n_eval += 1
            got = call_impl(bf.align, [v, m])
            exp = -((-v) // m) * m
            if not (isinstance(got, OkV) and got.v == exp):
                ctx.violation({'fn': 'align', 'args': [v, m], 'expected': exp,
                               'actual': got.v if isinstance(got, OkV) else 'exception',
                               'how_to_replay': 'PYTHONPATH=/repo python -c "from ppci.utils.bitfun import align; print(align(%d, %d))"' % (v, m)})
    # wasm runtime wrappers on signed operands
    rt = load_runtime()
    if rt is not None:
        for ent in WRAP_ENTRIES:
            name = ent['name']
            fn = getattr(rt, name, None)
            if fn is None:
                continue
            for args in wrapper_pool(ctx, name, big=thorough):
                exp = ref_wrapper(name, args)
                got = call_impl(fn, list(args))
                n_eval += 1
                if not (isinstance(got, OkV) and got.v == exp):
                    ctx.violation({'fn': name, 'args': list(args), 'expected': exp,
                                   'actual': got.v if isinstance(got, OkV) else 'exception',
                                   'how_to_replay': 'PYTHONPATH=/repo python -c "from ppci.wasm.execution.runtime import %s; print(%s%r)"' % (name, name, tuple(args))})
    return n_eval


def load_runtime():
    try:
        import importlib
        import ppci.wasm.execution.runtime as rt
        importlib.reload(rt)
        return rt
    except Exception:   # noqa: BLE001
        return None


def check_wrapper_imports(ctx):
    """the wrappers are translated against the FnInfo of Gen.bitfun: make sure the names they call are
    really imported from ppci.utils.bitfun in the current source and not rebound in the module"""
    import ast
    import os
    from vlib import REPO, TieBroken
    tree = ast.parse(open(os.path.join(REPO, WRAP_FILE)).read())
    imported, rebound = set(), set()
    wrappers = {e['name'] for e in WRAP_ENTRIES}
    for node in tree.body:
        if isinstance(node, ast.ImportFrom):
            for al in node.names:
                nm = al.asname or al.name
                if node.level == 3 and node.module == 'utils.bitfun' and al.asname in (None, al.name):
                    imported.add(al.name)
                elif nm in WRAP_EXTERNAL:
                    rebound.add(nm)
        elif isinstance(node, ast.Import):
            for al in node.names:
                if (al.asname or al.name) in WRAP_EXTERNAL:
                    rebound.add(al.asname or al.name)
        elif isinstance(node, (ast.FunctionDef, ast.ClassDef)):
            if node.name in WRAP_EXTERNAL:
                rebound.add(node.name)
        elif isinstance(node, (ast.Assign, ast.AugAssign, ast.AnnAssign)):
            for x in ast.walk(node):
                if isinstance(x, ast.Name) and isinstance(x.ctx, ast.Store) and x.id in WRAP_EXTERNAL:
                    rebound.add(x.id)
    used = set()
    for node in tree.body:
        if isinstance(node, ast.FunctionDef) and node.name in wrappers:
            for x in ast.walk(node):
                if isinstance(x, ast.Name) and x.id in WRAP_EXTERNAL:
                    used.add(x.id)
    missing = sorted((used - imported) | (used & rebound))
    if missing:
        msg = '%s: %s not (only) imported from ...utils.bitfun' % (WRAP_FILE, ', '.join(missing))
        ctx.log(msg)
        ctx.failed_stages.append(('translate', msg))
        raise TieBroken(msg)


def search(ctx):
    from vlib import ensure_repo_on_path
    ensure_repo_on_path()
    import importlib
    import ppci.utils.bitfun as bf
    importlib.reload(bf)
    n = oracle_sweep(ctx, bf, not ctx.quick())
    ctx.cov['stages']['oracle_sweep'] = n
    ctx.cov['evaluations'] += n


def regen(ctx):
    infos, hashes = ctx.gen_T('bitfun', 'ppci/utils/bitfun.py', ENTRIES)
    check_wrapper_imports(ctx)
    winfos, whashes = ctx.gen_T('wasm_rt_bits', WRAP_FILE, WRAP_ENTRIES,
                                imports=['From PV Require Import Gen.bitfun.'],
                                known={n: infos[n] for n in WRAP_EXTERNAL})
    infos = dict(infos)
    infos.update(winfos)
    hashes = dict(hashes)
    hashes.update(whashes)
    return infos, hashes


def run(ctx):
    import ppci.utils.bitfun as bf
    infos, hashes = regen(ctx)
    ok, _ = ctx.build(['Proofs/C39_bitfun.vo', 'Proofs/C39_bitfun2.vo', 'Proofs/C39_bitfun3.vo'])
    if ok:
        ctx.check_props('Props/C39.v')
    # ---- correspondence: regenerated model vs implementation
    if ctx.build(['Gen/bitfun.vo', 'Gen/wasm_rt_bits.vo', 'Lib/Val.vo'])[0]:
        cases, recs = [], []
        seen = set()
        for ent in ENTRIES:
            name = ent['name']
            fn = getattr(bf, name)
            for args in arg_pool(ctx, name):
                key = (name, repr(args))
                if key in seen:
                    continue
                seen.add(key)
                out = impl_outcome(fn, name, args)
                cases.append((model_call(infos[name], name, args), out))
                recs.append((name, args, out))
        rt = load_runtime()
        for ent in (WRAP_ENTRIES if rt is not None else []):
            name = ent['name']
            pool = wrapper_pool(ctx, name)
            for args in pool[:: max(1, len(pool) // 60)]:
                out = impl_outcome(getattr(rt, name), name, args)
                cases.append((model_call(infos[name], name, args), out))
                recs.append((name, args, out))
        nontriv = sum(1 for (n, a, o) in recs if isinstance(o, OkV) and a and a[0] not in (0, []))
        ctx.cov['distinct_nontrivial'] += nontriv
        for r in recs[:: max(1, len(recs) // 8)]:
            ctx.note_sample({'fn': r[0], 'args': repr(r[1]), 'impl': repr(r[2].v) if isinstance(r[2], OkV) else r[2].__name__})
        dist = {}
        for (n, a, o) in recs:
            d = dist.setdefault(n, {'ok': 0, 'diag': 0, 'internal': 0})
            d['ok' if isinstance(o, OkV) else ('diag' if o is Diag else 'internal')] += 1
        ctx.cov['stages']['correspondence_distribution'] = dist
        bad = ctx.run_cases('bitfun', ['Gen.bitfun', 'Gen.wasm_rt_bits'], cases)
        if bad:
            for i in bad[:5]:
                name, args, out = recs[i]
                ctx.log('model/implementation disagree on', name, args, 'impl=', out.v if isinstance(out, OkV) else out)
            ctx.failed_stages.append(('correspondence', 'Gen.bitfun/Gen.wasm_rt_bits disagree with the implementation on %d cases, first: %s%r'
                                      % (len(bad), recs[bad[0]][0], recs[bad[0]][1])))
    # ---- reference oracle sweep: always (cheap), deeper when a stage failed or tier is thorough
    n = oracle_sweep(ctx, bf, (not ctx.quick()) or bool(ctx.failed_stages))
    ctx.cov['stages']['oracle_sweep'] = n
    ctx.cov['evaluations'] += n
    ctx.cov['exhaustive'] = False

MANIFEST = {
    'text': 'proof: unbounded Coq theorems (every value incl. negative, every width) that rotl/rotr/rotate_left/rotate_right, '
            'reverse_bits, sign_extend, to_signed/to_unsigned, popcnt, clz and ctz of ppci/utils/bitfun.py equal their Z.testbit '
            'definitions; that encode_imm32 on 32-bit values succeeds exactly on the ARM-representable ones, returns a 12-bit code '
            'that decodes to the input (separately, as an implementation choice not required by C39: it uses the smallest rotation); that value_to_bytes_big_endian yields the size base-256 digits '
            'of value mod 256^size, most significant first; and that the wasm runtime wrappers i32/i64_rotl/rotr/clz/ctz/popcnt and '
            'iNN_extendM_s (ppci/wasm/execution/runtime.py) compute the n-bit operation on the two\'s-complement reading of their signed '
            'operands; that wrap_negative succeeds exactly on values in [-2^(bits-1), 2^bits) and returns value mod 2^bits (else the documented '
            'ValueError), that to_signed inverts it on the signed range, that inrange decides the signed n-bit range (equivalently: the '
            'two\'s-complement reading preserves the value), and that align returns the least multiple of m >= value (m > 0). Both models are regenerated from the source by py2coq on every run, so the theorems are re-checked against the '
            'current code',
    'note': 'trusted: Coq kernel, tools/py2coq.py (cross-checked per run against the implementation on ~4000 boundary cases), '
            'Python int == Z, the import check tying the wrapper callee names to ppci.utils.bitfun. value_to_bits/bits_to_bytes '
            'are translated and cross-checked but have no theorem. No axioms.',
    'technique': 'Coq proof over py2coq-regenerated model + differential correspondence',
}
