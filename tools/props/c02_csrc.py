"""C02 — second module source: C functions compiled by ppci's own front-end (api.c_to_ir).

CORPUS      hand-written idioms whose IR shapes only come out of the C front-end + mem2reg pipeline
            (do-while updating the variable in the loop header, if/else assigning one variable in both
            arms, nested ifs, early returns, pointer parameters called with the SAME address twice,
            unions / type punning through same-width different-signedness types, arrays in loops, struct
            copies, globals modified by callees).
gen_c(rng)  small random C modules over the same ingredients.
Entry functions are the functions whose parameters are all integers (pointer-taking helpers are reached
through integer wrappers that pass &array[i], &array[j]; i == j gives aliasing pointer arguments).
"""
import io

ARCHS = {'x86_64': (8, 65536, 16777216), 'arm': (4, 65536, 16777216)}

CORPUS = [
    ('alias_store_load_store', """
int cell[4];
int f(int *p, int *q) { *p = 11; int x = *q; *p = 22; return x; }
int g(int *p, int *q) { *p = 1; *q = 2; return *p; }
int h(int *p, int *q, int v) { int a = *p; *q = v; return a + *p; }
int main_f(int i, int j) { cell[i & 3] = 5; cell[j & 3] = 7; int r = f(&cell[i & 3], &cell[j & 3]); return r * 100 + cell[i & 3]; }
int main_g(int i, int j) { return g(&cell[i & 3], &cell[j & 3]) * 10 + cell[j & 3]; }
int main_h(int i, int j, int v) { cell[0] = 3; cell[1] = 4; cell[2] = 5; cell[3] = 6; return h(&cell[i & 3], &cell[j & 3], v); }
"""),
    ('dowhile_header_update', """
int g;
int count(int n) { int x = 0; g = n; do { x = x + 3; g = g - 1; } while (g > 0); return x; }
int count2(int n) { int x = 1; int k = (n & 3) + 3; do { x = x * 2 + k; k = k - 1; } while (k > 0); return x; }
int count_while(int n) { int x = 0; n = (n & 7) + 3; while (n > 0) { x = x + 3; n = n - 1; } return x; }
int nested(int n) { int s = 0; int i = (n & 3) + 3; do { int j = 3; do { s = s + i * j; j = j - 1; } while (j > 0); i = i - 1; } while (i > 0); return s; }
"""),
    ('ifelse_both_arms', """
int mx(int a, int b) { int x; if (a > b) x = a; else x = b; return x; }
int mn3(int a, int b, int c) { int x; if (a < b) x = a; else x = b; if (c < x) x = c; return x; }
int sel(int a, int b) { int x = 0; int y = 1; if (a == b) { x = a; y = b; } else { x = b; y = a; } return x * 3 + y; }
int nest(int a, int b, int c) { int r; if (a > 0) { if (b > 0) r = 1; else r = 2; } else { if (c > 0) r = 3; else r = 4; } return r; }
int chain(int a) { int r = 0; if (a == 0) r = 10; else if (a == 1) r = 20; else if (a == 2) r = 30; else r = a; return r; }
"""),
    ('early_return', """
int g;
int er(int a, int b) { if (a < 0) return -1; if (b == 0) return a; g = a + b; if (g > 100) return 100; return g; }
int find(int k) { int a[6]; int i; for (i = 0; i < 6; i++) a[i] = i * 3; for (i = 0; i < 6; i++) { if (a[i] == k) return i; } return -1; }
int sign(int a) { if (a > 0) return 1; else if (a < 0) return -1; return 0; }
"""),
    ('union_pun', """
union U { int i; unsigned u; };
union V { short s; unsigned short us; };
union W { long long l; unsigned long long ul; int parts[2]; };
unsigned pun(int v) { union U u; u.i = v; return u.u / 2; }
int pun2(int v) { union U u; u.u = (unsigned)v; u.u = u.u >> 1; return u.i; }
int pun3(int v) { union V x; x.s = (short)v; return x.us + 1; }
int pun4(int v) { int x = v; unsigned *p = (unsigned *)&x; return (int)(*p >> 4); }
int pun5(int v) { unsigned x; int *p = (int *)&x; *p = v; return (x > 1000u) ? 1 : 2; }
int pun6(int a, int b) { union W w; w.parts[0] = a; w.parts[1] = b; return (int)(w.ul >> 8); }
"""),
    ('arrays_loops', """
int ga[8];
int arr(int n) { int a[8]; int i; int s = 0; for (i = 0; i < 8; i++) a[i] = i * n; for (i = 0; i < 8; i++) s += a[i]; return s; }
int rev(int n) { int i; for (i = 0; i < 8; i++) ga[i] = i + n; for (i = 0; i < 4; i++) { int t = ga[i]; ga[i] = ga[7 - i]; ga[7 - i] = t; } return ga[0] * 10 + ga[7]; }
int pre(int n) { int i; ga[0] = n; for (i = 1; i < 8; i++) ga[i] = ga[i - 1] + i; return ga[7]; }
int two(int a, int b) { int m[3][3]; int i; int j; int s = 0; for (i = 0; i < 3; i++) for (j = 0; j < 3; j++) m[i][j] = a * i + b * j; for (i = 0; i < 3; i++) s += m[i][i]; return s; }
"""),
    ('struct_copy', """
struct S { int a; int b; int c; };
struct S gs; struct S gt;
int scp(int a) { struct S s; s.a = a; s.b = a + 1; s.c = 9; gs = s; return gs.b; }
int scp2(int a) { struct S s; struct S t; s.a = a; s.b = 2; s.c = 3; t = s; s.a = 100; return t.a + s.a; }
int scp3(int a) { gs.a = a; gs.b = 5; gs.c = 6; gt = gs; gs.b = 50; gt.c = gt.c + gs.b; return gt.a + gt.b + gt.c; }
int scp4(int a) { struct S s; s.a = 1; s.b = 2; s.c = 3; struct S *p = &s; struct S t; t = *p; p->a = a; return t.a * 10 + s.a; }
"""),
    ('callee_globals', """
int g; int h;
void bump(int k) { g = g + k; }
int rd(void) { return g; }
int cg(int a) { g = a; bump(3); return g; }
int cg2(int a) { g = a; int x = g; bump(x); int y = g; bump(y); return g + x + y; }
int cg3(int a) { h = 1; g = a; h = rd() + h; g = 7; return h * 100 + rd(); }
int rec(int n, int acc) { if (n <= 0) return acc; return rec(n - 1, acc + n); }
int recg(int n) { if (n <= 0) return g; g = g + n; return recg(n - 1); }
int drv(int n) { g = 2; return rec(n & 7, 0) + recg(n & 3); }
"""),
    ('ptr_walk', """
int buf[8];
int sum(int *p, int n) { int s = 0; while (n > 0) { s += *p; p++; n--; } return s; }
void fill(int *p, int n, int v) { int i; for (i = 0; i < n; i++) p[i] = v + i; }
int pw(int v) { fill(buf, 8, v); return sum(buf + 2, 5); }
int swap_t(int i, int j) { int *p = &buf[i & 7]; int *q = &buf[j & 7]; fill(buf, 8, 1); int t = *p; *p = *q + 1; *q = t + 2; return *p * 10 + *q; }
int acc(int *p, int *q) { *p += *q; *q += *p; *p += *q; return *p; }
int acc_t(int i, int j) { fill(buf, 8, 2); return acc(&buf[i & 7], &buf[j & 7]); }
"""),
    ('wide_consts', """
long long gw;
long long w1(int k) { long long a = 9007199254740993LL; long long b = 10; if (k > 100) b = 7; return a % b; }
unsigned long long w2(int k) { unsigned long long a = 0xFFFFFFFFFFFFFFC5ULL; unsigned long long b = 1000000007ULL; return a % b + (unsigned long long)k; }
long long w3(int k) { long long a = -9007199254740993LL; long long b = 1000000007LL; gw = a % b; return gw / 3 + k; }
unsigned long long w4(int k) { unsigned long long a = 0x8000000000000001ULL; return (a / 3ULL) % 1000003ULL + (a >> 7) + (unsigned long long)k; }
long long w5(int k) { long long a = 4611686018427387907LL; long long c = a % 1000000009LL; int n = (int)a; return c * 3 + n + k; }
long long w6(int k) { long long a = 9223372036854775807LL; long long b = a - 58; return (a % 97) + (b % 1000000007LL) + (a / 1000000007LL) + k; }
"""),
    ('mixed_width', """
unsigned char cb[8];
short sb[4];
int mw(int v) { cb[0] = (unsigned char)v; cb[1] = (unsigned char)(v >> 8); return cb[0] + cb[1] * 256; }
int mw2(int v) { sb[1] = (short)v; unsigned short *p = (unsigned short *)&sb[1]; return *p; }
int mw3(int v) { signed char c = (signed char)v; unsigned char *p = (unsigned char *)&c; return *p + c; }
unsigned mw4(int v) { int x = v; *(unsigned *)&x = *(unsigned *)&x + 1u; return (unsigned)x % 7u; }
long long mw5(int v) { long long l = v; unsigned long long *p = (unsigned long long *)&l; *p = *p << 1; return l; }
"""),
]


def compile_c(src, arch):
    from ppci import api
    m = api.c_to_ir(io.StringIO(src), arch)
    return m


def entries(ir, m):
    """functions whose parameters are all integers"""
    return [f for f in m.functions if all(isinstance(p.ty, ir.IntegerTyp) for p in f.arguments)]


def c_arg_vectors(rng, f, n):
    k = len(f.arguments)
    pool = [0, 1, 2, 3, 4, 5, 7, -1, -2, 100, 1000, -77]
    vs = [[0] * k, [1] * k, [2] * k, [3] * k, [5] * k] if k else [[]]
    while len(vs) < n and k:
        vs.append([rng.choice(pool) for _ in range(k)])
    out = []
    for v in vs:
        w = []
        for p, x in zip(f.arguments, v):
            lo = -(1 << (p.ty.bits - 1)) if p.ty.signed else 0
            hi = (1 << (p.ty.bits - 1)) - 1 if p.ty.signed else (1 << p.ty.bits) - 1
            w.append(min(max(x, lo), hi))
        if w not in out:
            out.append(w)
    return out[:n]


# ------------------------------------------------------------------------------ random C modules
class CGen:
    def __init__(self, rng):
        self.rng = rng
        self.nloop = 0

    def expr(self, vars_, depth=0):
        rng = self.rng
        r = rng.random()
        if depth > 2 or r < 0.3:
            return rng.choice(vars_) if rng.random() < 0.75 else str(rng.choice([0, 1, 2, 3, 5, 7, 10, 255, -1, -4]))
        if r < 0.75:
            op = rng.choice(['+', '-', '*', '&', '|', '^'])
            return '(%s %s %s)' % (self.expr(vars_, depth + 1), op, self.expr(vars_, depth + 1))
        if r < 0.83:
            return '(%s %s %d)' % (self.expr(vars_, depth + 1), rng.choice(['/', '%']), rng.choice([2, 3, 7]))
        if r < 0.9:
            return '(%s %s %d)' % (self.expr(vars_, depth + 1), rng.choice(['<<', '>>']), rng.randint(0, 5))
        if r < 0.95:
            return 'ga[%s & 7]' % self.expr(vars_, depth + 1)
        return '(%s %s %s ? %s : %s)' % (self.expr(vars_, depth + 1), rng.choice(['<', '==', '>']),
                                         self.expr(vars_, depth + 1), self.expr(vars_, depth + 1),
                                         self.expr(vars_, depth + 1))

    def cond(self, vars_):
        return '%s %s %s' % (self.expr(vars_, 1), self.rng.choice(['<', '>', '==', '!=', '<=', '>=']),
                             self.expr(vars_, 1))

    def stmts(self, vars_, lv, depth, n, in_helper=False):
        rng = self.rng
        out = []
        for _ in range(n):
            r = rng.random()
            x = rng.choice(lv)
            if r < 0.3 or depth > 2:
                out.append('%s = %s;' % (x, self.expr(vars_)))
            elif r < 0.42:
                out.append('if (%s) { %s } else { %s }' % (
                    self.cond(vars_), '%s = %s;' % (x, self.expr(vars_)) if rng.random() < 0.6 else
                    ' '.join(self.stmts(vars_, lv, depth + 1, 2, in_helper)),
                    '%s = %s;' % (x, self.expr(vars_)) if rng.random() < 0.6 else
                    ' '.join(self.stmts(vars_, lv, depth + 1, 2, in_helper))))
            elif r < 0.5:
                out.append('if (%s) { %s }' % (self.cond(vars_), ' '.join(self.stmts(vars_, lv, depth + 1, 2, in_helper))))
            elif r < 0.62 and depth < 2:
                k = 'k%d' % self.nloop
                self.nloop += 1
                body = ' '.join(self.stmts(vars_ + [k], lv, depth + 1, rng.randint(1, 3), in_helper))
                init = '(%s & 3) + 3' % rng.choice(vars_)
                kind = rng.random()
                if kind < 0.4:
                    out.append('{ int %s = %s; do { %s %s = %s - 1; } while (%s > 0); }' % (k, init, body, k, k, k))
                elif kind < 0.7:
                    out.append('{ int %s = %s; while (%s > 0) { %s %s = %s - 1; } }' % (k, init, k, body, k, k))
                else:
                    out.append('{ int %s; for (%s = 0; %s < %s; %s++) { %s } }' % (k, k, k, init, k, body))
            elif r < 0.68:
                out.append('ga[%s & 7] = %s;' % (self.expr(vars_, 1), self.expr(vars_)))
            elif r < 0.74 and not in_helper:
                out.append('%s = %s(&ga[%s & 7], &ga[%s & 7]);' % (x, rng.choice(['h0', 'h1']), self.expr(vars_, 2),
                                                                   self.expr(vars_, 2)))
            elif r < 0.79 and not in_helper:
                out.append('bump(%s);' % self.expr(vars_, 1))
            elif r < 0.84:
                out.append('{ union U u; u.i = %s; %s = (int)(u.u >> %d); }' % (self.expr(vars_), x, rng.randint(0, 4)))
            elif r < 0.88:
                out.append('{ union U u; u.u = (unsigned)%s; u.u = u.u / 3u; %s = u.i; }' % (self.expr(vars_), x))
            elif r < 0.93:
                out.append('{ struct P s; s.x = %s; s.y = %s; gp = s; %s = gp.y + s.x; }' % (
                    self.expr(vars_), self.expr(vars_), x))
            elif r < 0.97 and depth == 0:
                out.append('if (%s) return %s;' % (self.cond(vars_), self.expr(vars_)))
            else:
                out.append('g0 = %s; %s = g1 + g0;' % (self.expr(vars_), x))
        return out

    def module(self):
        rng = self.rng
        src = ['int ga[8]; int g0; int g1;', 'struct P { int x; int y; }; struct P gp;',
               'union U { int i; unsigned u; };',
               'void bump(int k) { g0 = g0 + k; ga[k & 7] = g1 + 1; g1 = g1 ^ k; }']
        for h in ('h0', 'h1'):
            body = self.stmts(['(*p)', '(*q)', 't', 'g0'], ['(*p)', '(*q)', 't'], 1, rng.randint(2, 4), True)
            src.append('int %s(int *p, int *q) { int t = %s; %s return %s; }' % (
                h, rng.choice(['*p', '*q', '1']), ' '.join(body), self.expr(['(*p)', '(*q)', 't'])))
        for k in range(rng.randint(1, 3)):
            vars_ = ['a', 'b', 'c', 'x', 'y', 'z', 'g0', 'g1']
            body = self.stmts(vars_, ['x', 'y', 'z'], 0, rng.randint(3, 6))
            src.append('int f%d(int a, int b, int c) { int x = %s; int y = %s; int z = 0; %s return %s; }' % (
                k, rng.choice(['a', '1', 'b']), rng.choice(['b', 'c', '2']), ' '.join(body),
                self.expr(['x', 'y', 'z', 'g0'])))
        return '\n'.join(src)


def gen_c(rng):
    return CGen(rng).module()
