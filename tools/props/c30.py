"""C30 — compilation is deterministic (DESIGN §4 C30).  PARTIAL (LEVEL 'other').

What is proved (Props/C30.v, hand models, tie H):
  * Model/OrderedSet.v — ppci.utils.collections.OrderedSet incl. the MutableSet/Set mixins: after every
    operation history the iteration order is the timestamp order of Spec/OrderedSetSpec.v (a function of
    the history alone), no duplicates, membership refines the mathematical set.  Checked against the real
    class on random histories (small ints and objects with adversarial __hash__) on every run.
  * Model/C30Sites.v — assign_colors' pick, callee-saved selection, arm push mask: independent of the
    enumeration order of the builtin sets involved; mem2reg place_phi_nodes as it was: refuted; repaired: proved.
What is a tool, not a proof:
  * the `ast` site inventory (c30_scan.py) against the reviewed table c30_sites.json — a set/dict consuming
    site that is not in the table fails the run (a new unordered iteration was introduced);
  * the real thing as search: fresh interpreters with different PYTHONHASHSEED and different allocation
    histories compile a fixed program set; serialized objects are compared byte for byte.
"""
import json
import os
import random
import subprocess
import sys
import time
import types

from vlib import OkV, REPO, VERIF, PY, ensure_repo_on_path, coq_str

sys.path.insert(0, os.path.dirname(os.path.abspath(__file__)))
import c30_scan      # noqa: E402
import c30_programs  # noqa: E402
import c30_state_scan  # noqa: E402

LEVEL = 'other'
RULE = ('OrderedSet correspondence: random operation histories (add/discard/remove/pop/clear/|=/-=/&=, length <= 14, '
        'elements 0..7 as ints and as objects whose __hash__ is constant, colliding, negative or random) and binary '
        'operator cases (| & - ^ == [] reversed len in, argument given as list, OrderedSet or builtin set); '
        'non-trivial = distinct history with at least one removing operation and a non-empty final set, or a binary '
        'operator case with two non-empty operands.  Search: every (program, target, opt) job counts once per '
        'compared pair of interpreter configurations (object files for x86_64/arm/riscv, wasm bytes, python text, '
        'IR text at -O0/1/2, BURG generator text).')
EXPLANATION = ('Partial: Coq theorems cover the OrderedSet class (incl. the __reversed__ defect: refuted as implemented, '
               'proved for the repair) and the set-consuming sites assign_colors, callee-saved selection, arm push mask, '
               'mem2reg place_phi_nodes, burg check_tree_defined and the relooper\'s follows_loop under an arbitrary '
               'enumeration order of the builtin sets. CPython hashing, id(), the allocator and every other pass are NOT '
               'modelled: they are exercised by compiling a fixed program set in fresh interpreters under several '
               'PYTHONHASHSEED values and allocation histories and comparing, byte for byte, the serialized objects '
               '(x86_64, arm, riscv; stm8/mcs6500 only fail consistently), the wasm module bytes (ir_to_wasm), the '
               'generated python text (ir_to_python, minus its wall-clock header line), the IR text after '
               'api.optimize at levels 0/1/2 and the text emitted by the BURG generator; the ast site inventory '
               '(all classified) against a reviewed table detects newly introduced unordered iterations. Process history is a '
               'second search dimension on every run: a worker builds every hand-written sample for arm, arm:thumb, x86_64, '
               'riscv, xtensa, msp430 (plus wasm/python/IR text) twice in one process, the second time in the opposite order, '
               'and after an unrelated module (perturbed workers); a second ast inventory (c30_state_scan.py, table '
               'c30_state_sites.json) lists class-level/module-level mutable state written inside functions, a new site fails.')
TRUSTED = ['hand models coq/Model/OrderedSet.v and coq/Model/C30Sites.v (OrderedSet checked against the class per run; '
           'place_phi_nodes checked against the real method with hash-controlled fake blocks per run; assign_color, '
           'callee_saved, reg_list_to_mask, check_tree_defined (burg), follows_loop (relooper) by reading)',
           'CPython Lib/_collections_abc.py mixin semantics (pop takes the first element of iteration, |= adds in '
           'iteration order, & follows the right operand)',
           'tools/props/c30_scan.py name-based type inference (over-inclusive, not complete: a set passed through an '
           'untyped parameter or returned by an unscanned function is not seen)',
           'tools/props/c30_sites.json: the classifications marked order_irrelevant without a theorem are review, not proof']
ASSUMPTIONS = ['elements of an OrderedSet have __eq__/__hash__ consistent with an equivalence relation',
               'the program set is fixed (seeded generator with a constant seed); seeds and allocation perturbations '
               'are finitely many: absence of a difference is evidence, not proof']

TARGETS_QUICK = ['x86_64', 'arm', 'riscv']
TARGETS_THOROUGH = ['x86_64', 'arm', 'riscv', 'avr', 'msp430', 'xtensa', 'or1k', 'microblaze', 'm68k', 'mips', 'stm8']


# ------------------------------------------------------------------------------ site inventory
def regen(ctx):
    sites, nfiles, _ = c30_scan.scan(REPO)
    rows = ['  (%s, %d, %s, %s)' % (coq_str(s['file']), s['line'], coq_str(s['function']), coq_str(s['kind']))
            for s in sites]
    text = ('(* GENERATED by tools/props/c30.py from the current source: every place in the anchored modules where a\n'
            '   builtin set / frozenset / dict is enumerated (tools/props/c30_scan.py).  (file, line, function, kind) *)\n'
            'From Coq Require Import String List ZArith.\nImport ListNotations.\nOpen Scope Z_scope.\n'
            'Definition c30_sites : list (string * Z * string * string) := [\n%s\n].\n'
            'Definition c30_site_count : nat := length c30_sites.\n' % ';\n'.join(rows))
    st_sites, st_files = c30_state_scan.scan(REPO)
    rows2 = ['  (%s, %d, %s, %s)' % (coq_str(s['file']), s['line'], coq_str(s['function']), coq_str(s['kind']))
             for s in st_sites]
    text += ('(* class-level / module-level mutable state written inside functions (tools/props/c30_state_scan.py) *)\n'
             'Definition c30_state_sites : list (string * Z * string * string) := [\n%s\n].\n' % ';\n'.join(rows2))
    ctx.write_gen('C30_sites', text)
    ctx.cov['stages']['site_scan'] = {'files': nfiles, 'sites': len(sites)}
    ctx.cov['stages']['state_scan'] = {'files': st_files, 'sites': len(st_sites)}
    state_table_check(ctx, st_sites)
    return sites


def state_table_check(ctx, st_sites):
    """process-lifetime mutable state: every scanned site needs a reviewed entry in c30_state_sites.json"""
    entries = json.load(open(os.path.join(VERIF, 'tools', 'props', 'c30_state_sites.json')))['sites']
    new = [s for s in st_sites if s['key'] not in entries]
    rel = [s for s in st_sites if entries.get(s['key'], {}).get('class') == 'history_relevant']
    ctx.cov['stages']['state_table'] = {'reviewed': len(st_sites) - len(new), 'new': len(new), 'history_relevant': len(rel)}
    for s in new[:10]:
        ctx.log('NEW class/module-level mutable state written during compilation (not in c30_state_sites.json): '
                '%s:%d %s [%s] %s' % (s['file'], s['line'], s['function'], s['kind'], s['target']))
    if new:
        ctx.failed_stages.append(('state', '%d new site(s) writing class-level/module-level state (output may depend on the '
                                  'process history), first: %s:%d %s [%s] %s' % (
                                      len(new), new[0]['file'], new[0]['line'], new[0]['function'], new[0]['kind'],
                                      new[0]['target'])))


def load_table():
    p = os.path.join(VERIF, 'tools', 'props', 'c30_sites.json')
    return json.load(open(p))


def site_table_check(ctx, sites):
    table = load_table()
    entries = table['sites']
    stats = {'order_irrelevant': 0, 'order_relevant': 0, 'unreviewed': 0, 'new': 0}
    new, relevant = [], []
    for s in sites:
        e = entries.get(s['key'])
        if e is None:
            stats['new'] += 1
            new.append(s)
            continue
        stats[e['class']] = stats.get(e['class'], 0) + 1
        if e['class'] == 'order_relevant':
            relevant.append(s)
    # manual sites (not reachable by the scanner's inference): their source anchor must still be there
    import re
    for m in table.get('manual', []):
        p = os.path.join(REPO, m['file'])
        ok = os.path.exists(p) and re.search(m['anchor_regex'], open(p, encoding='utf-8').read()) is not None
        if not ok:
            ctx.failed_stages.append(('sites', 'manual site anchor vanished: %s %s (model %s is stale)' % (
                m['file'], m['anchor_regex'], m.get('theorem', '?'))))
            ctx.log('manual site anchor vanished:', m['file'], m['anchor_regex'])
    # "dead code" classifications: the function must still have no caller in the package
    needs = sorted({e['requires_no_caller'] for s in sites for e in [entries.get(s['key'])]
                    if e and e.get('requires_no_caller')})
    for fn in needs:
        pat = re.compile(r'(?<![A-Za-z0-9_])%s\(' % re.escape(fn))
        callers = []
        for root, _, files in os.walk(os.path.join(REPO, 'ppci')):
            for f in files:
                if f.endswith('.py'):
                    for i, line in enumerate(open(os.path.join(root, f), encoding='utf-8'), 1):
                        if pat.search(line) and not line.lstrip().startswith(('def ', '#')):
                            callers.append('%s:%d' % (os.path.relpath(os.path.join(root, f), REPO), i))
        if callers:
            ctx.failed_stages.append(('sites', '%s classified as dead code but is called at %s' % (fn, callers[:3])))
            ctx.log('dead-code classification broken:', fn, 'called at', callers[:3])
    stale = sorted(k for k in entries if k not in {s['key'] for s in sites})
    stats['stale_table_entries'] = len(stale)
    ctx.cov['stages']['site_table'] = stats
    ctx.cov['stages']['order_relevant_sites'] = ['%s:%d %s' % (s['file'], s['line'], s['function']) for s in relevant]
    for s in new[:12]:
        ctx.log('NEW unordered-container site (not in tools/props/c30_sites.json): %s:%d %s [%s] %s' % (
            s['file'], s['line'], s['function'], s['kind'], s['expr']))
    if new:
        ctx.failed_stages.append(('sites', '%d new set/dict enumeration site(s) without a reviewed classification, first: '
                                  '%s:%d %s [%s] %s' % (len(new), new[0]['file'], new[0]['line'], new[0]['function'],
                                                        new[0]['kind'], new[0]['expr'])))
    for s in relevant[:12]:
        ctx.log('order-relevant site present (finding): %s:%d %s [%s] %s' % (
            s['file'], s['line'], s['function'], s['kind'], s['expr']))
    return new, relevant


# ------------------------------------------------------------------------------ OrderedSet correspondence
class _El:
    """element with an adversarial hash; equality by key"""
    __slots__ = ('k', 'h')

    def __init__(self, k, h):
        self.k, self.h = k, h

    def __hash__(self):
        return self.h

    def __eq__(self, other):
        return isinstance(other, _El) and other.k == self.k

    def __repr__(self):
        return 'E%d' % self.k


def _elements(mode, rng):
    if mode == 'int':
        return list(range(8)), (lambda e: e)
    hs = {'const': [0] * 8, 'collide': [i % 2 for i in range(8)], 'negative': [-(i * 8) - 2 for i in range(8)],
          'random': [rng.randrange(-2 ** 40, 2 ** 40) for _ in range(8)],
          'reverse': [7 - i for i in range(8)]}[mode]
    els = [_El(i, hs[i]) for i in range(8)]
    return els, (lambda e: e.k)


def _zl(l):
    return '[%s]' % '; '.join(str(x) for x in l)


def _gen_history(rng):
    n = rng.randrange(1, 15)
    ops = []
    for _ in range(n):
        k = rng.random()
        x = rng.randrange(8)
        if k < 0.34:
            ops.append(('add', x))
        elif k < 0.46:
            ops.append(('discard', x))
        elif k < 0.55:
            ops.append(('remove', x))
        elif k < 0.67:
            ops.append(('pop',))
        elif k < 0.70:
            ops.append(('clear',))
        elif k < 0.82:
            ops.append(('ior', [rng.randrange(8) for _ in range(rng.randrange(0, 5))]))
        elif k < 0.91:
            ops.append(('isub', [rng.randrange(8) for _ in range(rng.randrange(0, 4))]))
        else:
            ops.append(('iand', [rng.randrange(8) for _ in range(rng.randrange(0, 6))]))
    return ops


def _history_term(ops):
    t = []
    for o in ops:
        if o[0] == 'add':
            t.append('OAdd %d' % o[1])
        elif o[0] == 'discard':
            t.append('ODiscard %d' % o[1])
        elif o[0] == 'remove':
            t.append('ORemove %d' % o[1])
        elif o[0] == 'pop':
            t.append('OPop')
        elif o[0] == 'clear':
            t.append('OClear')
        elif o[0] == 'ior':
            t.append('OIor %s' % _zl(o[1]))
        elif o[0] == 'isub':
            t.append('OIsub %s' % _zl(o[1]))
        else:
            t.append('OIand %s' % _zl(o[1]))
    return '(let r := run [%s] in (fst r, map outcome_z (snd r)))' % '; '.join(t)


def _run_real_history(OrderedSet, ops, els, key):
    s = OrderedSet()
    outs = []
    for o in ops:
        try:
            if o[0] == 'add':
                s.add(els[o[1]])
                outs.append((0, 0))
            elif o[0] == 'discard':
                s.discard(els[o[1]])
                outs.append((0, 0))
            elif o[0] == 'remove':
                s.remove(els[o[1]])
                outs.append((0, 0))
            elif o[0] == 'pop':
                outs.append((1, key(s.pop())))
            elif o[0] == 'clear':
                s.clear()
                outs.append((0, 0))
            elif o[0] == 'ior':
                s |= [els[i] for i in o[1]]
                outs.append((0, 0))
            elif o[0] == 'isub':
                s -= [els[i] for i in o[1]]
                outs.append((0, 0))
            else:
                s &= [els[i] for i in o[1]]
                outs.append((0, 0))
        except KeyError:
            outs.append((2, 0))
    assert len(s) == len(list(s))
    return ([key(e) for e in s], outs)


def orderedset_correspondence(ctx):
    import importlib
    import ppci.utils.collections as coll
    importlib.reload(coll)
    OrderedSet = coll.OrderedSet
    rng = ctx.rng
    cases, recs = [], []
    nontriv = 0
    seen = set()
    modes = ['int', 'const', 'collide', 'negative', 'random', 'reverse']
    nh = 420 if ctx.quick() else 3000
    for i in range(nh):
        mode = modes[i % len(modes)]
        els, key = _elements(mode, rng)
        ops = _gen_history(rng)
        try:
            val = _run_real_history(OrderedSet, ops, els, key)
        except Exception as ex:   # noqa: BLE001
            ctx.violation({'fn': 'OrderedSet', 'what': 'unexpected exception %r' % ex, 'args': repr(ops), 'mode': mode})
            continue
        cases.append((_history_term(ops), val))
        recs.append(('history/' + mode, ops, val))
        k = repr(ops)
        if k not in seen and val[0] and any(o[0] in ('discard', 'remove', 'pop', 'isub', 'iand', 'clear') for o in ops):
            nontriv += 1
        seen.add(k)
    # __reversed__: as it was (first element only, c30_orderedset_reversed_refuted) or repaired
    probe = list(reversed(OrderedSet([3, 1, 2])))
    rev_model = 'os_reversed' if probe == [3] else 'os_reversed_fixed'
    ctx.cov['stages']['orderedset_reversed'] = {'probe': probe, 'model': rev_model}
    if probe != [2, 1, 3]:
        ctx.violation({'fn': 'OrderedSet.__reversed__', 'key': 'orderedset-reversed', 'args': [3, 1, 2],
                       'expected': [2, 1, 3], 'actual': probe,
                       'how_to_replay': 'list(reversed(ppci.utils.collections.OrderedSet([3, 1, 2])))'})
    # binary operators and accessors
    nb = 360 if ctx.quick() else 2000
    opdist = {}
    for i in range(nb):
        mode = modes[i % len(modes)]
        els, key = _elements(mode, rng)
        a = [rng.randrange(8) for _ in range(rng.randrange(0, 7))]
        b = [rng.randrange(8) for _ in range(rng.randrange(0, 7))]
        s = OrderedSet(els[x] for x in a)
        sl = [key(e) for e in s]
        kind = rng.choice(['list', 'oset', 'set'])
        if kind == 'list':
            other = [els[x] for x in b]
            ol = list(b)
        elif kind == 'oset':
            other = OrderedSet(els[x] for x in b)
            ol = [key(e) for e in other]
        else:
            other = set(els[x] for x in b)
            ol = [key(e) for e in other]          # the enumeration CPython uses right now
        opn = rng.choice(['or', 'and', 'sub', 'xor', 'eq', 'getitem', 'reversed', 'len', 'contains', 'init'])
        opdist[opn] = opdist.get(opn, 0) + 1
        if opn in ('sub', 'xor', 'eq') and kind == 'list' and opn != 'sub':
            # ^ and == need a Set on the right for the modelled path; a list is first wrapped by
            # _from_iterable (xor) / compared as a Set (eq is only defined for Sets)
            other = OrderedSet(other)
            ol = [key(e) for e in other]
        if opn == 'or':
            val, term = [key(e) for e in (s | other)], 'os_or %s %s' % (_zl(sl), _zl(ol))
        elif opn == 'and':
            val, term = [key(e) for e in (s & other)], 'os_and %s %s' % (_zl(sl), _zl(ol))
        elif opn == 'sub':
            val, term = [key(e) for e in (s - other)], 'os_sub %s %s' % (_zl(sl), _zl(ol))
        elif opn == 'xor':
            val, term = [key(e) for e in (s ^ other)], 'os_xor %s %s' % (_zl(sl), _zl(ol))
        elif opn == 'eq':
            val, term = bool(s == other), 'os_eq %s %s' % (_zl(sl), _zl(ol))
        elif opn == 'getitem':
            idx = rng.randrange(-2, 8)
            r = s[idx]
            val, term = (None if r is None else key(r)), 'os_getitem %s (%d)' % (_zl(sl), idx)
        elif opn == 'reversed':
            val, term = [key(e) for e in reversed(s)], '%s %s' % (rev_model, _zl(sl))
        elif opn == 'len':
            val, term = len(s), 'os_len %s' % _zl(sl)
        elif opn == 'contains':
            x = rng.randrange(8)
            val, term = (els[x] in s), 'os_contains %s %d' % (_zl(sl), x)
        else:
            val, term = sl, 'os_init %s' % _zl(a)
        cases.append((term, val))
        recs.append((opn + '/' + mode + '/' + kind, (a, b), val))
        if a and b:
            nontriv += 1
    ctx.cov['distinct_nontrivial'] += nontriv
    ctx.cov['stages']['orderedset_correspondence'] = {'histories': nh, 'operator_cases': nb, 'operators': opdist,
                                                      'element_modes': modes}
    for r in recs[:: max(1, len(recs) // 6)]:
        ctx.note_sample({'case': r[0], 'input': repr(r[1])[:160], 'impl': repr(r[2])[:160]})
    bad = ctx.run_cases('orderedset', ['Model.OrderedSet'], cases)
    if bad:
        for i in bad[:5]:
            ctx.log('OrderedSet model/implementation disagree:', recs[i][0], recs[i][1], 'impl=', recs[i][2])
        ctx.failed_stages.append(('correspondence', 'Model.OrderedSet disagrees with ppci.utils.collections.OrderedSet on '
                                  '%d cases, first: %s %r' % (len(bad), recs[bad[0]][0], recs[bad[0]][1])))
    # order-from-history oracle, independent of the Coq model: replay the history with a timestamp dict
    n_or = 0
    for name, ops, val in recs:
        if not name.startswith('history/'):
            continue
        n_or += 1
        stamp, clock = {}, 0
        for o in ops:
            if o[0] == 'add' and o[1] not in stamp:
                stamp[o[1]] = clock
                clock += 1
            elif o[0] in ('discard', 'remove'):
                stamp.pop(o[1], None)
            elif o[0] == 'pop' and stamp:
                del stamp[min(stamp, key=stamp.get)]
            elif o[0] == 'clear':
                stamp = {}
            elif o[0] == 'ior':
                for x in o[1]:
                    if x not in stamp:
                        stamp[x] = clock
                        clock += 1
            elif o[0] == 'isub':
                for x in o[1]:
                    stamp.pop(x, None)
            elif o[0] == 'iand':
                stamp = {k: v for k, v in stamp.items() if k in o[1]}
        exp = sorted(stamp, key=stamp.get)
        if exp != val[0]:
            ctx.violation({'fn': 'OrderedSet', 'key': 'orderedset-order', 'args': repr(ops), 'mode': name,
                           'expected': exp, 'actual': val[0],
                           'how_to_replay': 'apply the operations to ppci.utils.collections.OrderedSet() and list() it'})
    ctx.cov['evaluations'] += n_or
    ctx.cov['stages']['orderedset_order_oracle'] = n_or


# ------------------------------------------------------------------------------ place_phi_nodes with controlled hashes
class _FB:
    """fake ir.Block: identity equality, the hash (and so the set enumeration order) is chosen by the test"""

    def __init__(self, i, h):
        self.i, self.h, self.ins = i, h, []

    def __hash__(self):
        return self.h

    def __eq__(self, other):
        return self is other

    def insert_instruction(self, ins, before_instruction=None):
        self.ins.insert(0, ins)

    def __repr__(self):
        return 'B%d' % self.i


def _place_phi_real(df, defining, hashes):
    from ppci import ir
    from ppci.opt.mem2reg import Mem2RegPromotor
    n = len(df)
    blocks = [_FB(i, hashes[i]) for i in range(n)]
    cfg_info = types.SimpleNamespace(
        df={blocks[i]: {blocks[j] for j in df[i]} for i in range(n)},
        function=types.SimpleNamespace(blocks=blocks))
    stores = [types.SimpleNamespace(block=blocks[i]) for i in defining]
    phis = Mem2RegPromotor.place_phi_nodes(None, stores, ir.i32, 'v', cfg_info)
    where = {}
    for b in blocks:
        for p in b.ins:
            where[id(p)] = b.i
    return [(where[id(p)], int(p.name.rsplit('_', 1)[1])) for p in phis]


def place_phi_check(ctx):
    """run the real Mem2RegPromotor.place_phi_nodes on small frontier relations under several hash assignments
    of the blocks.  Results differ -> the refuted theorem's witness is live in the implementation (violation with
    replay).  Results agree -> they must equal the model of the repaired function (correspondence)."""
    import importlib
    import ppci.opt.mem2reg as m2r
    importlib.reload(m2r)
    rng = random.Random(3030)
    graphs = [([[], [2, 3], [], []], [1])]        # the witness of c30_place_phi_nodes_refuted (block 0 unused)
    for _ in range(40 if ctx.quick() else 200):
        n = rng.randrange(3, 7)
        df = [sorted(rng.sample(range(n), rng.randrange(0, min(n, 4)))) for _ in range(n)]
        defining = sorted(rng.sample(range(n), rng.randrange(1, 3)))
        graphs.append((df, defining))
    cases, recs = [], []
    dependent = None
    n_eval = 0
    for df, defining in graphs:
        n = len(df)
        perms = [list(range(n)), list(range(n - 1, -1, -1))] + [rng.sample(range(n), n) for _ in range(4)]
        results = []
        for hs in perms:
            try:
                results.append(_place_phi_real(df, defining, hs))
            except Exception as ex:   # noqa: BLE001
                ctx.failed_stages.append(('correspondence', 'place_phi_nodes harness failed: %r' % ex))
                ctx.log('place_phi_nodes harness failed: %r' % ex)
                return
            n_eval += 1
        if any(r != results[0] for r in results):
            if dependent is None:
                k = next(i for i, r in enumerate(results) if r != results[0])
                dependent = {'fn': 'place_phi_nodes', 'key': 'place_phi_nodes-order', 'df': df, 'defining': defining,
                             'block_hashes': [perms[0], perms[k]], 'results': [results[0], results[k]],
                             'what': 'Mem2RegPromotor.place_phi_nodes: the block that receives phi_<name>_<idx> depends on the '
                                     'enumeration order of sets of id-hashed blocks (witness of c30_place_phi_nodes_refuted)',
                             'how_to_replay': 'tools/props/c30.py:_place_phi_real(df, defining, hashes) for the two hash lists'}
        else:
            dfterm = '(fun b => nth (Z.to_nat b) [%s] [])' % '; '.join(_zl(x) for x in df)
            cases.append(('place_phi_nodes_fixed (fun s => s) %s (fun b => b) 100 %s' % (dfterm, _zl(defining)),
                          OkV([tuple(x) for x in results[0]])))
            recs.append((df, defining, results[0]))
    ctx.cov['evaluations'] += n_eval
    ctx.cov['stages']['place_phi_nodes'] = {'graphs': len(graphs), 'hash_assignments_each': 6,
                                            'order_dependent': dependent is not None}
    if dependent is not None:
        ctx.violation(dependent)
        return
    bad = ctx.run_cases('placephi', ['Model.OrderedSet', 'Model.C30Sites'], cases)
    if bad:
        ctx.log('repaired place_phi_nodes model disagrees with the implementation on', recs[bad[0]])
        ctx.failed_stages.append(('correspondence', 'Model.C30Sites.place_phi_nodes_fixed disagrees with '
                                  'Mem2RegPromotor.place_phi_nodes on %d graphs, first: %r' % (len(bad), recs[bad[0]])))


# ------------------------------------------------------------------------------ the real thing as search
WORKER = os.path.join(os.path.dirname(os.path.abspath(__file__)), 'c30_worker.py')


def job_list(ctx, thorough):
    rng = random.Random(30)             # the program set is fixed
    progs = c30_programs.program_set(rng, thorough)
    targets = TARGETS_THOROUGH if thorough else TARGETS_QUICK
    jobs, sources = [], {}
    for name, src in progs:
        sources[name] = src
        for march in targets:
            if thorough:
                opts = [0, 2]
            else:
                opts = [0, 2] if name in ('pressure', 'gen0') else [2]
            for opt in opts:
                jobs.append({'id': '%s/%s/O%d' % (name, march, opt), 'lang': 'c', 'src': src, 'march': march, 'opt': opt})
    jobs.append({'id': 'loops-debug/x86_64/O1', 'lang': 'c', 'src': c30_programs.LOOPS, 'march': 'x86_64', 'opt': 1,
                 'debug': True})
    sources['loops-debug'] = c30_programs.LOOPS
    # other outputs of the pipeline: wasm binary (relooper), generated python text, optimized IR text per level
    hand = [(n, s) for n, s in progs if not n.startswith('gen')] + [p for p in progs if p[0] == 'gen0']
    for name, src in hand:
        for opt in [0, 2]:
            jobs.append({'id': '%s/wasm/O%d' % (name, opt), 'lang': 'c', 'backend': 'wasm', 'src': src,
                         'march': 'x86_64', 'opt': opt})
            jobs.append({'id': '%s/python/O%d' % (name, opt), 'lang': 'c', 'backend': 'python', 'src': src,
                         'march': 'x86_64', 'opt': opt})
        for opt in [0, 1, 2]:
            jobs.append({'id': '%s/irtext/O%d' % (name, opt), 'lang': 'c', 'backend': 'irtext', 'src': src,
                         'march': 'arm' if name == 'control' else 'x86_64', 'opt': opt})
    # back ends with formerly unreviewed set sites; they do not compile the samples today (the recorded
    # exception type must at least be the same), a working back end would be compared like the others
    if not thorough:
        for name, src in hand[:2]:
            for march in ('stm8', 'mcs6500'):
                jobs.append({'id': '%s/%s/O0' % (name, march), 'lang': 'c', 'src': src, 'march': march, 'opt': 0})
    brg = os.path.join(REPO, 'test', 'data', 'sample4.brg')
    if os.path.exists(brg):
        jobs.append({'id': 'burg/sample4.brg/text', 'lang': 'brg', 'backend': 'burg', 'src': brg, 'march': '-', 'opt': 0})
        sources['burg'] = 'test/data/sample4.brg'
    for name, paths in c30_programs.c3_sets(REPO).items():
        if not thorough and name != 'c3-snake':
            continue
        for opt in ([0, 2] if thorough else [2]):
            jobs.append({'id': '%s/x86_64/O%d' % (name, opt), 'lang': 'c3', 'src': paths, 'march': 'x86_64', 'opt': opt})
    irjobs = [{'id': 'mem2reg', 'src': c30_programs.MEM2REG, 'march': 'x86_64'},
              {'id': 'control', 'src': c30_programs.CONTROL, 'march': 'arm'}]
    return jobs, irjobs, sources


def run_worker_async(job, seed, outpath=None):
    env = dict(os.environ)
    env['PYTHONHASHSEED'] = str(seed)
    env['PYTHONPATH'] = REPO
    env['PYTHONDONTWRITEBYTECODE'] = '1'
    p = subprocess.Popen([PY, WORKER, REPO], stdin=subprocess.PIPE,
                         stdout=open(outpath, 'w') if outpath else subprocess.PIPE,
                         stderr=subprocess.DEVNULL if outpath else subprocess.PIPE, text=True, env=env)
    p.stdin.write(json.dumps(job))
    p.stdin.close()
    return p


def _norm(v):
    if v is None:
        return None
    if 'error' in v:
        return ('error', v['error'].split(':')[0])       # messages may contain object addresses
    return ('sha', v['sha'], v['n'])


def search_start(ctx):
    """start the worker interpreters (they run while Coq builds); (PYTHONHASHSEED, perturbation) configurations"""
    thorough = not ctx.quick()
    jobs, irjobs, sources = job_list(ctx, thorough)
    if thorough:
        configs = [(0, 0), (1, 0), (2, 0), (3, 0), (4, 7), (5, 1000)]
    else:
        configs = [(0, 0), (1, 0), (0, 5)]
    t0 = time.time()
    procs = []
    import tempfile
    priv = tempfile.mkdtemp(prefix='c30-search-')      # private: concurrent ./check runs wipe .work/C30
    for c in configs:
        outp = os.path.join(priv, 'search_%d_%d.json' % c)
        procs.append((c, run_worker_async({'perturb': c[1], 'jobs': jobs, 'ir': irjobs}, c[0], outp), outp))
    outp = os.path.join(priv, 'search_hist.json')
    procs.append((('hist', 0), run_worker_async({'perturb': 0, 'jobs': history_jobs(jobs, sources), 'ir': [],
                                                 'second_pass': True}, 0, outp), outp))
    return (jobs, irjobs, sources, configs, t0, procs)


def _mkrec(jid, cfgs, res, sources, what):
    isir = jid.startswith('ir:')
    prog = jid[3:] if isir else jid.split('/')[0]
    parts = jid.split('/')
    march = parts[1] if len(parts) > 1 else None
    kind = {'wasm': ('wasm_bytes', 'wasm module bytes (ir_to_wasm)'),
            'python': ('python_text', 'generated python text (ir_to_python)'),
            'irtext': ('ir_text', 'optimized IR text'),
            'sample4.brg': ('burg_generator_text', 'text emitted by the BURG generator')}.get(
        march, ('ir_text', 'optimized IR text') if isir else ('object_bytes', 'serialized object file'))
    rec = {'fn': kind[0], 'key': kind[0] + '/' + jid, 'job': jid, 'program': prog,
           'march': march, 'opt': parts[2] if len(parts) > 2 else 'O2', 'configs': cfgs, 'results': res,
           'source': sources.get(prog) if not prog.startswith('c3-') else 'C3 sample set ' + prog,
           'what': kind[1] + ' ' + what, 'how_to_replay': './check C30 --replay <this file>'}
    if kind[0] == 'burg_generator_text':
        rec['key'] = 'burg_generator_text'
    return rec


HIST_TARGETS = ['arm', 'arm:thumb', 'x86_64', 'riscv', 'xtensa', 'msp430']


def history_jobs(jobs, sources):
    """process-history dimension: hand-written programs for HIST_TARGETS at -O2 plus their wasm/python/IR-text jobs;
    the worker builds the whole list, then builds it again in the opposite order in the same process"""
    hand = [n for n in sources if n in ('loops', 'pressure', 'calls', 'structs', 'control', 'mem2reg', 'literals')]
    out = []
    for name in sorted(hand):
        for march in HIST_TARGETS:
            out.append({'id': '%s/%s/O2' % (name, march), 'lang': 'c', 'src': sources[name], 'march': march, 'opt': 2})
    out += [j for j in jobs if j.get('backend') in ('wasm', 'python', 'irtext') and j['id'].split('/')[0] in hand
            and j['opt'] == 2]
    return out


def search(ctx, started=None):
    jobs, irjobs, sources, configs, t0, procs = started or search_start(ctx)
    results = {}
    for c, p, outp in procs:
        try:
            p.wait(timeout=3000)
            results[c] = json.load(open(outp))
        except Exception as ex:   # noqa: BLE001
            err = ''
            ctx.log('search worker failed for seed/perturb', c, repr(ex), err)
            ctx.failed_stages.append(('search', 'worker for PYTHONHASHSEED=%s perturb=%s did not produce a result: %s' % (
                c[0], c[1], err[-300:])))
    if procs:
        import shutil
        shutil.rmtree(os.path.dirname(procs[0][2]), ignore_errors=True)
    base_c = configs[0]
    base = results.get(base_c)
    ndiff, ncmp, nerr = 0, 0, 0
    if base is not None:
        nerr = sum(1 for v in base.values() if 'error' in v)
        for c in configs[1:]:
            r = results.get(c)
            if r is None:
                continue
            for jid in sorted(base):
                ncmp += 1
                if _norm(base[jid]) != _norm(r.get(jid)):
                    ndiff += 1
                    rec = _mkrec(jid, [{'PYTHONHASHSEED': base_c[0], 'perturb': base_c[1]},
                                       {'PYTHONHASHSEED': c[0], 'perturb': c[1]}], [base[jid], r.get(jid)], sources,
                                 'differs between two interpreter configurations')
                    rec['tier'] = ctx.tier
                    ctx.violation(rec)
    # process history: second build in the same process / opposite order (#2) and fresh-process base
    hist = results.get(('hist', 0))
    nh, nhd = 0, 0
    if hist is not None:
        for jid in sorted(k for k in hist if not k.endswith('#2')):
            pairs = [(hist.get(jid + '#2'), [{'PYTHONHASHSEED': 0, 'perturb': 0, 'history': 'first build in a fresh process (after the jobs listed before it)'},
                                            {'PYTHONHASHSEED': 0, 'perturb': 0, 'history': 'second build of the same input in the same process, inputs in the opposite order'}],
                      'differs between the first and the second build in one process')]
            if base is not None and jid in base:
                pairs.append((base[jid], [{'PYTHONHASHSEED': 0, 'perturb': 0, 'history': 'history worker, first pass'},
                                          {'PYTHONHASHSEED': 0, 'perturb': 0, 'history': 'search worker (other inputs compiled before)'}],
                              'differs between two processes that compiled different inputs before'))
            for other, cfgs, what in pairs:
                nh += 1
                if _norm(hist[jid]) != _norm(other):
                    nhd += 1
                    rec = _mkrec(jid, cfgs, [hist[jid], other], sources, what)
                    rec['history'] = True
                    rec['tier'] = ctx.tier
                    ctx.violation(rec)
    ncmp += nh
    ndiff += nhd
    ctx.cov['stages']['search_history'] = {'jobs': len(hist or {}) // 2, 'comparisons': nh, 'differences': nhd,
                                           'targets': HIST_TARGETS}
    ctx.cov['evaluations'] += ncmp
    ctx.cov['distinct_nontrivial'] += len(jobs) - nerr
    ctx.cov['stages']['search'] = {'jobs': len(jobs), 'ir_jobs': len(irjobs), 'configs': [list(c) for c in configs],
                                   'comparisons': ncmp, 'differences': ndiff, 'jobs_ending_in_exception': nerr,
                                   'wall_s': round(time.time() - t0, 1)}
    if base is not None:
        for jid in list(sorted(base))[:: max(1, len(base) // 5)]:
            ctx.note_sample({'job': jid, 'result': base[jid].get('sha', base[jid].get('error', ''))[:24]})


def replay(rec):
    """re-run one differing job under its two configurations"""
    if rec.get('fn') not in ('object_bytes', 'ir_text', 'wasm_bytes', 'python_text', 'burg_generator_text'):
        print(json.dumps(rec, indent=1)[:4000])
        return 0
    ensure_repo_on_path()
    ctx = types.SimpleNamespace(quick=lambda: False)
    jobs, irjobs, _ = job_list(ctx, True)
    jid = rec['job']
    if rec.get('history'):
        _, _, sources = job_list(ctx, False)
        qjobs, _, _ = job_list(ctx, False)
        hj = history_jobs(qjobs, sources)
        p = run_worker_async({'perturb': 0, 'jobs': hj, 'ir': [], 'second_pass': True}, 0)
        out = json.loads(p.stdout.read())
        p.wait()
        same = _norm(out.get(jid)) == _norm(out.get(jid + '#2'))
        print('job %s, first vs second build in one process (history worker): %s' % (jid, 'IDENTICAL' if same else 'DIFFERENT'))
        print(out.get(jid), out.get(jid + '#2'))
        return 0 if same else 1
    # the whole job list of the tier is re-run (the result may depend on what was compiled before in the process)
    jobs, irjobs, _ = job_list(ctx, rec.get('tier') == 'thorough')
    job = {'jobs': jobs, 'ir': irjobs, 'dump': jid}
    outs = []
    for c in rec['configs']:
        p = run_worker_async(dict(job, perturb=c['perturb']), c['PYTHONHASHSEED'])
        outs.append(json.loads(p.stdout.read()).get(jid))
        p.wait()
    same = _norm(outs[0]) == _norm(outs[1])
    print('job %s under %s: %s' % (jid, rec['configs'], 'IDENTICAL' if same else 'DIFFERENT'))
    if not same and outs[0] and outs[1] and 'text' in outs[0] and 'text' in outs[1]:
        import difflib
        d = list(difflib.unified_diff(outs[0]['text'].splitlines(), outs[1]['text'].splitlines(), lineterm='', n=0))
        print('\n'.join(d[:40]))
    return 0 if same else 1


# ------------------------------------------------------------------------------ driver entry
def run(ctx):
    ensure_repo_on_path()
    tm = {}
    t = time.time()
    sites = regen(ctx)
    tm['scan'] = round(time.time() - t, 1)
    started = search_start(ctx)          # the worker interpreters run in the background while Coq works
    t = time.time()
    ok, _ = ctx.build(['Proofs/C30_orderedset.vo', 'Proofs/C30_sites.vo', 'Gen/C30_sites.vo', 'Lib/Val.vo'])
    tm['build_incl_lock_wait'] = round(time.time() - t, 1)
    t = time.time()
    if ok:
        ctx.check_props('Props/C30.v')
    tm['props'] = round(time.time() - t, 1)
    site_table_check(ctx, sites)
    if ok:
        t = time.time()
        orderedset_correspondence(ctx)
        tm['orderedset_correspondence'] = round(time.time() - t, 1)
        t = time.time()
        place_phi_check(ctx)
        tm['place_phi'] = round(time.time() - t, 1)
    t = time.time()
    search(ctx, started)
    tm['search_wait'] = round(time.time() - t, 1)
    ctx.cov['stages']['timing_s'] = tm
    ctx.cov['exhaustive'] = False


MANIFEST = {
    'text': 'partial: Coq theorems that ppci.utils.collections.OrderedSet enumerates, after any history of add/discard/remove/'
            'pop/clear/|=/-=/&=, exactly the insertion-timestamp order (a function of the history, never of hashes), without '
            'duplicates, refining the mathematical set (its __reversed__ is refuted as implemented and proved for the repair); '
            'that OrderedSet - set, the register pick of assign_colors, the callee-saved selection of gen_prologue, the arm push '
            'mask, burg\'s rule check and the relooper\'s follows_loop do not depend on the enumeration order of the builtin sets '
            'involved; that mem2reg place_phi_nodes did (refuted, witness replayed on the real method) and the repaired version '
            'does not. Everything else is search: a fixed program set compiled in fresh interpreters under several '
            'PYTHONHASHSEED values and allocation histories with byte comparison of serialized objects, wasm bytes, generated '
            'python text, optimized IR text per level and BURG generator text, plus an ast inventory of set/dict enumeration '
            'sites (all classified) checked against a reviewed table; the same outputs are also compared between the first and a '
            'second build in one process (inputs in opposite order) and after unrelated compilations, and an inventory of '
            'class/module-level state written during compilation is checked against a second reviewed table.',
    'note': 'trusted: Coq kernel; hand models (OrderedSet cross-checked per run on ~800 random cases incl. adversarial __hash__; '
            'place_phi_nodes cross-checked with hash-controlled fake blocks; burg check / follows_loop / assign_color / '
            'callee_saved / mask models by reading); CPython hashing/id()/allocator are not modelled; the site scanner is a '
            'heuristic; classifications without a theorem are review. Open known findings: OrderedSet.__reversed__ and the '
            'BURG generator text order (fix diffs delivered). No axioms.',
    'technique': 'Coq refinement proof of OrderedSet + order-independence lemmas per site + multi-seed differential compilation',
}
