"""c28_bad — invalid-but-plausible C programs for the C28 search: they must be rejected with a CompilerError
(or, for the constructs ppci accepts as extensions, compile), never with an internal exception.

  templates()        fixed prelude + one erroneous (or unusual) declaration / statement / expression
  const_contexts()   cross product of questionable constant expressions x the places C wants a constant
  mutate(rng, src)   token-level mutation of a generated valid program
"""
import re

PRELUDE = '''struct S { int a; char b; unsigned c : 3; int d : 5; long e; char *s; int arr[4]; struct S *next; };
union U { int i; float f; char c[4]; };
enum E { E0, E1 = 5, E2 };
typedef int myint;
typedef struct S S_t;
typedef int (*fp_t)(int);
int gi; unsigned gu; char gc; long gl; float gf; double gd; int *gp; char *gs; void *gv;
int ga[4]; struct S gst; struct S *gsp; union U gun; const int gk = 3; fp_t gfp; int gm[2][3];
int f1(int x);
void f0(void);
int fv(const char *fmt, ...);
struct S fs(void);
'''

FUNC = 'void test(int x, int *p, struct S s, struct S *sp, double d) {\n%s\n}\n'

# ------------------------------------------------------------------ constant expressions in constant contexts
BAD_CE = ['1/0', '1%0', '0/0', '1 << -1', '1 >> -1', '1 << 64', '1 << 1000', '-1', '0', '1.5', '1.0/0', '1.0/0.0',
          '"abc"', '&gi', 'gi', 'gk', 'f1(1)', 'f1', 'sizeof(void)', 'sizeof(struct X)', 'sizeof(f1)', '(int)1.5/0',
          '1 ? 2 : 1/0', '0 && 1/0', '1 || 1/0', '0 ? 1/0 : 2', 'E1/E0', '(char)300', '-(-2147483647-1)',
          '2147483647 + 1', '(1, 2)', 'x', '(int)&gi', '(long)&ga[1]', '(int)gf', '1 ? gi : 2', '*gp', 'ga[1]',
          'gst.a', '-E1', '~0u', '1u << 31', '0x7fffffff * 4', '1e3', '(unsigned char)-1', '!1.5', '-1.5', '~1.5',
          '1.5 == 1.5', '1.5 + 1', '1 < 2.5', '(float)1/0', '1ll << 62', '18446744073709551615u',
          '99999999999999999999', "'a'", "'ab'", "''", '-9223372036854775807ll - 1', '+1', '+1.5', '&*gp',
          'sizeof(int[1/0])', 'sizeof(1/0)', '(int)sizeof(int) - 8', '5 % -3', '-5 / 2', '1 / -1',
          '(-2147483647-1) / -1', '(-2147483647-1) % -1', '__LINE__', 'E2 == 6 ? 1 : -1', '1 ? : 2', 'gi ? 1 : 2',
          '(void)0', '(struct S){0}.a', '((int)(char)0x1ff)', '07 + 0x7', '08', '0x', '1 +', ')', '']

CE_CTX = ['int a[@];', 'static int a[@];', 'void g(void) { int a[@]; a[0] = 1; }', 'struct Q { int a[@]; };',
          'void g(int a[@]);', 'typedef int A[@];', 'void g(int x) { switch (x) { case @: break; } }',
          'void g(int x) { switch (x) { case 1 ... @: break; } }', 'void g(int x) { switch (x) { case @ ... 100: break; } }',
          'enum Q { A = @ };', 'enum Q { A = @, B, C }; enum Q q = C;', 'struct Q { int f : @; };',
          'struct Q { unsigned char f : @; }; struct Q q = {1};', 'int v = @;', 'static long v = @;', 'char v = @;',
          'unsigned char v = @;', 'short v = @;', 'unsigned long long v = @;', 'float v = @;', 'double v = @;',
          'int *v = @;', 'char *v = @;', 'void *v = @;', 'enum E v = @;', 'int v[3] = {@};', 'int v[3] = {[@] = 1};',
          'int v[] = {[@] = 1};', 'struct S v = {@};', 'struct S v = {.c = @};', 'struct S v = {.arr = {@}};',
          'union U v = {@};', 'union U v = {.f = @};', 'void g(void) { static int v = @; }',
          'void g(void) { int v[2] = {@}; }', 'void g(void) { struct S v = {.d = @}; }', '_Static_assert(@, "m");',
          'int v = sizeof(int[@]);', 'char v[@] = "abc";', 'int v[2][@];', 'int (*v)[@];', 'fp_t v = @;',
          'int v = (@) + 1;', 'int v = -(@);', 'int v = (char)(@);', 'int v[(@) ? 1 : 2];',
          '#if @\nint v;\n#endif', '#if 0\n#elif @\nint v;\n#endif', '_Alignas(@) int v;',
          'void g(void) { char v[@] = {1}; }', 'void g(int x) { int v = x + (@); }', 'void g(int x) { x = x / (@); }',
          'void g(int x) { x = x % (@); }', 'void g(unsigned x) { x = x << (@); }', 'void g(int x) { x = x >> (@); }']

# ------------------------------------------------------------------ erroneous / unusual top-level declarations
GLOBALS = '''
void v;
void va[3];
void vf(void v);
void vf(void, int);
int x; int x = 1; int x = 2;
int x; long x;
int x; int x(void);
int f1(long x);
int f1(int x) { return x; } int f1(int x) { return x; }
int f1(int x, int x);
int f(int x) { int x; return x; }
int f(a, b) int a; { return a; }
int f(a, b) { return a + b; }
f(void) { return 1; }
x;
static extern int x;
typedef static int T;
typedef int T; typedef long T;
typedef int T; T T;
typedef int T; int T;
typedef int T; void f(void) { int T = 1; T x; }
struct X;  struct X v;
struct X *p; int f(void) { return p->a; }
struct X *p; int f(void) { return sizeof(*p); }
struct X { int a; int a; };
struct X { struct X x; };
struct X { int a; }; struct X { int a; };
struct X { int a; }; union X u;
struct X { int a; }; enum X e;
struct X { }; struct X v;
struct X { int : 3; }; struct X v = {1};
struct X { int a : 33; };
struct X { float a : 3; };
struct X { int a : -1; };
struct X { int *a : 3; };
struct X { int a : 0; };
struct X { void a; };
struct X { int f(void); };
struct X { int a[]; int b; };
struct X { int a; int b[]; }; struct X v = {1, {2, 3}};
struct X { int b[]; };
struct { int a; } v = {1}; int w = v.b;
struct X { struct { int a; int b; }; int c; }; struct X v = {.a = 1, .c = 2}; int f(void) { return v.b; }
struct X { union { int a; float b; }; }; struct X v = {.b = 1.5};
struct X { struct Y { int a; } y; }; struct Y v;
union X { }; union X v;
union X { int a; } v = {1, 2};
enum X { };
enum X { A, A };
enum X { A }; enum Y { A };
enum X { A }; int A;
enum X { A = 1.5 };
enum X { A = "s" };
enum X { A = 2147483647, B };
enum X { A = 2147483647, B }; int v = B;
enum X { A = 0x7fffffffffffffff, B }; enum X v = B;
enum X { A = -1, B = 4294967295 }; enum X v = B;
enum X { A = 4294967296 }; enum X v = A;
enum X { A = 4294967296 }; long v = A;
enum X v; enum X { A };
enum X; enum X v = 0;
enum X { A = A };
enum X { A, B = A + 1, C = B * 2 }; int v[C];
enum X { A = sizeof(enum X) };
int a[]; int f(void) { return sizeof(a); }
int a[] = {};
int a[0];
int a[2] = {1, 2, 3};
int a[2] = {[2] = 1};
int a[2] = {[-1] = 1};
int a[2] = {[0] = 1, [0] = 2};
int a[2] = {.x = 1};
int a[2] = {{1, 2}};
int a[2][2] = {1, 2, 3, 4, 5};
int a[2][2] = {{1, 2, 3}};
int a[][2] = {{1}, {2}, {3}}; int n = sizeof(a);
int a[][] = {{1}};
int a[2] = 5;
int a[2] = "ab";
char a[2] = "abc";
char a[] = {"abc", "def"};
char a[3] = {'a', "b"};
char *a[] = {"x", "y", 0, 1};
char a[] = L"abc";
int a = {1, 2};
int a = {{1}};
int a = {};
int a = {.x = 1};
int a = {[0] = 1};
int *a = {&gi, &gi};
int *a = &gi + 1;
int *a = &ga[5];
int *a = ga + 1 - 1;
int *a = &gi - &gi;
long a = &ga[2] - &ga[0];
long a = (long)&gi;
char a = (char)&gi;
int a = &gi;
int *a = 1.5;
int *a = gf;
float a = &gi;
float a = "s";
double a = {1.5, 2};
struct S a = 1;
struct S a = {1, 2, 3, 4, 5, "s", {1, 2, 3, 4}, 0, 9};
struct S a = {.zz = 1};
struct S a = {.a = 1, .a = 2};
struct S a = {.arr[1] = 2};
struct S a = {.arr[7] = 2};
struct S a = {.next = &a};
struct S a = {.next = &gst, .s = "x", .arr = {1, 2}};
struct S a = {.s = 1.5};
struct S a = {{1}};
struct S a = {.arr = 1};
struct S a = gst;
struct S a = {gst};
struct S a[2] = {{1}, {.b = 2}, {3}};
struct S a[2] = {[1].a = 1, [0].arr[2] = 5};
struct S a = fs();
union U a = {.zz = 1};
union U a = {1, 2};
union U a = {.c = "abcdefgh"};
union U a = {.c = {1, 2, 3, 4, 5}};
union U a = gun;
fp_t a = f1; fp_t b = &f1; fp_t c = *f1; fp_t d = 0; fp_t e = f0; fp_t g = 5;
int (*a[2])(int) = {f1, f1, f1};
int (*a(void))[3];
int a(void)[3];
int a(void)(void);
int a[3](void);
int (*a)(int, ...) = fv;
int (*a)(void) = f1;
int f(int x, ...); int f(int x) { return x; }
int f(...);
int f(void) { return f1(); }
int f(void) { return f1(1, 2); }
int f(void) { return f0(); }
int f(void) { f0(1); return 1; }
int f(void) { return fv(); }
int f(void) { return fv(1); }
int f(void) { return fv("x", gst, gun, ga, f1, 1.5, gf, gc); }
int f(void) { return undeclared; }
int f(void) { return undeclared(1); }
int f(void) { undeclared = 1; return 0; }
int f(void) { struct Undef u; return 0; }
int f(void) { return sizeof(struct Undef); }
int f(void) { return sizeof(void); }
int f(void) { return sizeof(f1); }
int f(void) { return sizeof(int[0]); }
int f(void) { return sizeof gst.c; }
int f(void) { return sizeof(gst.c); }
int f(void) { return &gst.c != 0; }
int f(void) { return _Alignof(struct S); }
int f(void) { return __builtin_offsetof(struct S, e); }
int f(void) { return __builtin_offsetof(struct S, zz); }
int f(void) { return __builtin_offsetof(struct S, c); }
void f(void) { return 1; }
int f(void) { return; }
int f(void) { }
int f(void) { return gst; }
struct S f(void) { return 1; }
struct S f(void) { return gun; }
int *f(void) { return 1.5; }
int f(void) { return gv; }
void f(void) { return f0(); }
int main(int argc, char **argv) { return argv[argc][0]; }
int f(int n) { int a[n]; return a[0]; }
int f(int n) { int a[n][n]; return sizeof(a); }
int f(int n, int a[n]) { return a[0]; }
int f(int a[static 3]) { return a[0]; }
int f(int a[*]);
int f(int a[const 3]) { return a[0]; }
int f(register int a) { return a; }
int f(void) { register int a = 1; return *&a; }
int f(void) { auto int a = 1; return a; }
inline int f(void) { return 1; }
_Noreturn void f(void) { for (;;) ; }
static int f(void); int g(void) { return f(); }
extern int e = 1;
extern int e; int g(void) { return e; }
int g(void) { extern int e; return e; }
int g(void) { extern int e = 1; return e; }
int g(void) { int h(int); return h(1); }
int g(void) { static int h(int); return 0; }
int g(void) { int h(int) { return 1; } return h(1); }
const int c; void g(void) { c = 1; }
const int c = 1; void g(void) { c++; }
void g(void) { gk = 1; }
void g(const int *q) { *q = 1; }
void g(int *const q) { q = 0; }
void g(const struct S *q) { q->a = 1; }
void g(const struct S q) { q.a = 1; }
void g(const int q[2]) { q[0] = 1; }
const const int cc = 1;
int long long long x;
long long long x;
short long x;
unsigned signed x;
unsigned float x;
long float x;
long double x = 1.0;
long double x = 1.0; int g(void) { return x > 0; }
short double x;
signed x = -1; unsigned y = -1;
char signed x;
int unsigned long x;
_Bool b = 2; int g(void) { return b + 1; }
_Bool b = 0.5;
_Bool b = &gi;
_Complex double z;
__int128 w;
int x = sizeof(long double);
int restrict x;
int *restrict x;
volatile int v; int g(void) { return v + v; }
int x __attribute__((aligned(4)));
int g(void) __attribute__((noreturn));
__attribute__((packed)) struct P { char a; int b; } pp;
struct __attribute__((packed)) P { char a; int b; } pp;
asm("nop");
int g(void) { asm("nop"); return 0; }
int g(void) { asm volatile("mov %0, %1" : "=r"(gi) : "r"(gu)); return 0; }
int g(void) { __asm__("nop"); return 0; }
int g(int x) { return __builtin_expect(x, 1); }
int g(void) { return __func__[0]; }
int g(void) { return __FUNCTION__[0]; }
int g(void) { __builtin_va_list ap; return 0; }
int g(int n, ...) { __builtin_va_list ap; __builtin_va_start(ap, n); int r = __builtin_va_arg(ap, int); __builtin_va_end(ap); return r; }
int g(int n, ...) { __builtin_va_list ap; __builtin_va_start(ap, n); double r = __builtin_va_arg(ap, double); return (int)r; }
int g(int n, ...) { __builtin_va_list ap; __builtin_va_start(ap, n); struct S r = __builtin_va_arg(ap, struct S); return r.a; }
int g(int n, ...) { __builtin_va_list ap; __builtin_va_start(ap, zz); return 0; }
int g(int n) { __builtin_va_list ap; __builtin_va_start(ap, n); return 0; }
int g(int n, ...) { __builtin_va_list ap, aq; __builtin_va_start(ap, n); __builtin_va_copy(aq, ap); return 0; }
int g(void) { return __builtin_va_arg(gi, int); }
;
;;
int;
int *;
struct S;
struct;
enum;
typedef;
typedef int;
int x, ;
int , x;
int x y;
int (x);
int ((((x))));
int (*(*(*x)(void))[3])(int);
int *(*x[2])(int *(*)(void));
void (*signal(int sig, void (*handler)(int)))(int);
int x = ;
int x == 1;
int x = 1
int f(void) { return 1 }
int f(void) { return 1;
int f(void) return 1; }
int f(void) { ( }
int f(void) { ) }
int f(void) { ] }
int f(void) { int a[; }
int f(void) { 1 +; }
int f(void) { + ; }
int f(void) { if }
int f(void) { if ( }
int f(void) { if (1 }
int f(void) { else ; }
int f(void) { while }
int f(void) { do ; }
int f(void) { do ; while }
int f(void) { for (;;) }
int f(void) { for (;) ; }
int f(void) { for ; }
int f(void) { switch }
int f(void) { goto ; }
int f(void) { goto 1; }
int f(void) { return return; }
int f(void) { int int; }
int f(void) { int if; }
int f(void) { sizeof; }
int f(void) { sizeof(); }
int f(void) { sizeof(int; }
int f(void) { (int); }
int f(void) { (int)(); }
int f(void) { f1(; }
int f(void) { f1(1,); }
int f(void) { f1(,1); }
int f(void) { ga[]; }
int f(void) { gst.; }
int f(void) { gst.1; }
int f(void) { gsp->; }
int f(void) { gi ? 1; }
int f(void) { gi ? : ; }
int f(void) { gi ? 1 : ; }
int f(void) { {{{{ }}} }
}
{
int f(void) { } }
int f(void) { @ }
int f(void) { $ }
int f(void) { ` }
int f(void) { \\ }
int f(void) { # }
int f(void) { return 1 ## 2; }
int f(void) { return 'a; }
int f(void) { return "abc; }
int f(void) { return '\\q'; }
int f(void) { return '\\x'; }
int f(void) { return '\\xfffff'; }
int f(void) { return '\\777'; }
int f(void) { return "\\x"[0]; }
int f(void) { return "\\u1234"[0]; }
int f(void) { return L'a'; }
int f(void) { return u8"a"[0]; }
int f(void) { return 1.2.3; }
int f(void) { return 1e; }
int f(void) { return 1e+; }
int f(void) { return 1e-2; }
int f(void) { return 1.e5; }
int f(void) { return .e5; }
int f(void) { return 0x1p3; }
int f(void) { return 0x.8p1; }
int f(void) { return 1f; }
int f(void) { return 1.0f; }
int f(void) { return 1.0L > 0; }
int f(void) { return 1.0l > 0; }
int f(void) { return 1uu; }
int f(void) { return 1lul; }
int f(void) { return 1lll; }
int f(void) { return 1LLU; }
int f(void) { return 1llu; }
int f(void) { return 1Ul; }
int f(void) { return 0b101; }
int f(void) { return 09; }
int f(void) { return 0xg; }
int f(void) { return 0x; }
int f(void) { return 1_000; }
int f(void) { return 1'000; }
int f(void) { return 123abc; }
int f(void) { return 1..2; }
int f(void) { return 1...2; }
int f(void) { return gi+++gi; }
int f(void) { return gi++++gi; }
int f(void) { return gi---gi; }
int f(void) { return -----gi; }
int f(void) { return - - - gi; }
int f(void) { return !!!gi; }
int f(void) { return ~~gi; }
int f(void) { return +-+-gi; }
int f(void) { return &&gi; }
int f(void) { return **&&gi; }
int f(void) { return *&*&*gp; }
int f(void) { /* unterminated
int f(void) { // line comment \\
 return 1; }
int f(void) { return 1; } /* nested /* comment */ */
int f(void) { return 1 /* c */ + /* d */ 2; }
int f(\\
void) { return 1; }
#define X 1
#define X 2
int v = X;
#define F(a, b) a + b
int v = F(1);
#define F(a, b) a + b
int v = F(1, 2, 3);
#define F(a, b) a + b
int v = F(1, 2;
#define F(a, a) a
int v = F(1, 2);
#define F(a, ...) fv(a, __VA_ARGS__)
int g(void) { return F("x", 1, 2); }
#define F(a, ...) fv(a, __VA_ARGS__)
int g(void) { return F("x"); }
#define F(...) fv(__VA_ARGS__)
int g(void) { return F(); }
#define F(a, b...) fv(a, b)
int g(void) { return F("x", 1); }
#define S(x) #x
char *v = S(a "b" 'c' \\n);
#define S(x) #y
char *v = S(1);
#define C(a, b) a ## b
int v = C(1, 2) + C(g, i) + C(, 1) + C(1, );
#define C(a, b) a ## b
int v = C(+, +);
#define C(a) ## a
int v = C(1);
#define C(a) a ##
int v = C(1);
#define R R
int R;
#define A B
#define B A
int A;
#define F(x) F(x) + 1
int v = F(1);
#define E
int v = E 1 E;
#define F (1)
int v = F;
#define F() 1
int v = F();
#define F() 1
int v = F(1);
#define F( 1
#define
#define 1 2
#define defined 1
#undef
#undef X Y
#undef __LINE__
int v = __LINE__ + sizeof(__FILE__) + sizeof(__DATE__) + sizeof(__TIME__) + __STDC__ + __COUNTER__;
int v = __STDC_VERSION__;
#include "nonexistent.h"
#include <nonexistent.h>
#include
#include nonexistent
#include "unterminated
#include <stdio.h>
#include <stdlib.h>
#include <string.h>
#include <stdarg.h>
#include <stdint.h>
#include <stddef.h>
#include <limits.h>
#if
#endif
#if 1
#if 1
#else
#else
#endif
#else
#endif
#elif 1
#if 1
#elif
#endif
#if 1 +
#endif
#if (
#endif
#if )
#endif
#if 1 1
#endif
#if 1 ? 2
#endif
#if 1 ? 2 :
#endif
#if defined
#endif
#if defined(
#endif
#if defined(X
#endif
#if defined X Y
#endif
#if defined(1)
#endif
#if X
#endif
#if X == Y
int v;
#endif
#if X(1)
#endif
#if "abc"
#endif
#if 'a' == 97
int v;
#endif
#if 1.5
#endif
#if 1u - 2 > 0
int v;
#endif
#if 0x7fffffffffffffff + 1 < 0
int v;
#endif
#if 99999999999999999999999 > 0
int v;
#endif
#if -1 >> 1 == -1 && 1 << 62 > 0 && ~0 == -1 && !0
int v;
#endif
#if 1 = 1
#endif
#if 1 , 2
#endif
#if sizeof(int) == 4
#endif
#if (int)1
#endif
#if __LINE__ == 1 && defined(__LINE__) && defined __FILE__
int v;
#endif
#ifdef
#endif
#ifdef 1
#endif
#ifdef X Y
#endif
#ifndef
#endif
#ifndef X
#define X
#endif
#ifdef X
int v;
#endif
#if 0
garbage ' " /* here
#endif
int v;
#if 0
#bogus
#else
int v;
#endif
#bogus
#
# 12
# 12 "file.c"
#line 12
#line 12 "file.c"
#line
#line x
#line 0
#line 99999999999
#error
#error stop here
#warning careful
#pragma once
#pragma pack(1)
#pragma
_Pragma("once") int v;
#define EMPTY
#if EMPTY
#endif
#define Z 0
#if 1 / Z
#endif
#if 1 % Z
#endif
#if 0 && (1 / 0)
#endif
#if 1 || (1 / 0)
#endif
#if 0 ? 1 / 0 : 2
#endif
#if 1 << -1
#endif
#if 1 >> -1
#endif
#if 1 << 100
int v;
#endif
#if -9223372036854775807 - 1 < 0 && (-9223372036854775807 - 1) / -1
#endif
%:define X 1
<: :> <% %>
int a<:2:> = <%1, 2%>;
??=define X
int f(void) { return 1; } int g(void) { return f(); } int f(void);
int f(); int f(int a) { return a; } int g(void) { return f(1, 2); }
int f(); int g(void) { return f(1, 2.5, "s"); }
int f(void); int f(int a) { return a; }
int g(void) { return h(1); } int h(int a) { return a; }
int g(void) { return h(1); } double h(int a) { return a; }
static int f(void) { return 1; } int f(void);
int f(void); static int f(void) { return 1; }
int x; static int x;
static int x; extern int x; int x = 1;
int f(int), g(int), h = 1;
int f(int) { return 1; }
int f(int a, int) { return a; }
int f(struct Local { int a; } l) { return l.a; }
int f(enum { LA, LB } e) { return e == LB; }
void f(int a[2][2]) { a[1][1] = 1; }
void f(int a[][]) { }
void f(int (*a)[]) { (*a)[0] = 1; }
void f(void a[]) { }
void f(int a(int)) { a(1); }
void f(int (a)(int)) { a(1); }
void f(struct S) { }
void f(int, ...) { }
void f(int a, ...) { (void)a; }
int f(void) { (void)gi; (void)gst; (void)f0(); return (int)(void)0; }
'''

# ------------------------------------------------------------------ erroneous / unusual statements inside test()
STMTS = '''
break;
continue;
case 1: ;
default: ;
goto nolabel;
l1: ; l1: ;
l1: int y = 1;
l1: }
switch (x) { case 1: case 1: ; }
switch (x) { default: default: ; }
switch (x) { case x: ; }
switch (x) { case 1.5: ; }
switch (x) { case "s": ; }
switch (x) { case &gi: ; }
switch (x) { case E1: case 5: ; }
switch (x) { case 1 ... 5: case 3: ; }
switch (x) { case 5 ... 1: ; }
switch (x) { case 1 ... 2000: ; }
switch (x) { case 'a' ... 'z': x = 1; }
switch (x) { case -1: case 4294967295: ; }
switch (x) { case 4294967296: case 0: ; }
switch ((char)x) { case 256: case 0: ; }
switch ((unsigned char)x) { case -1: case 255: ; }
switch ((long long)x) { case 1ll << 40: case 0: ; }
switch (x) { int y = 1; case 1: x = y; }
switch (x) { case 1: ; int y = 2; case 2: x = y; }
switch (x) { }
switch (x) ;
switch (x) x = 1;
switch (x) case 1: x = 2;
switch (x) { x = 1; }
switch (x) { { case 1: ; } }
switch (x) { if (x) { case 1: x = 2; } else { case 2: x = 3; } }
switch (x) { while (x) { case 1: x--; break; } }
switch (x) { case 1: switch (x) { case 1: break; } case 2: break; }
switch (x) { case 1: continue; }
while (x) { switch (x) { case 1: continue; default: break; } }
switch (d) { case 1: ; }
switch (p) { case 0: ; }
switch (s) { case 1: ; }
switch (gst.c) { case 1: ; case 9: ; }
switch (E1) { case E0: ; case E2: ; }
switch (x) { case (int)1.5: ; case sizeof(int): ; case (1 ? 7 : 8): ; }
switch (x) { case 1, 2: ; }
switch (x) { case: ; }
switch (x) { case 1 ; }
switch (x) { case 1:: ; }
switch () { }
switch (x, x) { case 1: ; }
switch (f0()) { }
switch (x = 1) { case 1: ; }
if (s) ;
if (gst) ;
if (f0()) ;
if (gun) ;
if (ga) ;
if (f1) ;
if ("s") ;
if (1.5) ;
if (p) ; else if (d) ; else ;
if () ;
while (s) ;
while () ;
do ; while (s);
for (s;;) ;
for (;s;) ;
for (;;s) break;
for (int i = 0, j = 1; i < j; i++, j--) ;
for (int i = 0; i < 3; i++) { int i = 5; x += i; }
for (static int i = 0; i < 3; i++) ;
for (struct S q = {1}; q.a < 3; q.a++) ;
for (int i; ; ) break;
for (x = 0, *p = 1; ; ) break;
x = s;
s = x;
s = gun;
s = *sp; *sp = s; s = gst; gst = s; s = fs(); s = s;
sp = &s; sp = s; sp = &gun; sp = p; p = sp; sp = 0; sp = 1; sp = gv; gv = sp; gv = f1; gfp = gv;
s.a = s; s.zz = 1; sp.a = 1; s->a = 1; x.a = 1; p->a = 1; (*sp).a = 1; (&s)->a = 1; sp->next->next->a = 1;
s.arr = ga; ga = s.arr; ga = 0; ga = ga; ga++; &ga; *ga = 1; ga[1] = 1; 1[ga] = 1; ga[ga] = 1; p[p] = 1; x[1] = 1; x[p] = 1;
gm[1][2] = 1; gm[1] = 0; *gm[1] = 2; **gm = 3; gm[1][2][3] = 1; (*gm)[1] = 1;
s.c = 9; s.d = -20; s.c++; s.c += 5; x = s.c << 4; x = -s.d; p = &s.c; x = sizeof(s.c); s.c = s.d = 1;
gun.f = 1; gun.i = gun.f; gun.c[1] = gun.c[0]; gun = gun; x = gun.i + gun.c[2];
1 = x;
x + 1 = 2;
f1(1) = 2;
(x) = 2; (x, x) = 2; (x ? x : x) = 2; (int)x = 2; -x = 2; &x = 0; x++ = 1; ++x = 1; *&x = 1; *p++ = 1; (*p)++; *++p = 2;
x++ ++; ++x++; ++ ++x; x-- --; 1++; ++1; E1++; f1++; ga--; s++; gun--; d++; --d; p++; gv++; gfp++; sp++; gs--;
&1; &(x + 1); &f1; &&x; &E1; &s.c; &gk; &"s"; &ga; &ga[1]; &*p; &f0(); &(int){1}; &x++;
*x; *d; *s; *gv; *f1; **f1; ***f1; *"s"; *ga; **gm; *0; *(int *)0 = 1; *(char *)gv = 1; *(void **)gv = gv;
x = p; p = x; p = d; d = p; p = 0; p = 1 - 1; p = (void *)0; p = gv; gv = p; p = gs; gs = p; p = &d; p = ga; p = gm; p = &ga;
x = p + p; x = p - p; x = p - gs; p = p + 1; p = 1 + p; p = p - 1; p = 1 - p; p = p * 2; p = p / 2; p = p % 2; p = p & 1; p = p << 1; p = ~p; p = -p; p = +p; x = !p; p = p + d; p = p + 1.5; p += 1; p -= x; p *= 2; p += p; p -= p; gv = gv + 1; gfp = gfp + 1; x = gv - gv;
x = p < p; x = p == 0; x = p == x; x = p < 1; x = p == gs; x = p == gv; x = gfp == f1; x = gfp == 0; x = gfp < gfp; x = s == s; x = s != gst; x = gun == gun; x = ga == ga; x = ga == p; x = d == p; x = "a" == "a";
x = s + 1; x = -s; x = !s; x = ~s; x = s ? 1 : 2; x = s && 1; x = (int)s; s = (struct S)x; s = (struct S)s; x = (int)gun; gun = (union U)x; gun = (union U)1.5f;
x = d % 2; x = x % d; x = d & 1; x = d | x; x = d ^ d; x = d << 1; x = 1 << d; x = ~d; d = -d; d = +d; x = !d; d = d * d / d + d - d; d %= 2; d &= 1; d <<= 1; d++; d = x; x = d; d = gf; gf = d; gf = gf * x; gc = d; d = gc;
x = x / 0; x = x % 0; x = 1 / 0; x = 1 % 0; x = x << -1; x = x >> 100; x = 1 << 100; x = -2147483647 - 1; x = (-2147483647 - 1) / -1; x /= 0; x %= 0; d = d / 0; d = 1.0 / 0; d = 1 / 0.0; d = 0.0 / 0.0; gu = 1u << 32; gl = 1l << 63;
x = (int)p; p = (int *)x; x = (int)d; d = (double)x; p = (int *)d; d = (double)p; x = (int)f1; gfp = (fp_t)x; gfp = (fp_t)gv; gv = (void *)f1; x = (char)p; gc = (char)gl; x = (int)(void)x; (void)s; x = (int[2])ga; x = (int(void))f1; x = (struct Undef)x; x = (struct Undef *)p != 0; x = (undef_t)x; x = (myint)d; x = (S_t *)gv == sp; x = (E1)x; x = (enum E)7; x = (enum Undef)1;
x = sizeof(x) + sizeof x + sizeof(int) + sizeof(s) + sizeof s.arr + sizeof(ga) / sizeof(ga[0]) + sizeof("abc") + sizeof('a') + sizeof(1.5) + sizeof(d) + sizeof(f1(1)) + sizeof(x++) + sizeof(struct S) + sizeof(S_t *) + sizeof(int[x]) + sizeof(sizeof(int)) + sizeof(*sp) + sizeof(sp->arr[0]) + sizeof(gm[0]) + sizeof(int (*)(void)) + sizeof(fp_t);
x = sizeof(void); x = sizeof(f1); x = sizeof(f0()); x = sizeof(struct Undef); x = sizeof(int[]); x = sizeof(*gv); x = sizeof(int[-1]); x = sizeof(); x = sizeof(x; x = sizeof int; x = sizeof(s.c); x = sizeof(undeclared);
x = f1; x = f1(); x = f1(1, 2); x = f1(s); x = f1(p); x = f1(d); x = f1(f1); x = f1(f0()); x = f0(); f0(1); f0(f0()); x = x(1); x = p(1); x = s(1); x = (*f1)(1); x = (**f1)(1); x = (&f1)(1); x = (*gfp)(1); x = gfp(1); x = (***gfp)(1); x = gfp(); x = gfp(1, 2); x = gfp(s); gfp = f1; gfp = &f1; gfp = *f1; gfp = f0; gfp = fv; gfp = 0; gfp = 1; x = f1(1)(2); x = fs().a; fs().a = 1; x = fs().arr[1]; sp = &fs(); x = (&gst)->a; x = (*&gst).a; f1;
x = fv("a"); x = fv("a", 1, 2l, 3ll, 1.5, 1.5f, 'c', "s", p, s, gun, ga, f1, gst.c, (char)1, (short)2); x = fv(); x = fv(1); x = fv(d); x = fv(s);
x = undeclared; undeclared = x; x = undeclared(); x = undeclared.a; x = undeclared[1]; x = *undeclared; x = &undeclared; x = sizeof(undeclared); x = (undeclared)x; undeclared x; undeclared; undeclared: ; struct Undef u; struct Undef *u = 0; u->a = 1; enum Undef e; union Undef w; x = UNDEF_CONST; x = E9;
int x; int y; int y; { int y; { int y = y; } } int s = 1; int test = 1; int f1 = 1; x = f1; int E1 = 2; enum { E0 = 9 }; typedef int p; p q = 1; struct S { int z; }; struct S t = {1}; x = t.z;
int y = y; int *q = &q; int z = z + 1; int a[sizeof(a)]; struct S t = t; int (*fq)(int) = fq;
int a[2] = {1, 2, 3}; int b[x] = {1}; int c[2] = x; int c2[2] = ga; int c3[] ; int c4[] = {1, 2}; int c5[0]; int c6[-1]; char c7[] = "abc"; char c8[2] = "abc"; char *c9 = "abc"; char c10[4] = {"abc"}; char c11[] = {'a', 'b'}; int c12[2][2] = {{1, 2}, {3, 4}}; int c13[2][2] = {1, 2, 3, 4}; int c14[2] = {[1] = x, [0] = *p}; int c15[3] = {[x] = 1}; int c16[3] = {[5] = 1};
struct S t1 = {1, 2}; struct S t2 = {.a = x, .s = "str", .arr = {x, x}}; struct S t3 = s; struct S t4 = *sp; struct S t5 = fs(); struct S t6 = x; struct S t7 = {s}; struct S t8 = {.zz = 1}; struct S t9 = {.c = 20, .d = -20}; struct S t10 = {.arr[2] = 1, .next = sp}; struct S t11[2] = {s, s}; struct S t12[2] = {{.a = 1}, [1] = {.b = 2}}; struct S t13 = {}; struct S t14 = {0}; struct S t15 = {{0}};
union U u1 = {1}; union U u2 = {.f = 1.5}; union U u3 = {.c = {1, 2}}; union U u4 = gun; union U u5 = {1, 2}; union U u6 = x; union U u7 = {.i = x}; union U u8 = {};
x = (int){1}; p = (int[]){1, 2, 3}; s = (struct S){1, 2}; sp = &(struct S){.a = 1}; x = ((struct S){.a = 5}).a; x = (int[3]){1, 2, 3}[1]; p = (int[2]){x, x}; gun = (union U){.f = 1}; x = (int){}; x = (int){1, 2}; (int){1} = 2; gs = (char[]){"abc"}; gs = (char *){"abc"};
x = x ? 1 : 2; x = x ? p : 0; p = x ? p : 0; p = x ? 0 : p; p = x ? p : gv; gv = x ? p : gs; x = x ? s : s; s = x ? s : gst; s = x ? s : 1; x = x ? f0() : f0(); x ? f0() : f0(); x = x ? d : 1; d = x ? 1 : 2.5; x = x ? : 2; p = x ? ga : p; gfp = x ? f1 : 0; gfp = x ? f1 : gfp; x = s ? 1 : 2; x = x ? "a"[0] : 'b'; x = x ? 1 : p;
x = (x, x); x = (f0(), 1); x = (s, 1); s = (x, s); f1((1, 2)); x = 1, 2, 3; (void)(x, d, p); x = (x++, x--, x);
x += s; s += 1; s += s; p += d; x += p; x <<= d; d <<= 1; x = x = x; x = (x = 1) + (x = 2); x += x += 1; x = y = 1; gk += 1; ga += 1; f1 += 1; E1 = 1; "s" = 0; "s"[0] = 'a'; x = "s"[0]; x = "s"[5]; x = *"s"; gs = "a" "b"; gs = "a" + 1; x = "abc" - "abc"; gs = &"abc"[1];
x = 'ab'; x = ''; x = '\\0'; x = '\\377'; x = '\\xff'; x = L'x'; x = "\\q"[0]; x = 'abcd'; x = 'abcde';
x = gc + gc; gc = gc * 2; gc = 300; gc = -200; gu = -1; x = gu > -1; x = -1 < 0u; x = (unsigned char)300; gl = 1 << 31; gl = 2147483648; gl = 4294967296; x = 4294967296; x = 0xffffffff; x = 0xfffffffff; gl = 0xffffffffffffffff; gl = 18446744073709551616; gl = 9223372036854775808; x = 077777777777777777777777; gf = 1e39; gf = 1e400; d = 1e400; d = 1e-400; d = 0x1p-1080;
return 1; return; return s; return x, x;
{ int y; } y = 1;
{ goto inner; { int y = 1; inner: x = y; } }
goto fwd; { int y[x]; fwd: y[0] = 1; }
goto *p;
void *lab = &&l9; l9: goto *lab;
x = ({ int y = 1; y + 1; });
x = __builtin_abs(x);
x = _Generic(x, int: 1, default: 2);
x = _Alignof(int) + _Alignof(s);
_Static_assert(sizeof(int) >= 2, "ok"); _Static_assert(0, "fail"); _Static_assert(x, "nc"); _Static_assert(1);
typeof(x) y = 1; __typeof__(s) t; __auto_type z = 1;
int y = 1; { extern int y; x = y; }
static int cnt = x; static int c2 = 1 + 2; static int *c3 = &gi; static int *c4 = &x; static struct S c5 = {1}; static struct S c6 = gst; static char c7[] = "abc"; static int c8[x]; static void c9; extern int c10 = 1;
void y; void *z = &y; void a[2]; void f(void); f(); int g(int); x = g(1); struct Undef h(void); h();
inline int q; register int r; &r; auto int au; typedef int tt; tt u = 1; typedef struct { int a; } anon_t; anon_t an = {1}; x = an.a;
enum { L0, L1 } le = L1; x = le; le = 5; le = x; le++; x = L0 + L1; enum E ee = E1; ee = 99; ee = L0; x = ee == L1; switch (ee) { case E0: case L1: ; }
struct { int a : 3; int : 0; int b : 3; } bf = {1, 2}; bf.a = bf.b; x = bf.a + 1; bf.a++; bf.a += 7; bf.b = -bf.a; p = &bf.a; x = sizeof(bf);
struct { unsigned a : 1; unsigned b : 31; unsigned long long c : 40; signed char d : 7; _Bool e : 1; } bg = {1, 2, 3, 4, 1}; bg.c = 1ll << 39; x = bg.c >> 30; bg.e = 5; x = bg.a ? bg.b : bg.d; bg.b <<= 3; bg.d = ~bg.d;
long long ll = 1; ll = ll * ll / (ll | 1) % 7 << 3 >> 1; ll = -ll; ll = ~ll; x = ll > 0 && ll; ll = x; x = ll; unsigned long long ull = ll; ull = ull / 3 % 5; d = ll; ll = d; d = ull; ull = d; gf = ull; ull = gf; ll++; ull--; ll += ull; ll <<= x; switch (ll) { case 1: ; }
unsigned char uc = x; uc++; uc += uc; uc = ~uc; uc = uc << 7; uc >>= 1; x = uc * uc; short sh = uc; sh = -sh; sh *= sh; unsigned short us = sh; us = us + sh; x = us > sh; x = (signed char)uc; d = uc; uc = d; gf = sh; sh = gf; _Bool bb = x; bb = d; bb = p; bb++; x = bb + bb; bb = bb && bb; bb = !bb;
float fl = 1; fl = fl + 1; fl = fl * fl - fl / fl; fl = -fl; fl++; x = fl; fl = x; fl = gc; gc = fl; x = fl > 0; x = fl == fl; x = !fl; x = fl && fl; fl = x ? fl : 1; if (fl) ; while (fl) fl--; fl += d; d *= fl; gu = fl; fl = gu; gl = fl; fl = gl; long double ld = 1; ld = ld + 1; x = ld;
volatile int vi = 1; vi++; x = vi + vi; volatile int *vp = &vi; *vp = 1; x = *vp; p = vp; vp = p; const int *cp = p; p = cp; *cp = 1; cp++; int *const pc = p; pc++; *pc = 1; const int ci = 1; ci = 2; int *q = &ci; const char *ccs = "s"; gs = ccs; ccs = gs;
int (*pa)[4] = &ga; x = (*pa)[1]; pa++; x = pa[0][1]; pa = ga; pa = &gm[0]; int (*pm)[3] = gm; x = pm[1][2]; pm = &gm; int *ap[2] = {p, &x}; x = *ap[1]; int **pp = ap; pp = &p; x = **pp; pp = p; p = pp; int ***ppp = &pp; x = ***ppp;
int (*fa[2])(int) = {f1, f1}; x = fa[1](2); x = (*fa[0])(1); int (**pfa)(int) = fa; x = (*pfa)(1); x = pfa[1](1); void (*vf)(void) = f0; vf(); (*vf)(); vf = f1; int (*(*ffp)(void))(int) = 0; x = ffp()(1);
'''


def _lines(block):
    return [l for l in block.split('\n') if l.strip()]


def templates():
    """[(kind, program text)]"""
    out = []
    # global snippets: a few are multi-line (preprocessor); the block is split on blank-free lines, so group
    # consecutive lines that belong together: a line starting with '#' glues to its followers until a non-# line
    glines = _lines(GLOBALS)
    groups = _group(glines)
    for g in groups:
        out.append(('global', PRELUDE + g + '\n'))
    for l in _lines(STMTS):
        out.append(('stmt', PRELUDE + FUNC % ('  ' + l)))
        # each ';'-separated piece alone as well (one defect per program)
        parts = _split_top(l)
        if len(parts) > 1:
            decls = []
            for part in parts:
                out.append(('stmt1', PRELUDE + FUNC % ('  ' + ''.join(d + '; ' for d in decls) + part + ';')))
                if re.match(r'\s*(static |const |volatile |unsigned |long |struct |union |enum |int |char |short |float '
                            r'|double |_Bool |typedef |void |register |auto |inline |extern )', part) and '(' not in part.split('=')[0]:
                    decls.append(part.strip())
    return out


def _group(glines):
    """group the lines of GLOBALS into programs: `#if..#endif` blocks stay together; a run of #define lines takes
    the next #if block or the next plain line with it; everything else is one line = one program"""
    groups, i, n = [], 0, len(glines)

    def ifblock(i):
        depth, j = 0, i
        while j < n and j - i < 12:
            l = glines[j]
            if l.startswith('#if'):
                depth += 1
            elif l.startswith('#endif'):
                depth -= 1
                if depth == 0:
                    return j + 1
            elif not l.startswith('#') and depth == 0:
                return j
            j += 1
        return j
    while i < n:
        l = glines[i]
        if l.startswith('#if'):
            j = ifblock(i)
            if j < n and not glines[j].startswith('#') and glines[j] in ('int v;',):
                j += 1
        elif l.startswith('#define') and re.match(r'#define [A-Za-z_]\w*(\(|\s|$)', l) and l != '#define defined 1':
            j = i + 1
            while j < n and glines[j].startswith('#define'):
                j += 1
            if j < n and glines[j].startswith('#if'):
                j = ifblock(j)
            elif j < n and not glines[j].startswith('#'):
                j += 1
        elif l.endswith('\\'):
            j = i + 2
        else:
            j = i + 1
        groups.append('\n'.join(glines[i:j]))
        i = j
    return groups


def _split_top(l):
    """split a statement line on top-level ';' (not inside braces / parens)"""
    parts, depth, cur = [], 0, ''
    for ch in l:
        if ch in '({[':
            depth += 1
        elif ch in ')}]':
            depth -= 1
        if ch == ';' and depth == 0:
            if cur.strip():
                parts.append(cur)
            cur = ''
        else:
            cur += ch
    if cur.strip():
        parts.append(cur)
    return parts


HUGE = {'~0u', '1u << 31', '1ll << 62', '18446744073709551615u', '0x7fffffff * 4', '-(-2147483647-1)', '2147483647 + 1',
        '1 << 64', '1 << 1000', '99999999999999999999', '(-2147483647-1) / -1', '(-2147483647-1) % -1',
        '-9223372036854775807ll - 1'}


def const_contexts():
    out = []
    for ctx in CE_CTX:
        sized = '[@]' in ctx or ': @' in ctx or '... @' in ctx or '@ ...' in ctx or '[(@)' in ctx
        for ce in BAD_CE:
            if sized and ce in HUGE:
                continue        # array sizes / designators / ranges of 2^31 and more: time and memory bombs, not searched
            out.append(('constctx', PRELUDE + ctx.replace('@', ce) + '\n'))
    return out


TOK = re.compile(r'"(?:[^"\\\n]|\\.)*"|\'(?:[^\'\\\n]|\\.)*\'|[A-Za-z_][A-Za-z_0-9]*|\d[\w.]*|<<=|>>=|\.\.\.|->|\+\+|--|&&|\|\||'
                 r'[-+*/%&|^<>=!]=|<<|>>|\n|\S')
KEYWORDS = ['int', 'char', 'void', 'struct', 'union', 'enum', 'typedef', 'static', 'const', 'return', 'if', 'else', 'while',
            'for', 'do', 'switch', 'case', 'default', 'break', 'continue', 'goto', 'sizeof', 'float', 'double', 'long',
            'short', 'unsigned', 'signed', 'extern', 'volatile']
PUNCT = ['(', ')', '{', '}', '[', ']', ';', ',', '.', '->', '*', '&', '=', ':', '?', '+', '-', '...', '#', '##']


def tokens(src):
    return TOK.findall(src)


def untok(toks):
    out = []
    for t in toks:
        if t == '\n':
            out.append('\n')
        else:
            out.append(t + ' ')
    return ''.join(out)


def mutate(rng, src, n=None):
    """token-level mutation (semantic: rename / retype / constant abuse; syntactic: delete / duplicate / swap / insert)"""
    toks = tokens(src)
    idx = [i for i, t in enumerate(toks) if t != '\n']
    if not idx:
        return src
    n = n or rng.choice([1, 1, 1, 2, 3])
    for _ in range(n):
        i = rng.choice(idx)
        t = toks[i]
        c = rng.random()
        ids = [j for j in idx if re.match(r'[A-Za-z_]\w*$', toks[j]) and toks[j] not in KEYWORDS]
        nums = [j for j in idx if re.match(r'\d', toks[j])]
        if c < 0.15 and ids:
            toks[rng.choice(ids)] = rng.choice(['undeclared_name', toks[rng.choice(ids)], toks[rng.choice(ids)]])
        elif c < 0.27 and nums:
            toks[rng.choice(nums)] = rng.choice(['(1/0)', '(1%0)', '-1', '0', '1.5', '(1<<-1)', '"s"', '4294967296', '(1<<40)',
                                                 '99999999999999999999', '08', '0x', '1e', "'a'", 'sizeof(void)', '(void)0'])
        elif c < 0.37:
            kws = [j for j in idx if toks[j] in KEYWORDS]
            if kws:
                toks[rng.choice(kws)] = rng.choice(KEYWORDS)
        elif c < 0.52:
            toks[i] = ''
        elif c < 0.62:
            toks[i] = t + ' ' + t
        elif c < 0.72:
            j = rng.choice(idx)
            toks[i], toks[j] = toks[j], toks[i]
        elif c < 0.86:
            toks[i] = t + ' ' + rng.choice(PUNCT + KEYWORDS)
        elif c < 0.93:
            toks[i] = rng.choice(PUNCT)
        else:
            # drop a whole line (declaration) -> undeclared names, unbalanced blocks
            lines = untok(toks).split('\n')
            if len(lines) > 2:
                del lines[rng.randrange(len(lines))]
            return '\n'.join(lines) + '\n'
    return untok(toks)


# ------------------------------------------------------------------ boundary literals (always run in full)
INT_SUFFIXES = ['', 'u', 'l', 'ul', 'll', 'ull']
CASE_VARIANTS = ['U', 'L', 'UL', 'LU', 'lu', 'LL', 'ULL', 'uLL', 'llu', 'LLU', 'Ull']
LIT_CTX = ['int v = @;', 'unsigned v = @;', 'long v = @;', 'unsigned long long v = @;', 'char v = @;', 'enum E v = @;',
           'unsigned t[2] = {1u, @};', 'long long w = @ + 1;', 'int g(long long a) { return a < @; }',
           'unsigned h(unsigned a) { return a + @; }',
           'enum Q { A = @ }; enum Q q = A;', 'enum Q { A = @, B }; enum Q q = B;', 'enum Q { A = @, B }; int q = B;',
           'void g(int x) { switch (x) { case @: break; } }', 'void g(long long x) { switch (x) { case @: break; } }',
           '#if @ > 0\nint v;\n#endif', '#if @ == @ - 1 + 1\nint v;\n#endif']
SMALL_CTX = ['int a[@];', 'struct Q { int f : @; };', 'struct Q { unsigned long long f : @; }; struct Q q = {1};',
             'int v[3] = {[@] = 1};']
NEG_ENUM = ['enum Q { A = -@ }; enum Q q = A;', 'enum Q { A = -@ - 1 }; enum Q q = A;', 'enum Q { A = -@, B }; enum Q q = B;',
            'enum Q { A = -@ - 1, B }; int q = B;', 'int v = -@;', 'int v = -@ - 1;', 'long long v = -@ - 1;',
            'void g(int x) { switch (x) { case -@ - 1: break; } }']
FLOAT_LITS = ['1.7976931348623157e308', '1.7976931348623159e308', '1.8e308', '1e308', '1e309', '1e400', '1e9999',
              '4.9e-324', '2.4e-324', '1e-400', '3.4028235e38', '3.4028236e38', '3.5e38', '1e39', '1.4e-45', '1e-46',
              '1e38f', '1e39f', '3.5e38F', '1e309L', '1e4932L', '0x1p1023', '0x1p1024', '0x1.fffffffffffffp1023',
              '1e+', '1e-', '1e', '1E', '.e1', '1.e', '1.e+', '1.2.3', '1e5e5', '1e1.5', '1..', '.', '00.5', '09.5', '1e05',
              '0e0', '0.0e-999', '1.0e+0008', '123456789012345678901234567890.0', '0.000000000000000000000000000001',
              '18446744073709551616.0', '9223372036854775808.0', '4294967296.0', '2147483648.0', '-2147483649.0']
FLOAT_CTX = ['float v = @;', 'double v = @;', 'long double v = @;', 'int v = @;', 'char v = @;', 'unsigned char v = @;',
             'unsigned long long v = @;', 'long long v = (long long)@;', 'int v = (int)@;', 'unsigned v = (unsigned)(@);',
             'float f(void) { return @; }', 'int f(double d) { return d < @; }', 'float t[2] = {@, @};',
             'int a[(int)@ ? 1 : 2];', 'void g(int x) { switch (x) { case (int)@: break; } }', 'enum Q { A = (int)@ };',
             'double v = -@;', 'double v = @ * @;', 'double v = @ * 10;', 'float v = @ / 1e-300;']
CHAR_LITS = ["''", "'ab'", "'abc'", "'abcd'", "'abcde'", "'abcdefghi'", "'\\xFFF'", "'\\xff'", "'\\x'", "'\\x100'",
             "'\\777'", "'\\400'", "'\\377'", "'\\8'", "'\\q'", "'\\u00e9'", "'\\u12'", "'\\U0001F600'", "L'ab'", "L'\\xFFFF'",
             "L''", "u'a'", "U'a'", "u8'a'", "'\\\\'", "'''", "'\\''", "'\"'", "'\\\"'", "'a", "'", "'\\", "'\\0'", "'\\00'",
             "'\\000'", "'\\0000'", "'\\x00000041'", "'\\n\\n'", "' '", "'\\ '", "'\\e'", "'\\?'", "'??/'"]
CHAR_CTX = ['int v = @;', 'char v = @;', 'unsigned char v = @;', 'void g(int x) { switch (x) { case @: break; } }',
            '#if @\nint v;\n#endif', '#if @ == 97\nint v;\n#endif', 'enum Q { A = @ };', 'int a[@];', 'char s[] = {@, @};',
            'int f(void) { return @ + 1; }']
STR_LITS = ['"\\q"', '"\\x"', '"\\xFFF"', '"\\x41"', '"\\777"', '"\\400"', '"\\8"', '"\\u12"', '"\\u1234"', '"\\u00e9"',
            '"\\U0001F600"', '"\\U1234"', '"abc', '"a\\', '"\\"', '"\\\\"', '"a" "b', '"\\0"', '"\\0\\0"', '""', '"" ""',
            'L"abc"', 'L"\\x1234"', 'u8"abc"', 'u"abc"', 'U"abc"', '"\\e"', '"??/"', '"a\\\nb"', '"\t"', '"\\x0"',
            '"' + 'a' * 300 + '"', '"%s%d%"', "\"'\"", '"\\\'"']
STR_CTX = ['char v[] = @;', 'char *v = @;', 'const char *v = @;', 'char v[2] = @;', 'char v[1] = @;', 'char v[400] = @;',
           'int v = sizeof(@);', 'int v = @[0];', 'char *t[] = {@, @};', 'int f(void) { return fv(@); }',
           'struct S v = {.s = @};', 'unsigned char v[] = @;', 'int v[] = @;', 'short v[] = @;', 'char v[] = {@};',
           '#include @', '#error @', '#if @\n#endif', '#define M @\nchar *v = M;', '_Static_assert(1, @);']


def _radix(v, r):
    if r == 'd':
        return str(v)
    if r == 'x':
        return hex(v) if v % 2 else hex(v).upper().replace('0X', '0x')
    return ('0' + oct(v)[2:]) if v else '0'


MINI = 'enum E { E0, E1 = 5, E2 };\nstruct S { int a; char *s; };\nint fv(const char *fmt, ...);\n'
FEW_CTX = ['unsigned v = @;', 'unsigned long long v = @;', 'enum Q { A = @, B }; enum Q q = B;',
           'void g(int x) { switch (x) { case @: break; } }', '#if @ > 0\nint v;\n#endif']


def boundary_literals():
    """[(kind, text)]: integer literals at / below / beyond the limit of every (suffix, width) in every constant
    context, floating limits, character and string literal oddities; one literal per program"""
    vals = set()
    for b in (7, 8, 15, 16, 31, 32, 63, 64):
        vals.update({(1 << b) - 1, 1 << b, (1 << b) + 1})
    vals.update({0, 1, 65, 1 << 65, (1 << 128) - 1})
    vals = sorted(vals)
    out = []

    def put(v, f, ctxs):
        for c in ctxs:
            out.append(('c-boundary', MINI + c.replace('@', f) + '\n'))
        if v <= 65537 or v >= (1 << 64):      # sizes / widths / designators: no multi-gigabyte objects
            for c in (SMALL_CTX if ctxs is LIT_CTX else SMALL_CTX[:1]):
                out.append(('c-boundary', MINI + c.replace('@', f) + '\n'))
    for v in vals:
        for s in INT_SUFFIXES:
            put(v, str(v) + s, LIT_CTX)
            put(v, _radix(v, 'x') + s, FEW_CTX)
            put(v, _radix(v, 'o') + s, FEW_CTX)
    for v in ((1 << 16) - 1, 1 << 16, (1 << 32) - 1, 1 << 32, (1 << 63) - 1, 1 << 63, (1 << 64) - 1, 1 << 64):
        for s in CASE_VARIANTS:
            put(v, str(v) + s, FEW_CTX)
            put(v, hex(v).upper() + s, FEW_CTX[:2])
    for v in vals:
        if v:
            for c in NEG_ENUM:
                out.append(('c-boundary', MINI + c.replace('@', str(v)) + '\n'))
                out.append(('c-boundary', MINI + c.replace('@', hex(v) + 'll') + '\n'))
    for lits, ctxs in ((FLOAT_LITS, FLOAT_CTX), (CHAR_LITS, CHAR_CTX), (STR_LITS, STR_CTX)):
        for l in lits:
            for c in ctxs:
                out.append(('c-boundary', MINI + c.replace('@', l) + '\n'))
    seen, res = set(), []
    for k, s in out:
        if s not in seen:
            seen.add(s)
            res.append((k, s))
    return res


FUNC_CTX = ['int g(long long a) { return a < @; }', 'unsigned h(unsigned a) { return a + @; }',
            'long long k(long long a) { return a * @ - (a | @); }', 'int s(unsigned long long a) { return a == @ ? 1 : 2; }',
            'void g(long long x) { switch (x) { case @: break; } }']


def boundary_functions():
    """[(kind, text)]: the boundary integer literals as operands in function code; compiled with api.cc, because
    an out-of-range constant that the front-end lets through only fails in the optimizer / instruction selector"""
    vals = set()
    for b in (7, 8, 15, 16, 31, 32, 63, 64):
        vals.update({(1 << b) - 1, 1 << b, (1 << b) + 1})
    out = []
    for v in sorted(vals):
        for s in INT_SUFFIXES:
            for f in (str(v) + s, _radix(v, 'x') + s):
                for c in FUNC_CTX:
                    out.append(('c-boundary-cc', MINI + c.replace('@', f) + '\n'))
    return out
