"""c28_mkknown — maintenance of the recorded state of C28 (run by hand after ppci changed or the generators grew):

    /venv/bin/python tools/props/c28_mkknown.py known     rebuild the C28 entries of known_findings.json from
                                                           c28_corpus.json (witnesses that still fail on /repo)
    /venv/bin/python tools/props/c28_mkknown.py expect    record c28_expect.json: outcome (ok / diagnostic) of every
                                                           deterministic program (templates, constant contexts,
                                                           boundary literals) on the current /repo
    /venv/bin/python tools/props/c28_mkknown.py boot [seed ...]   props.c28.bootstrap(): add minimised witnesses of
                                                           classes the quick stream of these seeds finds
Honour VERIF_REPO like the checks. known_findings.json is re-read immediately before it is written.
With `--out SUFFIX` (e.g. `--out after`) nothing committed is touched: `expect` writes c28_expect.SUFFIX.json,
`known` writes c28_corpus.SUFFIX.json and c28_known.SUFFIX.json (the list of C28 entries) next to the originals.
"""
import json
import os
import sys

HERE = os.path.dirname(os.path.abspath(__file__))
sys.path.insert(0, os.path.dirname(HERE))
sys.path.insert(0, HERE)
import vlib  # noqa: E402
vlib.ensure_repo_on_path()
import c28_run as R  # noqa: E402
import props.c28 as m  # noqa: E402

KNOWN = os.path.join(vlib.VERIF, 'known_findings.json')


def still_failing(corpus):
    with R.Runner(4) as r:
        res = r.run_many([dict(x['task']) for x in corpus])
    keep = []
    for x, o in zip(corpus, res):
        if o['status'] == 'internal' and list(m.key3(x['task'], o)) == x['key']:
            x['msg'] = o.get('msg')
            keep.append(x)
        else:
            print('dropped (no longer fails):', '|'.join(x['key']), '->', o['status'])
    return keep


def known(out=None):
    corpus = still_failing(m.load_corpus())
    with open(m.CORPUS if not out else m.CORPUS.replace('.json', '.%s.json' % out), 'w') as f:
        json.dump(corpus, f, indent=1)
    entries = []
    for c in corpus:
        exc, where, cls = c['key']
        prog = c['task']['src'].strip().replace('\n', ' \\n ')
        if len(prog) > 260:
            prog = prog[:260] + ' ... (full witness: tools/props/c28_corpus.json)'
        what = '%s in %s [%s, %s %s -O%s]: %s | program: %s' % (
            exc, where, cls, c['task']['api'], c['task']['march'], c['task'].get('opt', 0), (c.get('msg') or '')[:80], prog)
        entries.append({'property': 'C28', 'status': 'known', 'match': {'exc': exc, 'where': where, 'class': cls},
                        'what': what})
    if out:
        with open(os.path.join(HERE, 'c28_known.%s.json' % out), 'w') as f:
            json.dump(entries, f, indent=1)
        print('%d witnesses still fail; entries written to c28_known.%s.json' % (len(corpus), out))
        return
    d = json.load(open(KNOWN))          # re-read right before writing: other builders append to it
    d['findings'] = [f for f in d['findings'] if not (f.get('property') == 'C28' and f.get('status') == 'known')] + entries
    with open(KNOWN, 'w') as f:
        json.dump(d, f, indent=1)
    print('%d witnesses, %d findings in known_findings.json' % (len(corpus), len(d['findings'])))


def expect(outname=None):
    ctx = vlib.Ctx('C28expect', 'thorough', 0)
    tasks = [t for t in m.streams(ctx, only_deterministic=True)]
    with R.Runner(4) as r:
        res = r.run_many(tasks)
    out = {}
    for t, o in zip(tasks, res):
        if o['status'] in ('ok', 'diag'):
            out[m.task_sha(t)] = o['status'][0]
    with open(m.EXPECT if not outname else m.EXPECT.replace('.json', '.%s.json' % outname), 'w') as f:
        json.dump(out, f, sort_keys=True, separators=(',', ':'))
    print('%d of %d deterministic programs recorded as ok/diagnostic' % (len(out), len(tasks)))


if __name__ == '__main__':
    cmd = sys.argv[1] if len(sys.argv) > 1 else ''
    suffix = sys.argv[sys.argv.index('--out') + 1] if '--out' in sys.argv else None
    if cmd == 'known':
        known(suffix)
    elif cmd == 'expect':
        expect(suffix)
    elif cmd == 'boot':
        m.bootstrap(seeds=tuple(int(x) for x in sys.argv[2:] if x.lstrip('-').isdigit()) or (0, 1, 2, 3), tier='quick',
                    budget=200)
    else:
        print(__doc__)
