"""shared by c11.py / c13.py: the relocation kinds of Model/Reloc.v, their ppci classes, Coq term rendering,
and the Python twin of Spec/RelocSpec.v (independent field decoders written from the ISA manuals)."""
import hashlib
import inspect

from vlib import OkV, Diag, Internal, to_term

# Coq constructor -> (arch for get_arch, module, class, relocation name, size)
KINDS = {
    'RvBImm12': ('riscv', 'ppci.arch.riscv.relocations', 'BImm12Relocation', 'b_imm12', 4),
    'RvBImm20': ('riscv', 'ppci.arch.riscv.relocations', 'BImm20Relocation', 'b_imm20', 4),
    'RvAbs32Imm20': ('riscv', 'ppci.arch.riscv.relocations', 'Abs32Imm20Relocation', 'abs32_imm20', 4),
    'RvRelImm20': ('riscv', 'ppci.arch.riscv.relocations', 'RelImm20Relocation', 'rel_imm20', 4),
    'RvAbs32Imm12': ('riscv', 'ppci.arch.riscv.relocations', 'Abs32Imm12Relocation', 'abs32_imm12', 4),
    'RvRelImm12': ('riscv', 'ppci.arch.riscv.relocations', 'RelImm12Relocation', 'rel_imm12', 4),
    'RvAbsAddr32': ('riscv', 'ppci.arch.riscv.relocations', 'AbsAddr32Relocation', None, 4),   # shadowed by data absaddr32
    'RvcCBImm11': ('riscv:rvc', 'ppci.arch.riscv.rvc_relocations', 'CBImm11Relocation', 'cb_imm11', 4),
    'RvcCBlImm11': ('riscv:rvc', 'ppci.arch.riscv.rvc_relocations', 'CBlImm11Relocation', 'cbl_imm11', 4),
    'RvcBcImm11': ('riscv:rvc', 'ppci.arch.riscv.rvc_relocations', 'BcImm11Relocation', 'bc_imm11', 2),
    'RvcBcImm8': ('riscv:rvc', 'ppci.arch.riscv.rvc_relocations', 'BcImm8Relocation', 'bc_imm8', 2),
    'ArmImm24': ('arm', 'ppci.arch.arm.arm_relocations', 'Imm24Relocation', 'imm24', 4),
    'ArmRel8': ('arm', 'ppci.arch.arm.arm_relocations', 'Rel8Relocation', 'rel8', 4),
    'ArmLdrImm12': ('arm', 'ppci.arch.arm.arm_relocations', 'LdrImm12Relocation', 'ldr_imm12', 4),
    'ArmAdrImm12': ('arm', 'ppci.arch.arm.arm_relocations', 'AdrImm12Relocation', 'adr_imm12', 4),
    'ThLit8': ('arm:thumb', 'ppci.arch.arm.thumb_relocations', 'Lit8Relocation', 'lit8', 2),
    'ThWrapNew11': ('arm:thumb', 'ppci.arch.arm.thumb_relocations', 'WrapNew11Relocation', 'wrap_new11', 2),
    'ThRel8': ('arm:thumb', 'ppci.arch.arm.thumb_relocations', 'Rel8Relocation', 'rel8', 2),
    'ThBlImm11': ('arm:thumb', 'ppci.arch.arm.thumb_relocations', 'BlImm11Relocation', 'bl_imm11', 4),
    'ThBImm11Imm6': ('arm:thumb', 'ppci.arch.arm.thumb_relocations', 'BImm11Imm6Relocation', 'b_imm11_imm6', 4),
    'X86Rel32': ('x86_64', 'ppci.arch.x86_64.instructions', 'Rel32JmpRelocation', 'rel32', 4),
    'X86Abs32': ('x86_64', 'ppci.arch.x86_64.instructions', 'Abs32Relocation', 'abs32', 4),
    'X86Jmp8': ('x86_64', 'ppci.arch.x86_64.instructions', 'Jmp8Relocation', 'jmp8', 1),
    'X86Abs64': ('x86_64', 'ppci.arch.x86_64.instructions', 'Abs64Relocation', 'abs64', 8),
    'DataAbs16': ('x86_64', 'ppci.arch.data_instructions', 'U16DataRelocation', 'absaddr16', 2),
    'DataAbs32': ('x86_64', 'ppci.arch.data_instructions', 'U32DataRelocation', 'absaddr32', 4),
    'DataAbs64': ('x86_64', 'ppci.arch.data_instructions', 'U64DataRelocation', 'absaddr64', 8),
}
ARCHS = ['arm', 'arm:thumb', 'avr', 'm68k', 'microblaze', 'mips', 'msp430', 'or1k', 'riscv', 'riscv:rvc', 'stm8',
         'x86_64', 'xtensa', 'mcs6500', 'example']


def get_class(kind):
    import importlib
    _, mod, cls, _, _ = KINDS[kind]
    return getattr(importlib.import_module(mod), cls)


def kind_of_class(cls):
    for k, (_, mod, cn, _, _) in KINDS.items():
        if cls.__module__ == mod and cls.__name__ == cn:
            return k
    return None


def impl_apply(kind, addend, S, data, P):
    """run cls(None, addend=A).apply(S, bytearray(data), P) -> OkV(list) | Diag (ValueError) | Internal"""
    cls = get_class(kind)
    try:
        r = cls(None, offset=0, addend=addend).apply(S, bytearray(data), P)
        return OkV(list(bytes(r)))
    except ValueError:
        return Diag
    except RecursionError:
        return Internal
    except Exception:   # noqa: BLE001
        return Internal


def apply_term(kind, addend, S, data, P):
    return 'apply %s %s %s %s %s' % (kind, w(addend), w(S), to_term(list(data)), w(P))


def w(v):
    return str(v) if v >= 0 else '(%d)' % v


def class_hash(cls):
    try:
        return hashlib.sha256(inspect.getsource(cls).encode()).hexdigest()[:16]
    except (OSError, TypeError):
        return None


# ---------------------------------------------------------------- Python twin of Spec/RelocSpec.v
def bits(wd, a, n):
    return (wd >> a) & ((1 << n) - 1)


def sext(n, x):
    x &= (1 << n) - 1
    return x - (1 << n) if x >> (n - 1) else x


def word(data):
    return int.from_bytes(bytes(data), 'little')


def rv_b_imm(wd):
    return sext(13, bits(wd, 8, 4) * 2 + bits(wd, 25, 6) * 32 + bits(wd, 7, 1) * 2048 + bits(wd, 31, 1) * 4096)


def rv_j_imm(wd):
    return sext(21, bits(wd, 21, 10) * 2 + bits(wd, 20, 1) * 2048 + bits(wd, 12, 8) * 4096 + bits(wd, 31, 1) * (1 << 20))


def rv_u_imm(wd):
    return sext(32, bits(wd, 12, 20) << 12)


def rv_i_imm(wd):
    return sext(12, bits(wd, 20, 12))


def rvc_j_imm(wd):
    return sext(12, bits(wd, 3, 3) * 2 + bits(wd, 11, 1) * 16 + bits(wd, 2, 1) * 32 + bits(wd, 7, 1) * 64
                + bits(wd, 6, 1) * 128 + bits(wd, 9, 2) * 256 + bits(wd, 8, 1) * 1024 + bits(wd, 12, 1) * 2048)


def rvc_b_imm(wd):
    return sext(9, bits(wd, 3, 2) * 2 + bits(wd, 10, 2) * 8 + bits(wd, 2, 1) * 32 + bits(wd, 5, 2) * 64
                + bits(wd, 12, 1) * 256)


def thumb_bl_off(wd):
    s = bits(wd, 10, 1)
    i1 = 1 if bits(wd, 29, 1) == s else 0
    i2 = 1 if bits(wd, 27, 1) == s else 0
    return sext(25, bits(wd, 16, 11) * 2 + bits(wd, 0, 10) * 4096 + i2 * (1 << 22) + i1 * (1 << 23) + s * (1 << 24))


# kind -> (reads(word, P) -> designated address, representable(S, A, P) -> bool, expected address (S, A, P))
# 'representable' is the ISA range of the field (signed width * scale, alignment), 'expected' what the property
# demands: S + A (the target / address designated). For pairs (hi/lo) see c11.py.
def single_specs():
    def rel(width, scale, bias, imm):
        return {'reads': lambda wd, P: P + bias + imm(wd),
                'fits': lambda S, A, P: (S + A - P - bias) % scale == 0 and
                -(1 << (width - 1)) * scale <= S + A - P - bias < (1 << (width - 1)) * scale,
                'width': width, 'scale': scale, 'bias': bias, 'pcrel': True}
    return {
        'RvBImm12': rel(12, 2, 0, rv_b_imm),
        'RvBImm20': rel(20, 2, 0, rv_j_imm),
        'RvcCBImm11': rel(20, 2, 0, rv_j_imm),
        'RvcCBlImm11': rel(20, 2, 0, rv_j_imm),
        'RvcBcImm11': rel(11, 2, 0, rvc_j_imm),
        'RvcBcImm8': rel(8, 2, 0, rvc_b_imm),
        'ArmImm24': rel(24, 4, 8, lambda wd: sext(26, bits(wd, 0, 24) * 4)),
        'ThWrapNew11': rel(11, 2, 4, lambda wd: sext(12, bits(wd, 0, 11) * 2)),
        'ThRel8': rel(8, 2, 4, lambda wd: sext(9, bits(wd, 0, 8) * 2)),
        'ThBlImm11': rel(24, 2, 4, thumb_bl_off),
        'X86Jmp8': rel(8, 1, 1, lambda wd: sext(8, wd)),
        # rel32: the field holds S + A - P; with the addend -4 used by every instruction the target is S
        'X86Rel32': {'reads': lambda wd, P: P + sext(32, wd),
                     'fits': lambda S, A, P: -(1 << 31) <= S + A - P < (1 << 31),
                     'width': 32, 'scale': 1, 'bias': 0, 'pcrel': True},
        'X86Abs32': {'reads': lambda wd, P: wd, 'fits': lambda S, A, P: 0 <= S + A < (1 << 32),
                     'width': 32, 'scale': 1, 'bias': 0, 'pcrel': False},
        'X86Abs64': {'reads': lambda wd, P: wd, 'fits': lambda S, A, P: 0 <= S + A < (1 << 64),
                     'width': 64, 'scale': 1, 'bias': 0, 'pcrel': False},
        'DataAbs16': {'reads': lambda wd, P: wd, 'fits': lambda S, A, P: 0 <= S + A < (1 << 16),
                      'width': 16, 'scale': 1, 'bias': 0, 'pcrel': False},
        'DataAbs32': {'reads': lambda wd, P: wd, 'fits': lambda S, A, P: 0 <= S + A < (1 << 32),
                      'width': 32, 'scale': 1, 'bias': 0, 'pcrel': False},
        'DataAbs64': {'reads': lambda wd, P: wd, 'fits': lambda S, A, P: 0 <= S + A < (1 << 64),
                      'width': 64, 'scale': 1, 'bias': 0, 'pcrel': False},
        'ThLit8': {'reads': lambda wd, P: (P + 4) // 4 * 4 + bits(wd, 0, 8) * 4,
                   'fits': lambda S, A, P: (S + A) % 4 == 0 and 0 <= S + A - (P + 4) // 4 * 4 < 1024,
                   'width': 8, 'scale': 4, 'bias': 4, 'pcrel': True, 'unsigned': True},
        'ArmLdrImm12': {'reads': lambda wd, P: P + 8 + (bits(wd, 0, 12) if bits(wd, 23, 1) else -bits(wd, 0, 12)),
                        'fits': lambda S, A, P: -4096 < S + A - P - 8 < 4096,
                        'width': 12, 'scale': 1, 'bias': 8, 'pcrel': True, 'signmag': True},
    }
