"""C15 — IR text format round-trips (DESIGN §4 C15; ppci/irutils/writer.py, reader.py, ir.py __str__).

tie H: coq/Model/IrText.v mirrors the printer (Writer + __str__) and the reader (tokenize, Reader.parse_*,
scopes + undefined_values/replace_by).  Correspondence on modules from tools/gen/irgen.py:
  (a) real text == model text (line by line, byte for byte),
  (b) real tokenize == model lex on the real text,
  (c) real read_module(text) (imported through tools/irimport.py) == model read_text(text), also on mutated texts.
The search oracle is independent of the model: the real read_module(print_module(m)) must be structurally equal to
m (irimport.module_to_py: names, types, constants as bit patterns, volatile flags, initial values; phi inputs
compared as sets because the text sorts them), print(read(print(m))) == print(m), and tools/irsem_py.run_main must give
the same observable result on the original and on the re-read module.

The model has one switch per defect for which a fix is proposed (Model.IrText.tcfg).  Each run probes the
implementation with one minimal witness per defect; a witness that still fails is a VIOLATION (or a KNOWN-FINDING)
and the correspondence then uses the model configured accordingly.
"""
import io
import os
import random
import re
import sys

sys.path.insert(0, os.path.join(os.path.dirname(os.path.dirname(os.path.abspath(__file__))), 'gen'))
from vlib import OkV, Internal, Diag, coq_str, coq_z, REPO  # noqa: E402

LEVEL = 'proof'
FLAGS = ('fx_init', 'fx_float', 'fx_fwd', 'fx_ops', 'fx_ru_generic', 'fx_ru_phi', 'fx_ru_call', 'fx_copyblob', 'fx_undef',
         'fx_volatile')
KNOWN = ()


# ---------------------------------------------------------------- helpers on the implementation
def real_text(m):
    from ppci.irutils import print_module
    f = io.StringIO()
    print_module(m, file=f, verify=False)
    return f.getvalue()


def real_read(text):
    from ppci.irutils import read_module
    return read_module(io.StringIO(text))


def canon(t, ignore_volatile=False):
    """canonical structure modulo what the text is not meant to carry: the order of phi inputs
    (ignore_volatile: also the volatile flags, a known finding that would mask later differences)"""
    name, exts, gvars, funcs = t
    out = []
    for f in funcs:
        blocks = []
        for b in f[4]:
            ins = []
            for i in b[2]:
                if i[0] == 'phi':
                    i = i[:4] + (sorted(i[4]),)
                if ignore_volatile and i[0] in ('load', 'store'):
                    i = i[:-1] + (False,)
                ins.append(i)
            blocks.append((b[0], b[1], ins))
        out.append(f[:4] + (blocks,))
    return (name, exts, gvars, out)


def oracle(irimport, m, sem=None, ignore_volatile=False):
    """None when print/read reproduces the module, else a short description (model independent)"""
    try:
        t1 = real_text(m)
    except Exception as ex:   # noqa: BLE001
        return 'print raises %s: %s' % (type(ex).__name__, str(ex)[:80])
    try:
        m2 = real_read(t1)
    except Exception as ex:   # noqa: BLE001
        return 'read raises %s: %s' % (type(ex).__name__, str(ex)[:80])
    try:
        a = canon(irimport.module_to_py(m), ignore_volatile)
        b = canon(irimport.module_to_py(m2, allow_dangling=True), ignore_volatile)
    except irimport.NotRepresentable as ex:
        return 'not representable: %s' % ex
    d = irimport.diff_py(a, b)
    if d is not None:
        return d
    t2 = real_text(m2)
    if t2 != t1:
        la, lb = t1.split('\n'), t2.split('\n')
        k = next((i for i in range(min(len(la), len(lb))) if la[i] != lb[i]), min(len(la), len(lb)))
        return 'text differs after re-read at line %d: %r / %r' % (k + 1, la[k:k + 1], lb[k:k + 1])
    if sem is not None:
        return sem(m, m2)
    return None


def sem_compare(irgen, irsem):
    def cmp(m, m2, seed=5):
        rng = random.Random(seed)
        for f in m.functions[-2:]:
            args = irgen.gen_args(rng, f)
            try:
                r1 = irsem.run_main(m, f.name, args, 3000)
                r2 = irsem.run_main(m2, f.name, args, 3000)
            except Exception as ex:   # noqa: BLE001
                return 'interpreter raises %s' % type(ex).__name__
            r1 = r1.v if isinstance(r1, OkV) else r1
            r2 = r2.v if isinstance(r2, OkV) else r2
            if r1 != r2:
                return 'behaviour differs on %s%r: %r / %r' % (f.name, tuple(args), r1, r2)
        return None
    return cmp


def classify(d):
    if d is None:
        return None
    if 'Lex fault' in d:
        return 'lex-fault'
    if 'NotImplementedError: inf' in d or 'NotImplementedError: nan' in d:
        return 'nonfinite-float-not-read'
    if 'NotImplementedError' in d:
        return 'rol-ror-not-read'
    if 'behaviour differs' in d:
        return 'behaviour-differs'
    if "KeyError: 'memcpy'" in d:
        return 'copyblob-not-read'
    if 'KeyError: <ppci.ir.Undefined' in d:
        return 'forward-double-use-replace_use'
    if 'KeyError' in d:
        return 'undefined-instruction-not-read'
    if 'unres' in d:
        return 'forward-call-argument-not-replaced'
    if 'TypeError' in d or 'ValueError: Type mismatch' in d or 'Type mismatch' in d:
        return 'forward-operand-type'
    if 'IrParseException' in d:
        return 'parse-error'
    if '<store>' in d or '<load>' in d:
        return 'volatile-lost'
    if 'bytes' in d or "'ref'" in d or ('None' in d and 'gvar' in d):
        return 'variable-value-lost'
    if d.startswith('module'):
        tags = re.findall(r'<([a-z]+)>', d)
        return 'structural-difference' + (' in ' + tags[-1] if tags else '')
    if d.startswith('text differs'):
        return 'text-differs-after-reread'
    return 'other: ' + d[:70]


# ---------------------------------------------------------------- witnesses (one per defect)
def _proc(ir, name='m'):
    m = ir.Module(name)
    f = ir.Procedure('pr', ir.Binding.GLOBAL)
    m.add_function(f)
    b = ir.Block('entry')
    f.add_block(b)
    f.entry = b
    return m, f, b


def witnesses(ir):
    out = {}
    m = ir.Module('m')
    m.add_variable(ir.Variable('g', ir.Binding.GLOBAL, 4, 4, b'\x01\x02\x03\x04'))
    out['fx_init'] = [m]
    ms = []
    for x in (1e30, float('inf'), float('-inf'), float('nan'), 1.5e-7):
        m, f, b = _proc(ir)
        b.add_instruction(ir.Const(x, 'c', ir.f64))
        b.add_instruction(ir.Exit())
        ms.append(m)
    out['fx_float'] = ms

    def fwd(mk, xty):
        m, f, b = _proc(ir)
        b1, b2 = ir.Block('b1'), ir.Block('b2')
        f.add_block(b1)
        f.add_block(b2)
        b.add_instruction(ir.Jump(b2))
        x = ir.Const(3, 'x', xty)
        b2.add_instruction(x)
        b2.add_instruction(ir.Jump(b1))
        for i in mk(m, x):
            b1.add_instruction(i)
        b1.add_instruction(ir.Exit())
        return m
    out['fx_fwd'] = [fwd(lambda m, x: [ir.Unop('-', x, 'y', ir.i32)], ir.i32)]
    m, f, b = _proc(ir)
    b1, b2 = ir.Block('b1'), ir.Block('b2')
    f.add_block(b1)
    f.add_block(b2)
    b.add_instruction(ir.Jump(b2))
    x = ir.Const(3, 'x', ir.i64)
    b2.add_instruction(x)
    b2.add_instruction(ir.Jump(b1))
    k = ir.Const(1, 'k', ir.i64)
    b1.add_instruction(k)
    b1.add_instruction(ir.Binop(x, '+', k, 'y', ir.i64))
    b1.add_instruction(ir.Exit())
    out['fx_fwd'].append(m)
    ms = []
    for op in ('rol', 'ror'):
        m, f, b = _proc(ir)
        a = ir.Const(3, 'a', ir.i32)
        b.add_instruction(a)
        b.add_instruction(ir.Binop(a, op, a, 'r', ir.i32))
        b.add_instruction(ir.Exit())
        ms.append(m)
    m, f, b = _proc(ir)
    a = ir.Const(3, 'a', ir.i32)
    b.add_instruction(a)
    b.add_instruction(ir.Unop('~', a, 'r', ir.i32))
    b.add_instruction(ir.Exit())
    ms.append(m)
    out['fx_ops'] = ms
    # known findings (no fix proposed)
    m, f, b = _proc(ir)
    a = ir.Alloc('a', 4, 4)
    b.add_instruction(a)
    p = ir.AddressOf(a, 'p')
    b.add_instruction(p)
    c = ir.Const(1, 'c', ir.i32)
    b.add_instruction(c)
    b.add_instruction(ir.Store(c, p, volatile=True))
    b.add_instruction(ir.Load(p, 'l', ir.i32, volatile=True))
    b.add_instruction(ir.Exit())
    out['fx_volatile'] = [m]
    m, f, b = _proc(ir)
    a = ir.Alloc('a', 4, 4)
    b.add_instruction(a)
    p = ir.AddressOf(a, 'p')
    b.add_instruction(p)
    b.add_instruction(ir.CopyBlob(p, p, 4))
    b.add_instruction(ir.Exit())
    out['fx_copyblob'] = [m]
    m, f, b = _proc(ir)
    b.add_instruction(ir.Undefined('u', ir.i32))
    b.add_instruction(ir.Exit())
    out['fx_undef'] = [m]
    # the replace_use defects of ppci/ir.py (repaired in /repo: 2d6a9c1, e4350a7, 283ca09)
    out['fx_ru_generic'] = [fwd(lambda m, x: [ir.Store(x, x)], ir.ptr)]

    def phi2(m, x):
        f = m.functions[0]
        p = ir.Phi('y', ir.i32)
        p.set_incoming(f.blocks[0], x)
        p.set_incoming(f.blocks[2], x)
        return [p]
    out['fx_ru_phi'] = [fwd(phi2, ir.i32)]

    def call2(m, x):
        e = ir.ExternalProcedure('xp', [ir.i32, ir.i32])
        m.add_external(e)
        return [ir.ProcedureCall(e, [x, x])]
    out['fx_ru_call'] = [fwd(call2, ir.i32)]
    return out


# ---------------------------------------------------------------- rendering of cases
FLOAT_LEX = re.compile(r'-?\d+\.\d+(?:e[-+]?\d+)?|-?\d+e[-+]?\d+|-?inf|nan')


def float_tables(irimport, m, texts=()):
    """(tr, tp): bits -> repr text for the constants of m; bits of float(lexeme) for every lexeme"""
    from ppci import ir
    tr = {}
    if m is not None:
        for f in m.functions:
            for b in f.blocks:
                for i in b.instructions:
                    if isinstance(i, ir.Const) and isinstance(i.value, float):
                        tr[irimport.float_bits(i.value)] = repr(i.value)
    lex = set(tr.values())
    for t in texts:
        lex.update(FLOAT_LEX.findall(t))
        lex.update(re.findall(r'-?\d+\.\d+', t))
        lex.update(re.findall(r'\d+\.\d+(?:e[-+]?\d+)?|\d+e[-+]?\d+|inf|nan', t))
    tp = []
    for s in sorted(lex):
        try:
            tp.append((irimport.float_bits(float(s)), s))
        except ValueError:
            pass
    return sorted(tr.items()), tp


def repr_class(x):
    """the lexer-relevant class of repr(x): (sign, mantissa form, exponent sign) or a word"""
    r = repr(x)
    if r.lstrip('-') in ('inf', 'nan'):
        return r
    body = r.lstrip('-')
    mant, _, exp = body.partition('e')
    return ('-' if r.startswith('-') else '+', 'frac' if '.' in mant else 'int',
            'e' + exp[0] if exp else 'none')


def float_pool(rng, extra=40):
    """float constants generated from the spellings repr() can produce: sign x mantissa form (integral / with a
    fraction) x exponent (none / e+NN / e-NN), the words inf, -inf, nan, the IEEE boundary values, and random ones.
    Returns (list of floats, {class: count}).  (nan with sign or payload is excluded: repr prints 'nan', the text
    cannot carry it.)"""
    xs = []
    for sg in ('', '-'):
        for mant in ('1', '2', '5', '7', '1.5', '2.25', '1.7976931348623157', '2.2250738585072014', '9.999999999999999'):
            for ex in ('', 'e+16', 'e+22', 'e+30', 'e+300', 'e+308', 'e-05', 'e-07', 'e-100', 'e-308', 'e-320', 'e-324'):
                try:
                    x = float(sg + mant + ex)
                except ValueError:
                    continue
                xs.append(x)
        for lit in ('0.0', '1.0', '123456789.0', '1000000000000000.0', '1e16', '9999999999999998.0', '0.1', '0.0001',
                    '0.00001', '3.141592653589793', 'inf', '5e-324', '2.225073858507201e-308', '2.2250738585072014e-308',
                    '1.7976931348623157e+308', '1.1754943508222875e-38', '3.4028234663852886e+38', '1.401298464324817e-45',
                    '16777216.0', '0.333333343267441'):
            xs.append(float(sg + lit))
    xs.append(float('nan'))
    for _ in range(extra):
        k = rng.randrange(4)
        if k == 0:
            x = rng.choice((1, 2, 3, 5, 9)) * 10.0 ** rng.randint(-320, 308)
        elif k == 1:
            import struct
            x = struct.unpack('<d', struct.pack('<Q', rng.getrandbits(64)))[0]
        elif k == 2:
            x = float(rng.randint(-10 ** 17, 10 ** 17))
        else:
            x = rng.uniform(-1, 1) * 10.0 ** rng.randint(-30, 30)
        if x != x:
            continue
        xs.append(x if rng.random() < 0.5 else -x)
    seen, out, classes = set(), [], {}
    for x in xs:
        r = repr(x)
        if r in seen:
            continue
        seen.add(r)
        out.append(x)
        c = str(repr_class(x))
        classes[c] = classes.get(c, 0) + 1
    return out, classes


def float_modules(ir, xs, name='fl', per=24):
    """modules whose only content is float constants (f64 and f32) from xs"""
    mods = []
    for j in range(0, len(xs), per):
        m = ir.Module('%s%d' % (name, j // per))
        f = ir.Procedure('pr', ir.Binding.GLOBAL)
        m.add_function(f)
        b = ir.Block('entry')
        f.add_block(b)
        f.entry = b
        for i, x in enumerate(xs[j:j + per]):
            b.add_instruction(ir.Const(x, 'c%d' % i, ir.f64 if i % 3 else ir.f32))
        b.add_instruction(ir.Exit())
        mods.append(m)
    return mods


NEAR_MISSES = ['-', '1e', '1e+', '1e-', '.5', '5.', '--1', '-.5', '1e5', '1E+5', '1.5e', '1.5e+', '1.e+5', '1.5.5', '-inf',
               '-info', '-inf_', '-inf1', 'inf', 'nan', '-nan', '- inf', '- 1e+30', '-1e+30', '-1e-05', '1e+30x', '+1e+5',
               '1e+-5', '-1.5e+30', '-0.0', '-0', '00.5', '1e+05', '-5e-324', '1.0e+', 'e+5', '1_0', '1-e5', '-1e', '-1.e5',
               '-2e+22;', '(-1e+16)', '=-1e-07', '- -1e+30', '-1e+30-1e+30', '1e+30e+30', '-inf-inf', '-1.5-inf']


def lexer_cases(irimport, cfg, xs):
    """token-level pool: every spelling repr() produces for xs, with and without a leading '-', plus near-misses;
    one case per spelling (real tokenize vs model lex)"""
    spell = []
    for x in xs:
        r = repr(x)
        spell += [r, r.lstrip('-'), '-' + r.lstrip('-'), 'f64 c = ' + r + ';']
    seen, cases, recs = set(), [], []
    for sp in spell + NEAR_MISSES:
        if sp in seen:
            continue
        seen.add(sp)
        text = sp + '\n'
        _, tp = float_tables(irimport, None, [text])
        cases.append(('case_lex %s %s %s' % (cfg, tab_term(tp), lines_term(text)), impl_lex(irimport, text)))
        recs.append(('lex-spelling', None, text))
    return cases, recs


def tab_term(tab):
    return '[%s]' % '; '.join('(%s, %s)' % (coq_z(b), coq_str(s)) for b, s in tab)


def lines_term(text):
    assert text == '' or text.endswith('\n')
    return '[%s]' % '; '.join(coq_str(l) for l in text.split('\n')[:-1])


def printable_ascii(text):
    return all(ch == '\n' or 32 <= ord(ch) < 127 for ch in text)


def cfg_term(flags):
    return '(mk_tcfg %s)' % ' '.join('true' if flags[k] else 'false' for k in FLAGS)


def real_tokens(irimport, text):
    from ppci.irutils.reader import tokenize
    out = []
    for typ, val, _, _ in tokenize([l.rstrip() for l in io.StringIO(text)]):
        if typ == 'eof':
            break
        if typ == 'FLOAT':
            val = irimport.float_bits(val)
        out.append((typ, val))
    return out


def impl_lex(irimport, text):
    from ppci.irutils.reader import IrParseException
    try:
        return OkV(real_tokens(irimport, text))
    except IrParseException:
        return Diag
    except Exception:   # noqa: BLE001
        return Internal


def impl_read(irimport, text, strict=True):
    from ppci.irutils.reader import IrParseException
    try:
        m2 = real_read(text)
    except IrParseException:
        return Diag
    except Exception:   # noqa: BLE001
        return Internal
    try:
        return OkV(irimport.module_to_py(m2, allow_dangling=True))
    except irimport.NotRepresentable:
        return Internal


def has_unres(t):
    """does the canonical structure contain a dangling reference ('unres', name)?"""
    if isinstance(t, tuple):
        if len(t) == 2 and t[0] == 'unres':
            return True
        return any(has_unres(x) for x in t)
    if isinstance(t, list):
        return any(has_unres(x) for x in t)
    return False


def mutate(rng, text):
    """a small malformed stream: delete / duplicate / replace one token-ish piece of one line"""
    lines = text.split('\n')[:-1]
    idx = [k for k, l in enumerate(lines) if l.strip()]
    k = rng.choice(idx)
    parts = re.findall(r'\s+|[A-Za-z_][A-Za-z0-9_]*|-?\d+(?:\.\d+)?|.', lines[k])
    j = rng.randrange(len(parts))
    how = rng.randrange(4)
    if how == 0:
        del parts[j]
    elif how == 1:
        parts.insert(j, parts[j])
    elif how == 2:
        parts[j] = rng.choice(['x9', '7', '-3', '1.5', ';', ',', ':', '{', '}', '(', ')', '=', '&', '-', 'phi', 'i32', 'ptr',
                               "'0a'", 'cast', '+', '<', '?', 'blob', 'rol', '~', '1e+30', 'inf', '$'])
    else:
        lines[k], lines[(k + 1) % len(lines)] = lines[(k + 1) % len(lines)], lines[k]
        return '\n'.join(lines) + '\n'
    lines[k] = ''.join(parts)
    return '\n'.join(lines) + '\n'


def correspond(ctx, flags, mods, lex_pool=()):
    """run model and implementation on the same modules/texts; returns (bad indices, recs, cases)"""
    import irimport
    cfg = cfg_term(flags)
    bad = []
    cases, recs = [], []
    dist = {'print_ok': 0, 'print_exc': 0, 'read_ok': 0, 'read_diag': 0, 'read_internal': 0, 'mutants': 0,
            'mutant_read_ok': 0, 'skipped_nonascii': 0}
    nontriv = 0
    for idx, m in enumerate(mods):
        term = irimport.module_to_coq(m)
        try:
            text = real_text(m)
            pv = OkV(text.split('\n')[:-1])
            dist['print_ok'] += 1
        except Exception:   # noqa: BLE001
            text, pv = None, Internal
            dist['print_exc'] += 1
        tr, tp = float_tables(irimport, m, [text] if text else [])
        cases.append(('case_print %s %s (%s)' % (cfg, tab_term(tr), term), pv))
        recs.append(('print', m, None))
        # hypotheses of c15_roundtrip: wf && printable (model) must imply that the real round trip succeeded
        tab = [(b, s2) for b, s2 in tr if irimport.float_bits(float(s2)) == b]
        real_ok = oracle(irimport, m, ignore_volatile=not flags.get('fx_volatile', False)) is None
        dist['real_roundtrip_ok'] = dist.get('real_roundtrip_ok', 0) + real_ok
        cases.append(('case_hyp %s %s (%s) %s' % (cfg, tab_term(tab), term, 'true' if real_ok else 'false'), True))
        recs.append(('theorem-hypotheses', m, text))
        if text is None or not printable_ascii(text):
            dist['skipped_nonascii'] += text is not None
            continue
        cases.append(('case_lex %s %s %s' % (cfg, tab_term(tp), lines_term(text)), impl_lex(irimport, text)))
        recs.append(('lex', m, text))
        rv = impl_read(irimport, text)
        dist['read_ok' if isinstance(rv, OkV) else 'read_diag' if rv is Diag else 'read_internal'] += 1
        nontriv += 1 if (isinstance(rv, OkV) and m.functions) else 0
        # texts that cannot be read: only the fact that reading fails is compared (the model lexes the whole
        # text first, Python lexes lazily, so the FIRST fault reported can differ when a text has several)
        cases.append(('okfail (case_read %s %s %s)' % (cfg, tab_term(tp), lines_term(text)),
                      rv if isinstance(rv, OkV) else Internal))
        recs.append(('read', m, text))
        if idx % 3 == 0:
            mt = mutate(ctx.rng, text)
            if printable_ascii(mt):
                _, tp2 = float_tables(irimport, None, [mt])
                rv = impl_read(irimport, mt)
                dist['mutants'] += 1
                dist['mutant_read_ok'] += isinstance(rv, OkV)
                # faulty texts: only the fact that reading fails is compared
                # a read that leaves dangling references (placeholder never defined, or a reference into another
                # function: both are 'unres' for irimport) counts as failed on both sides
                cases.append(('case_read_strict %s %s %s' % (cfg, tab_term(tp2), lines_term(mt)),
                              rv if isinstance(rv, OkV) and not has_unres(rv.v) else Internal))
                recs.append(('read-mutant', m, mt))
    if lex_pool:
        lc, lr = lexer_cases(irimport, cfg, lex_pool)
        dist['lexer_spellings'] = len(lc)
        cases += lc
        recs += lr
    ctx.cov['distinct_nontrivial'] += nontriv
    ctx.cov['stages']['correspondence_distribution'] = dist
    if ctx.build(['Model/IrText.vo'])[0]:
        bad = ctx.run_cases('irtext', ['Spec.IRSyntax', 'Model.IrText'], cases, shard=60)
        if bad:
            for i in bad[:5]:
                ctx.log('model/implementation disagree:', recs[i][0], 'module', recs[i][1].name if recs[i][1] else '-')
                if recs[i][2]:
                    ctx.log(recs[i][2][:600])
            ctx.failed_stages.append(('correspondence', 'Model.IrText disagrees with ppci.irutils on %d cases, first: %s of module %s'
                                      % (len(bad), recs[bad[0]][0], recs[bad[0]][1].name if recs[bad[0]][1] else repr(recs[bad[0]][2]))))


    return bad, recs, cases


def run(ctx):
    from vlib import ensure_repo_on_path
    ensure_repo_on_path()
    import irgen
    import irimport
    import irsem_py
    from ppci import ir
    import logging
    logging.getLogger('verifier').setLevel(logging.ERROR)

    regen(ctx)
    ok, _ = ctx.build(['Proofs/C15_irtext.vo', 'Proofs/C15_compose.vo'])
    if ok:
        ctx.check_props('Props/C15.v')

    # ---- 1. witnesses: replayed on the implementation on every run
    wit = witnesses(ir)
    flags = {}
    for k in FLAGS + KNOWN:
        ds = [oracle(irimport, m) for m in wit[k]]
        bad = [(j, d) for j, d in enumerate(ds) if d is not None]
        if k in FLAGS:
            flags[k] = not bad
        if bad:
            j, d = bad[0]
            ctx.violation({'fn': 'read_module(print_module(m))', 'key': k, 'class': classify(d), 'witness': '%s[%d]' % (k, j),
                           'text': _safe_text(wit[k][j]), 'difference': d, 'failing_witnesses': len(bad),
                           'how_to_replay': 'PYTHONPATH=%s /venv/bin/python -c "import sys; sys.path[:0]=[\'/verif/tools\',\'/verif/tools/gen\']; '
                                            'from props import c15; c15.replay_witness(%r)"' % (REPO, k)})
    ctx.cov['stages']['implementation_flags'] = flags
    cfg = cfg_term(flags)

    # ---- 2. correspondence on generated modules
    n = 150 if ctx.quick() else 1500
    mods = [m for k in sorted(wit) for m in wit[k]]
    for k in range(n):
        feats = None if k % 4 else tuple(f for f in irgen.ALL_FEATURES if f != 'shuffle')
        mods.append(irgen.gen_module(ctx.rng, size=1 + k % 4, features=feats, name='m%d' % k))
    for m in mods[len(mods) - n::max(1, n // 5)][:5]:
        ctx.note_sample({'module': m.name, 'stats': m.stats()})
    xs, classes = float_pool(ctx.rng, extra=40 if ctx.quick() else 400)
    ctx.cov['stages']['float_pool'] = {'values': len(xs), 'repr_classes': classes}
    mods += float_modules(ir, xs)
    correspond(ctx, flags, mods, lex_pool=xs)

    # ---- 3. search (independent oracle), deeper when something failed or tier is thorough
    search(ctx, deep=(not ctx.quick()) or bool(ctx.failed_stages))
    ctx.cov['exhaustive'] = False


def _safe_text(m):
    try:
        return real_text(m)
    except Exception as ex:   # noqa: BLE001
        return 'print_module raises %s' % type(ex).__name__


def search(ctx, deep=False):
    from vlib import ensure_repo_on_path
    ensure_repo_on_path()
    import irgen
    import irimport
    import irsem_py
    import logging
    logging.getLogger('verifier').setLevel(logging.ERROR)
    n = 1500 if deep else 300
    seed = ctx.seed * 7919 + 15
    rng = random.Random(seed)
    sem = sem_compare(irgen, irsem_py)
    classes = {}
    from ppci import ir
    wit = witnesses(ir)
    fixed3 = all(oracle(irimport, m) is None for k3 in ('fx_copyblob', 'fx_undef', 'fx_volatile') for m in wit[k3])
    xs, fcls = float_pool(rng, extra=400 if deep else 100)
    for j, m in enumerate(float_modules(ir, xs, name='sf', per=12)):
        d = oracle(irimport, m)
        if d is None:
            continue
        c = classify(d)
        classes[c] = classes.get(c, 0) + 1
        if classes[c] == 1:
            ctx.violation({'fn': 'read_module(print_module(m))', 'key': c, 'class': c, 'difference': d,
                           'generator': {'seed': seed, 'float_module': j}, 'text': _safe_text(m)[:4000]})
    ctx.cov['stages']['oracle_search_floats'] = {'values': len(xs), 'repr_classes': len(fcls)}
    for k in range(n):
        # odd k: without the instruction kinds / flags that are known findings, so that the rest of such modules is
        # compared too (a module that cannot be read at all hides every other difference)
        feats = None if k % 2 == 0 else tuple(f for f in irgen.ALL_FEATURES if fixed3 or f not in ('copyblob', 'undefined'))
        if k % 4 == 3:   # + locals/parameters named like module-level values, calls to later functions (irgen extras)
            feats = feats + tuple(getattr(irgen, 'EXTRA_FEATURES', ()))
        m = irgen.gen_module(rng, size=1 + k % 4, features=feats, name='s%d' % k)
        d = oracle(irimport, m, sem=sem if k % 5 == 0 else None, ignore_volatile=(k % 2 == 1 and not fixed3))
        if d is None:
            continue
        c = classify(d)
        classes[c] = classes.get(c, 0) + 1
        if classes[c] == 1:
            ctx.violation({'fn': 'read_module(print_module(m))', 'key': c, 'class': c, 'difference': d,
                           'generator': {'seed': seed, 'index': k}, 'text': _safe_text(m)[:4000]})
    ctx.cov['stages']['oracle_search'] = {'modules': n, 'failure_classes': classes}
    ctx.cov['evaluations'] += n


def forward_double_use(t):
    """does some instruction of the canonical module t use a value defined LATER in print order (or itself) in two
    operand slots / as a repeated call argument?  Those hit the ir.replace_use defects (known findings)."""
    for f in t[3]:
        defined = 0
        for b in f[4]:
            for i in b[2]:
                if i[0] == 'phi':
                    refs = [r for _, r in i[4]]
                elif i[0] == 'callf':
                    refs = [i[4]] + list(i[5])
                elif i[0] == 'callp':
                    refs = [i[1]] + list(i[2])
                else:
                    refs = [x for x in i[1:] if isinstance(x, tuple) and len(x) == 2 and x[0] in ('loc', 'glob', 'param')]
                fwd = [r for r in refs if r[0] == 'loc' and r[1] > defined]
                if len(fwd) != len(set(fwd)):
                    return True
                if i[0] in ('const', 'binop', 'unop', 'cast', 'load', 'alloc', 'addressof', 'literal', 'phi',
                            'undefined', 'callf'):
                    defined = i[1]
    return False


CORPUS_FEATURES = ('diamond', 'loop', 'selfloop', 'dupedge', 'alloca', 'volatile', 'globals', 'calls', 'extern', 'casts',
                   'floats', 'literal', 'shuffle', 'ub', 'bigconst', 'ptrarith', 'rot', 'initref', 'copyblob', 'undefined')


def corpus_modules(irgen, irimport, count=60):
    rng = random.Random(1500)
    mods = []
    k = 0
    while len(mods) < count and k < 400:
        feats = CORPUS_FEATURES if k % 2 else tuple(f for f in CORPUS_FEATURES if f != 'shuffle')
        m = irgen.gen_module(rng, size=1 + k % 3, features=feats, name='c%d' % k)
        k += 1
        mods.append(m)   # incl. modules with a double use of a later-defined value (replace_use is repaired)
    from ppci import ir
    xs, _ = float_pool(rng, extra=30)
    return mods + float_modules(ir, xs, name='cf', per=40)


def regen(ctx):
    """Gen/c15_corpus.v: generated modules (fixed seed) with their float tables for the bounded theorem"""
    from vlib import ensure_repo_on_path
    ensure_repo_on_path()
    import irgen
    import irimport
    mods = corpus_modules(irgen, irimport)
    text = ['(* generated by tools/props/c15.py from tools/gen/irgen.py (seed 1500); do not edit *)',
            'From PV Require Import Lib.Py Spec.IRSyntax.', 'From Coq Require Import String.', 'Open Scope Z_scope.',
            'Definition corpus : list (list (Z * string) * modul) := [']
    items = []
    for m in mods:
        tr, _ = float_tables(irimport, m)
        # the same table serves as fr (bits -> repr) and fp (repr -> bits): float(repr(x)) == x
        tab = [(b, s) for b, s in tr if irimport.float_bits(float(s)) == b]
        items.append('(%s, %s)' % (tab_term(tab), irimport.module_to_coq(m)))
    text.append(';\n'.join(items))
    text.append('].')
    ctx.write_gen('c15_corpus', '\n'.join(text) + '\n')
    ctx.cov['stages']['gen_c15_corpus'] = {'modules': len(mods)}
    return mods


def replay_witness(k):
    from vlib import ensure_repo_on_path
    ensure_repo_on_path()
    import irimport
    from ppci import ir
    for m in witnesses(ir)[k]:
        print(k, '->', oracle(irimport, m))


RULE = ('modules from tools/gen/irgen.py (seeded; all features incl. shuffled block order, volatile, initialised globals, '
        'copyblob, undefined, float bit patterns incl. inf/nan/huge/tiny, big and negative constants, rol/ror, ~) plus '
        'hand-made witnesses; per module: one printer case (real text vs model text, line by line), one lexer case (real '
        'tokenize vs model lex), one reader case (real read_module vs model read_text on the real text), and for every '
        'third module a reader case on a mutated text; non-trivial = module with at least one function whose real text is '
        'read back successfully')
EXPLANATION = ('Coq theorems about Model.IrText (hand model of Writer + __str__ and of tokenize + Reader + name resolution; '
               'tcfg_fixed = /repo incl. fixes/C15-*.diff). Unbounded: c15_roundtrip: for every well-formed printable module the '
               'printed characters are read back (lexer, parser, name resolution with forward references / placeholders / '
               'replace_by) to the normal form of the module, which prints identically; proved layer by layer: c15_lex_render + '
               'c15_layout_lexable (maximal-munch argument for the tokenizer model, every printer layout is lexable), '
               'c15_module_parse (+16 per-kind theorems, statement/block/function), c15_resolve_roundtrip (reader-state invariant: '
               'scopes = definitions seen so far, not yet defined references = placeholders, define_value = substitution). '
               'Refutations: 6 for the baseline code (initial values of globals lost; exponent-form and non-finite floats, '
               'rol/ror, ~ unreadable; operands defined later rejected), 3 replace_use defects of ir.py (repaired in /repo), 3 for '
               'the code before fixes/C15-copyblob-reader, C15-undefined-type, C15-volatile-marker.diff (volatile lost, CopyBlob / '
               'Undefined unreadable; with the three repairs c15_wave3_fixed, c15_volatile_kept and c15_norm_keeps_volatile show '
               'that volatile flags survive and the normal form only sorts phi inputs), each replayed on the implementation. The bounded corpus '
               'theorem (67 modules) is kept as a cross-check of the definitions. printable = decidable: names are identifiers, float '
               'repr texts are FLOAT lexemes that read back to the same bits, constructor checks of ppci.ir hold, phi not empty, '
               'CopyBlob / Undefined / volatile only when the corresponding repair is in (switch probed on every run). Every run evaluates wf && printable in the model for each generated module '
               'and requires the real round trip to have succeeded whenever they hold. InlineAsm/JumpTable are outside Spec.IRSyntax.')
TRUSTED = ['hand model coq/Model/IrText.v (cross-checked against ppci.irutils on every run: text, tokens, reader result)',
           'the model reader is lex ; parse ; resolve while Python interleaves them lazily: for texts with several faults '
           'only the fact that reading fails is compared',
           'tools/irimport.py (ppci.ir objects -> Coq syntax; ids in print order)',
           'CPython: float(repr(x)) == x bit for bit for every non-NaN float, repr(nan) == "nan" reads back as the '
           'canonical quiet NaN (float constants are carried as bit patterns, their repr text is supplied per case)',
           'str(int)/int(str) are inverse (the model prints integers with Coq DecimalString)',
           'Model.IrJson.patch_instr (ir.replace_use) shared with C16']
ASSUMPTIONS = ['well-formed = Spec.IRSyntax.wf_modul; printable = Model.IrText.printable (names are identifiers '
               '[A-Za-z][A-Za-z0-9_]*, float repr texts are lexemes and fp (fr b) = b, constructor checks of ppci.ir hold, no '
               'CopyBlob/Undefined/volatile unless the reader repair is applied, phi with at least one input, rol/ror not applied to a '
               'value named like an instruction keyword)',
               'normal form = the module with phi inputs sorted by block name; before fixes/C15-volatile-marker.diff also without '
               'volatile flags (reported as a finding, not hidden)',
               'c15_roundtrip needs fx_fwd and the replace_use switches on: true for the current /repo (all C15 fixes and the '
               'ir.replace_use fixes are applied); the check probes these switches on every run']
MANIFEST = {
    'text': 'proof: for every well-formed printable IR module the text printed by Writer/__str__ is lexed, parsed and resolved '
            'back to the normal form of the module (volatile flags dropped, phi inputs sorted), which prints identically '
            '(c15_roundtrip, unbounded, proved in Coq on the hand model: lexer layer, every declaration and instruction kind, '
            'name resolution with forward references). The baseline code violated the property in 6 ways (refuted in Coq, '
            'replayed, 4 fix diffs applied); volatile flags, CopyBlob and Undefined are refuted for the code before their three '
            'repairs (3 further fix diffs), after which the normal form only sorts phi inputs',
    'note': 'trusted: hand model Model/IrText.v (differentially checked against Writer/tokenize/Reader on ~1500 cases per '
            'quick run incl. ~600 token spellings, and the theorem hypotheses are evaluated per generated module), irimport, '
            'CPython float repr/float. The model reader is lex;parse;resolve, Python interleaves them (same result on success).',
    'technique': 'hand model + Coq proof + differential correspondence',
}
