"""C33 — integer range sets behave as mathematical sets (DESIGN §4 C33).

tie H: coq/Model/IntegerSet.v is a hand model of ppci/utils/integer_set.py; Props/C33.v states the
theorems (unbounded: all lists of ranges over Z) about that model against Spec/IntSetSpec.v
(denote / canonical).  The model is tied to the current source by a differential correspondence
run on every check (every pair of subsets of a small universe, each built from arbitrary
overlapping / adjacent / nested / empty input ranges, plus random big ranges), and an independent
search oracle (Python `set` semantics) looks for a concrete failing input on the implementation.
"""
import itertools
import json
import random

from vlib import OkV, Internal, to_term

LEVEL = 'proof'
RULE = ('correspondence cases: one case = one ordered pair (A, B) of constructor argument lists; the case compares '
        'ctor(A), ctor(B), union, intersection, difference, symmetric_difference, ==, empty, cardinality, iteration and '
        'contains(z) for every z of the universe +-2 between model and implementation.  Quick: every ordered pair of '
        'subsets of the 5-element universe {-2..2} (1024 pairs), each subset written as a seeded random list of '
        'overlapping / nested / adjacent ranges, ints, duplicates and empty ranges (a > b), shuffled; plus 300 pairs of '
        'random sets with endpoints up to 2^70 (clustered so that ranges touch/overlap).  Thorough: the 7-element '
        'universe {-3..3} exhaustively (16384 pairs) plus 1500 big pairs.  distinct non-trivial = distinct (A, B) '
        'argument pair in which at least one of the two denoted sets is non-empty')
EXPLANATION = ('Unbounded Coq theorems about the hand model Model/IntegerSet.v: constructor and every set operation return '
               'the canonical form and denote exactly the set-algebra result; contains, cardinality, iteration and == agree '
               'with the denoted set; algebraic laws hold as equalities of the returned ranges (union comm/assoc/idem, a&b == b&a, '
               'a^b == (a|b)-(a&b), a-(b|c) == (a-b)&(a-c), a&b == a-(a-b)) with fuel bounds over the inputs only (results never '
               'have more ranges than the operands).  The model/implementation correspondence and the Python-set oracle are the tie to the '
               'source (re-run on every check), not part of the proof')
TRUSTED = ['coq/Model/IntegerSet.v is a hand transcription of ppci/utils/integer_set.py (cross-checked against the '
           'implementation on every run: >= 1300 argument pairs x 11 observations)',
           'Python sorted() on 2-tuples of int returns the ascending permutation under tuple order (modelled by insertion sort)',
           'bisect.bisect(a, x) obeys its documented contract on a sorted list (partition point: a[:i] <= x < a[i:]); the '
           'model uses that contract; the binary search of Lib/bisect.py is additionally modelled (bisect_bs) and proved '
           'equal to the contract on sorted input (c33_bisect_contract)',
           'Python tuple comparison (value,) < (a, b)  <=>  value <= a;  Python int arithmetic == Coq Z',
           'iterator pair (current, rest) modelled as a list; generators modelled by their yield sequence']
ASSUMPTIONS = ['constructor arguments are ints or 2-tuples of ints (other types: TypeError / int() conversion are not modelled)',
               'the ranges attribute of an IntegerSet is only ever set by the constructor (theorems about binary operations '
               'assume canonical operands, which c33_ctor_canonical establishes for every constructed set)',
               'iteration/cardinality theorems are about the mathematical sequence; len() of a set with more than '
               'sys.maxsize members raises OverflowError in CPython (cardinality() does not)']

MOD = 'Model.IntegerSetObs'
PROOFS = ['Proofs/C33_intset.vo', 'Proofs/C33_laws.vo']


# ------------------------------------------------------------------ input generation
def runs_of(subset):
    """maximal runs [(a, b)] of a set of ints"""
    out = []
    for z in sorted(subset):
        if out and out[-1][1] + 1 == z:
            out[-1][1] = z
        else:
            out.append([z, z])
    return [tuple(r) for r in out]


def random_repr(rng, subset, lo, hi):
    """an arbitrary constructor argument list denoting exactly `subset` (ints in lo..hi):
    overlapping, nested, adjacent pieces, single ints, duplicates, empty ranges, shuffled"""
    vals = []
    for (a, b) in runs_of(subset):
        pos = a
        while pos <= b:
            e = rng.randint(pos, b)
            start = rng.randint(a, pos)          # reaches back: overlap; == pos: adjacent piece
            if start == e and rng.random() < 0.6:
                vals.append(e)                   # a bare int
            else:
                vals.append((start, e))
            pos = e + 1
        for _ in range(rng.randrange(0, 2)):     # nested / duplicate extra pieces
            c = rng.randint(a, b)
            d = rng.randint(c, b)
            vals.append((c, d) if rng.random() < 0.7 or c != d else c)
    for _ in range(rng.randrange(0, 3)):         # empty ranges anywhere (dropped by the constructor)
        c = rng.randint(lo - 2, hi + 2)
        d = rng.randint(lo - 3, c - 1)
        vals.append((c, d))
    rng.shuffle(vals)
    return vals


def big_values(rng):
    """a random argument list over big integers, clustered so that ranges overlap / touch"""
    k = rng.choice([8, 16, 31, 32, 33, 63, 64, 65, 70])
    base = rng.choice([0, 1 << k, -(1 << k), rng.randrange(-(1 << k), 1 << k)])
    spread = rng.choice([6, 12, 40, 1 << 20, 1 << k])
    vals = []
    for _ in range(rng.randrange(0, 7)):
        a = base + rng.randrange(-spread, spread + 1)
        t = rng.random()
        if t < 0.2:
            vals.append(a)
        elif t < 0.3:
            vals.append((a, a - rng.randrange(1, 4)))           # empty
        else:
            vals.append((a, a + rng.choice([0, 1, 2, 3, spread // 3, spread, 1 << k])))
    return vals, base, spread


def value_term(v):
    if isinstance(v, tuple):
        return 'IRange %s %s' % (wrap(to_term(v[0])), wrap(to_term(v[1])))
    return 'IInt %s' % wrap(to_term(v))


def wrap(t):
    return t if t.startswith('(') or t.isalnum() else '(%s)' % t


def values_term(vals):
    return '[%s]' % '; '.join(value_term(v) for v in vals)


def model_term(A, B, zs, with_iter):
    """Model/IntegerSetObs.v obs: (ctor A, ctor B, A|B, A&B, A-B, A^B, A==B, A.empty(), |A|, [z in A], list(A))"""
    return 'obs %s %s %s %s' % ('true' if with_iter else 'false', values_term(A), values_term(B), to_term(list(zs)))


def ranges_of(s):
    return [tuple(r) for r in s.ranges]


def impl_value(IS, A, B, zs, with_iter):
    try:
        a, b = IS(*A), IS(*B)
        out = [ranges_of(a), ranges_of(b), ranges_of(a | b), OkV(ranges_of(a & b)), OkV(ranges_of(a - b)),
               OkV(ranges_of(a ^ b)), a == b, a.empty(), a.cardinality(), [OkV(bool(z in a)) for z in zs]]
        if with_iter:
            out.append(list(a))
        return tuple(out)
    except Exception:   # noqa: BLE001
        return Internal


def gen_cases(ctx, thorough):
    """[(A, B, zs, with_iter)]"""
    rng = ctx.rng
    lo, hi = (-3, 3) if thorough else (-2, 2)
    uni = list(range(lo, hi + 1))
    zs = list(range(lo - 2, hi + 3))
    subsets = [frozenset(c) for k in range(len(uni) + 1) for c in itertools.combinations(uni, k)]
    cases = []
    for sa in subsets:
        for sb in subsets:
            cases.append((random_repr(rng, sa, lo, hi), random_repr(rng, sb, lo, hi), zs, True))
    nsmall = len(cases)
    for _ in range(1500 if thorough else 300):
        A, base, spread = big_values(rng)
        if rng.random() < 0.5:
            B = [(base + rng.randrange(-spread, spread + 1), base + rng.randrange(-spread, 2 * spread + 1))
                 for _ in range(rng.randrange(0, 5))]
        else:
            B, _, _ = big_values(rng)
        pts = set()
        for v in A + B:
            for e in (v if isinstance(v, tuple) else (v,)):
                pts.update([e - 1, e, e + 1])
        zsb = sorted(pts)[:40]
        cases.append((A, B, zsb, False))
    ctx.cov['stages']['correspondence_inputs'] = {
        'universe': [lo, hi], 'subset_pairs': nsmall, 'big_pairs': len(cases) - nsmall,
        'observations_per_pair': 11}
    return cases


# ------------------------------------------------------------------ independent oracle (Python set semantics)
def expected_set(vals):
    s = set()
    for v in vals:
        if isinstance(v, tuple):
            s.update(range(v[0], v[1] + 1))
        else:
            s.add(v)
    return s


def is_canonical(ranges):
    prev = None
    for r in ranges:
        if not (isinstance(r, tuple) and len(r) == 2 and r[0] <= r[1]):
            return False
        if prev is not None and not (r[0] > prev[1] + 1):
            return False
        prev = r
    return True


def replay_cmd(fn, args):
    return ("PYTHONPATH=/repo /venv/bin/python -c \"from ppci.utils.integer_set import IntegerSet as S; "
            "A=S(*%r); B=S(*%r); print('%s', A.ranges, B.ranges, [(A|B),(A&B),(A-B),(A^B)], A==B, list(A), len(A))\""
            % (args[0], args[1] if len(args) > 1 else [], fn))


def oracle_pair(ctx, IS, A, B, zs):
    """implementation vs Python sets on one pair of argument lists; reports at most one violation; returns #checks"""
    ea, eb = expected_set(A), expected_set(B)

    def bad(fn, exp, act, args=None):
        ctx.violation({'fn': fn, 'args': [list(map(jsonable, A)), list(map(jsonable, B))] if args is None else args,
                       'expected': exp, 'actual': act, 'how_to_replay': replay_cmd(fn, [A, B])})
        return True
    try:
        a, b = IS(*A), IS(*B)
        n = 0
        for (fn, s, e) in (('constructor', a, ea), ('union', a | b, ea | eb), ('intersection', a & b, ea & eb),
                           ('difference', a - b, ea - eb), ('symmetric_difference', a ^ b, ea ^ eb)):
            n += 1
            got = list(s)
            if got != sorted(e):
                return bad(fn, sorted(e), got) and n
            if not is_canonical(s.ranges):
                return bad(fn + ' (result not in canonical form)', 'sorted, non-overlapping, non-adjacent ranges',
                           [list(r) for r in s.ranges]) and n
            if len(s) != len(e) or s.cardinality() != len(e) or bool(s) != bool(e) or s.empty() != (not e):
                return bad(fn + ' (cardinality/empty)', len(e), s.cardinality()) and n
        n += 3
        if (a == b) != (ea == eb) or (ea == eb and hash(a) != hash(b)):
            return bad('__eq__', ea == eb, a == b) and n
        for z in zs:
            if (z in a) != (z in ea):
                return bad('contains', z in ea, z in a, [list(map(jsonable, A)), z]) and n
        # algebraic laws through the implementation's own == (c33_union_laws, c33_inter_comm, c33_symdiff_law,
        # c33_demorgan_law, c33_double_diff_law): equal sets must compare equal, so these follow from the property
        c = IS(*(A[:1] + B[-1:]))
        for (law, l, r) in (('a|b == b|a', a | b, b | a), ('(a|b)|c == a|(b|c)', (a | b) | c, a | (b | c)),
                            ('a|a == a', a | a, a), ('a&b == b&a', a & b, b & a),
                            ('a^b == (a|b)-(a&b)', a ^ b, (a | b) - (a & b)),
                            ('a-(b|c) == (a-b)&(a-c)', a - (b | c), (a - b) & (a - c)),
                            ('a&b == a-(a-b)', a & b, a - (a - b))):
            n += 1
            if not (l == r) or hash(l) != hash(r):
                return bad('law ' + law, [list(x) for x in l.ranges], [list(x) for x in r.ranges]) and n
        return n
    except Exception as ex:   # noqa: BLE001
        bad('exception', 'no exception', repr(ex))
        return 1


def jsonable(v):
    return list(v) if isinstance(v, tuple) else v


def oracle_sweep(ctx, IS, deep):
    rng = random.Random(ctx.seed + 33)
    n = 0
    lo, hi = (0, 7) if deep else (0, 5)
    uni = list(range(lo, hi + 1))
    zs = list(range(lo - 2, hi + 3))
    subsets = [frozenset(c) for k in range(len(uni) + 1) for c in itertools.combinations(uni, k)]
    # exhaustive: every ordered pair of subsets, canonical-run arguments and one random representation each
    reps = {s: [list(runs_of(s)), random_repr(rng, s, lo, hi)] + ([random_repr(rng, s, lo, hi)] if deep else [])
            for s in subsets}
    for sa in subsets:
        for sb in subsets:
            k = rng.randrange(len(reps[sa]))
            for (A, B) in ((reps[sa][0], reps[sb][0]), (reps[sa][k], reps[sb][rng.randrange(len(reps[sb]))])):
                n += oracle_pair(ctx, IS, A, B, zs)
                if len(ctx.violations) >= 8:
                    return n
    # every multiset of <= 3 arbitrary (possibly empty) ranges over a 4-point line: constructor merge boundaries
    pts = range(0, 5)
    allr = [(a, b) for a in pts for b in pts]
    for k in range(0, 3 if not deep else 4):
        for A in itertools.product(allr, repeat=k):
            n += oracle_pair(ctx, IS, list(A), [(1, 2)], list(range(-1, 7)))
            if len(ctx.violations) >= 8:
                return n
    # random big: point-based (sets too large to materialise)
    for _ in range(3000 if deep else 400):
        A, base, spread = big_values(rng)
        B, _, _ = big_values(rng)
        n += oracle_pair_big(ctx, IS, A, B)
        if len(ctx.violations) >= 8:
            return n
    return n


def member(vals, z):
    return any((v[0] <= z <= v[1]) if isinstance(v, tuple) else v == z for v in vals)


def oracle_pair_big(ctx, IS, A, B):
    """sets too large to enumerate: membership is constant between consecutive critical points
    (range starts and ends+1 of the inputs), so comparing membership at every critical point and its
    neighbours, plus canonical form, plus the segment-sum cardinality decides set equality exactly"""
    crit = set()
    for v in A + B:
        a, b = v if isinstance(v, tuple) else (v, v)
        if a <= b:
            crit.update([a, b + 1])
    P = sorted(crit)
    probe = sorted(set(z + d for z in P for d in (-1, 0, 1)))
    ops = (('constructor', lambda a, b: a, lambda x, y: x), ('union', lambda a, b: a | b, lambda x, y: x or y),
           ('intersection', lambda a, b: a & b, lambda x, y: x and y),
           ('difference', lambda a, b: a - b, lambda x, y: x and not y),
           ('symmetric_difference', lambda a, b: a ^ b, lambda x, y: x != y))
    n = 0
    try:
        a, b = IS(*A), IS(*B)
        for (fn, f, g) in ops:
            s = f(a, b)
            n += 1
            exp_card = sum((P[i + 1] - P[i]) for i in range(len(P) - 1) if g(member(A, P[i]), member(B, P[i])))
            what = None
            if not is_canonical(s.ranges):
                what = ('result not in canonical form', [list(r) for r in s.ranges])
            elif s.cardinality() != exp_card:
                what = ('cardinality %d expected' % exp_card, s.cardinality())
            else:
                for z in probe:
                    e = g(member(A, z), member(B, z))
                    if (z in s) != e or any(r[0] <= z <= r[1] for r in s.ranges) != e:
                        what = ('membership of %d should be %s' % (z, e), [list(r) for r in s.ranges])
                        break
            if what:
                ctx.violation({'fn': fn, 'args': [list(map(jsonable, A)), list(map(jsonable, B))],
                               'expected': what[0], 'actual': what[1], 'how_to_replay': replay_cmd(fn, [A, B])})
                return n
    except Exception as ex:   # noqa: BLE001
        ctx.violation({'fn': 'exception', 'args': [list(map(jsonable, A)), list(map(jsonable, B))],
                       'expected': 'no exception', 'actual': repr(ex), 'how_to_replay': replay_cmd('exception', [A, B])})
        return n + 1
    return n


def load_impl():
    from vlib import ensure_repo_on_path
    ensure_repo_on_path()
    import importlib
    import ppci.utils.integer_set as m
    importlib.reload(m)
    return m.IntegerSet


def search(ctx):
    IS = load_impl()
    n = oracle_sweep(ctx, IS, True)
    ctx.cov['stages']['oracle_sweep'] = n
    ctx.cov['evaluations'] += n


def regen(ctx):
    """tie H: nothing is generated; record the hash of the modelled source for the evidence"""
    import hashlib
    import os
    import vlib
    p = os.path.join(vlib.REPO, 'ppci/utils/integer_set.py')
    ctx.cov['stages']['source'] = {'file': 'ppci/utils/integer_set.py',
                                   'sha256': hashlib.sha256(open(p, 'rb').read()).hexdigest()}


def run(ctx):
    IS = load_impl()
    regen(ctx)
    ok, _ = ctx.build(PROOFS)
    if ok:
        ctx.check_props('Props/C33.v')
    # ---- correspondence: hand model vs implementation
    if ctx.build(['Model/IntegerSetObs.vo', 'Lib/Val.vo'])[0]:
        gen = gen_cases(ctx, not ctx.quick())
        cases, seen, nontriv = [], set(), 0
        for (A, B, zs, with_iter) in gen:
            key = (repr(A), repr(B))
            if key not in seen:
                seen.add(key)
                if expected_nonempty(A) or expected_nonempty(B):
                    nontriv += 1
            cases.append((model_term(A, B, zs, with_iter), impl_value(IS, A, B, zs, with_iter)))
        ctx.cov['distinct_nontrivial'] += nontriv
        for (A, B, zs, wi) in gen[:: max(1, len(gen) // 8)]:
            a, b = IS(*A), IS(*B)
            ctx.note_sample({'A': repr(A), 'B': repr(B), 'A-B': repr(a - b), 'A&B': repr(a & b), 'A^B': repr(a ^ b)})
        bad = ctx.run_cases('intset', ['Model.IntegerSet', MOD], cases)
        if bad:
            for i in bad[:5]:
                ctx.log('model/implementation disagree on A=%r B=%r' % (gen[i][0], gen[i][1]))
            ctx.failed_stages.append(('correspondence', 'Model.IntegerSet disagrees with ppci.utils.integer_set on %d '
                                      'argument pairs, first: A=%r B=%r' % (len(bad), gen[bad[0]][0], gen[bad[0]][1])))
    # ---- independent oracle: always (cheap), deep when a stage failed or tier is thorough
    n = oracle_sweep(ctx, IS, (not ctx.quick()) or bool(ctx.failed_stages))
    ctx.cov['stages']['oracle_sweep'] = n
    ctx.cov['evaluations'] += n
    ctx.cov['exhaustive'] = False


def expected_nonempty(vals):
    return any((v[0] <= v[1]) if isinstance(v, tuple) else True for v in vals)


def replay(rec):
    """re-execute a recorded counterexample on the implementation; exit 1 while it still fails"""
    IS = load_impl()

    class C:   # minimal ctx
        violations = []

        def violation(self, r):
            self.violations.append(r)
            print('STILL FAILING:', json.dumps(r, default=str)[:600])
    c = C()
    args = rec.get('args', [[], []])

    def unj(l):
        return [tuple(v) if isinstance(v, list) else v for v in l]
    A = unj(args[0])
    B = unj(args[1]) if len(args) > 1 and isinstance(args[1], list) else []
    zs = set(range(-3, 10))
    if len(args) > 1 and isinstance(args[1], int):
        zs.add(args[1])
    oracle_pair(c, IS, A, B, sorted(zs))
    if not c.violations:
        print('replay: implementation now agrees with Python set semantics on this input')
    return 1 if c.violations else 0


MANIFEST = {
    'text': 'proof: unbounded Coq theorems (every list of ranges over Z) that IntegerSet construction, union, intersection, '
            'difference and symmetric difference return the canonical form (sorted, non-overlapping, non-adjacent, non-empty '
            'ranges) and denote exactly the corresponding set-algebra result; that contains, cardinality, iteration and == agree '
            'with the denoted set (canonical forms are unique, so equal sets compare equal); set-algebra laws (union laws, '
            'intersection commutes, a^b == (a|b)-(a&b), De Morgan for the relative complement, a&b == a-(a-b)) hold as equalities '
            'of the returned representations',
    'note': 'the theorems are about a hand model (coq/Model/IntegerSet.v) of ppci/utils/integer_set.py; the model is tied to the '
            'source by a differential run on every check (all pairs of subsets of a 5-element universe, 7-element in the thorough '
            'tier, each written as arbitrary overlapping/adjacent/empty input ranges, plus random big ranges) and an independent '
            'Python-set oracle. Trusted: Coq kernel, the hand transcription, sorted() and bisect contracts, Python int == Z. No axioms.',
    'technique': 'Coq proof over hand model + differential correspondence + set oracle',
}
