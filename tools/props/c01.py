"""C01 — the C front-end preserves the meaning of defined-behaviour C programs (DESIGN §4 C01). PARTIAL.

Spec : coq/Spec/CExprSpec.v (C11 integer expressions over variables, on top of Spec/CIntSpec.v).
Model: coq/Model/CGenExpr.v (tie H): typing of CSemantics (elab), lowering of CCodeGenerator to IR trees
       (low / lower / lcond), their execution with Spec/IRSem's arithmetic (xrun / crun) and the exact CFG
       linearisation (emit_fn).  Proofs/C01_expr.v, Props/C01.v: typing + value preservation for every
       expression on which ppci's typing is the C typing, for every target whose IR type map is faithful.
Check: (a) model vs real:  emit_fn (model) == irimport(c_to_ir(`T f(T0 a0, ...) { return e; }`)) structurally,
           and xrun of the model tree == tools/irsem_py on the REAL IR, on boundary argument vectors;
       (b) search: real IR executed by irsem_py vs the independent Python reading of the spec (xev below,
           cross-checked against the Coq spec and, on LP64, against gcc);
       (c) statements (validation only): generated UB-free programs (if/while/for/switch/arrays/structs/
           calls/globals) executed by irsem_py vs the same source compiled by gcc -O0 (ubsan filters UB).
"""
import io
import logging
import os
import re
import subprocess
import sys
import tempfile

sys.path.insert(0, os.path.dirname(os.path.abspath(__file__)))
sys.path.insert(0, os.path.dirname(os.path.dirname(os.path.abspath(__file__))))
import cintspec as S  # noqa: E402
from vlib import OkV, REPO  # noqa: E402

LEVEL = 'other'
RULE = ('random typed expression trees (depth <= 6; 10 integer types x casts x 4 unary / 18 binary operators, ?:, '
        'comma, = and op= on parameters; literals from boundary pools; 2-3 parameters) rendered to '
        '`T f(T0 a0, T1 a1[, T2 a2]) { return e; }` for x86_64 (LP64), arm (ILP32), msp430 (16-bit int), run on '
        'boundary argument vectors; distinct non-trivial = distinct (target, source, argument vector) triples whose C '
        'value is defined (spec /= None) and that were executed on the real IR; plus generated statement programs')
EXPLANATION = ('PARTIAL (level other). Proved in Coq, unbounded over expressions / statements, stores, fuel and data models: '
               '(1) the type CSemantics assigns = the C11 type (c01_expr_typing); (2) the IR trees CCodeGenerator builds evaluate '
               '(Spec/IRSem arithmetic) to the C value and final store (c01_expr_value) for integer expressions over literals, '
               'locals, casts, - ~ ! +, + - * / % << >> & | ^, comparisons, && || ?:, comma, = and op=, wherever ppci typing '
               'coincides with C typing (agrees: everywhere for the current typing code except op=, and without exception with '
               'fixes/C01-compound-assign.diff: c01_expr_value_unconditional) and the IR type map is faithful (x86_64, arm; not '
               'msp430); (3) c01_stmt_exact: the statement skeleton gen_stmt builds for compound / expression statements / '
               'initialised declarations / if / if-else / while / do-while / for / break / continue / return ends with the same '
               'outcome and store as the C big-step semantics Spec/CStmtSpec.v; (4) c01_ptr_arith_exact for the scaling of '
               'pointer +/- integer; per-operator, cast, comparison and short-circuit theorems; refuted theorems with witnesses '
               'for the historical typing defects, op= and the unsigned-int-as-i16 map. NOT proved: the linearisation of the '
               'trees / skeletons into basic blocks (emit_fn, emit_fn_stmt: compared structurally with the real c_to_ir output and '
               'executed on every run), parser, declarations without initialiser, switch, goto, arrays, structs, calls, pointer '
               'comparison / difference / indexing (differential execution against gcc / an independent evaluator only).')
TRUSTED = ['hand models Model/CGenExpr.v (elab, low, emit_fn) — compared per run with the real c_to_ir output (structure) '
           'and with the real IR executed by tools/irsem_py.py (values)',
           'Spec/IRSem.v arithmetic (eval_binop/eval_unop/eval_cast/eval_const/eval_cond) as the meaning of IR; the tree '
           'runner xrun/crun of Model/CGenExpr.v as the meaning of the small CFG fragments (validated by executing the '
           'real CFG with irsem_py)',
           'the reading of C11 in Spec/CIntSpec.v + Spec/CExprSpec.v (cross-checked with the Python reading and gcc)',
           'tools/irimport.py, tools/irsem_py.py, gcc -O0 with -fsanitize=undefined as the statement oracle']
ASSUMPTIONS = ['implementation-defined behaviour as gcc: signed conversion wraps, >> of negatives is arithmetic (gcc and ppci '
               'both shift arithmetically; the TYPE of a shift - the promoted left operand, also for <<= and >>= - is not '
               'implementation-defined, C11 6.5.7p3, and is what the shift family checks with negative left values)',
               'char is signed, 8 bits; short 16 bits (CContext.type_size_map literals)',
               '6.5p2 (unsequenced conflicting accesses) is undefined: such expressions are outside the statement']
TARGETS = ['x86_64', 'arm', 'msp430']
DMNAME = {'x86_64': 'LP64', 'arm': 'ILP32', 'msp430': 'INT16'}
IMPORTS = ['Spec.CIntSpec', 'Spec.CExprSpec', 'Model.CEval', 'Model.CGenExpr', 'Spec.IRSyntax', 'Spec.IRSem',
           'Model.CGenExprRun']

logging.getLogger().addHandler(logging.NullHandler())

# ------------------------------------------------------------------ the spec, read independently in Python
# trees: S's ('lit',t,v) ('cast',t,e) ('un',op,e) ('bin',op,a,b) ('cond',c,a,b) plus
#        ('var', n) ('comma', a, b) ('asg', n, e) ('asgop', op, n, e)
COMPOUND = ('+', '-', '*', '/', '%', '<<', '>>', '&', '|', '^')


def xtype(dm, te, e):
    k = e[0]
    if k in ('lit', 'cast'):
        return e[1]
    if k == 'var':
        return te[e[1]]
    if k == 'un':
        return 'int' if e[1] == '!' else S.promote(dm, xtype(dm, te, e[2]))
    if k == 'bin':
        op = e[1]
        if op in S.CMP or op in ('&&', '||'):
            return 'int'
        if op in ('<<', '>>'):
            return S.promote(dm, xtype(dm, te, e[2]))
        return S.uac(dm, S.promote(dm, xtype(dm, te, e[2])), S.promote(dm, xtype(dm, te, e[3])))
    if k == 'cond':
        return S.uac(dm, S.promote(dm, xtype(dm, te, e[2])), S.promote(dm, xtype(dm, te, e[3])))
    if k == 'comma':
        return xtype(dm, te, e[2])
    if k == 'asg':
        return te[e[1]]
    if k == 'asgop':
        return te[e[2]]
    raise ValueError(k)


def _binval(dm, ta, tb, op, va, vb):
    return S.ev(dm, ('bin', op, ('lit', ta, va), ('lit', tb, vb)))


def xev(dm, te, st, e):
    """(value, store) or None (undefined behaviour); operands left to right"""
    k = e[0]
    if k == 'lit':
        return (e[2], st) if S.fits(dm, e[1], e[2]) else None
    if k == 'var':
        return (st[e[1]], st)
    if k == 'cast':
        r = xev(dm, te, st, e[2])
        return None if r is None else (S.convert(dm, e[1], r[0]), r[1])
    if k == 'un':
        r = xev(dm, te, st, e[2])
        if r is None:
            return None
        v = S.ev(dm, ('un', e[1], ('lit', xtype(dm, te, e[2]), r[0])))
        return None if v is None else (v, r[1])
    if k == 'cond':
        r = xev(dm, te, st, e[1])
        if r is None:
            return None
        x = e[2] if r[0] != 0 else e[3]
        r2 = xev(dm, te, r[1], x)
        return None if r2 is None else (S.convert(dm, xtype(dm, te, e), r2[0]), r2[1])
    if k == 'comma':
        r = xev(dm, te, st, e[1])
        return None if r is None else xev(dm, te, r[1], e[2])
    if k == 'asg':
        r = xev(dm, te, st, e[2])
        if r is None:
            return None
        v = S.convert(dm, te[e[1]], r[0])
        s2 = list(r[1])
        s2[e[1]] = v
        return (v, tuple(s2))
    if k == 'asgop':
        op, n, b = e[1], e[2], e[3]
        va = st[n]                       # x is read first (natural order); seq_ok makes the order irrelevant
        r = xev(dm, te, st, b)
        if r is None:
            return None
        v = _binval(dm, te[n], xtype(dm, te, b), op, va, r[0])
        if v is None:
            return None
        v = S.convert(dm, te[n], v)
        s2 = list(r[1])
        s2[n] = v
        return (v, tuple(s2))
    op, a, b = e[1], e[2], e[3]
    ra = xev(dm, te, st, a)
    if ra is None:
        return None
    if op == '&&':
        if ra[0] == 0:
            return (0, ra[1])
        rb = xev(dm, te, ra[1], b)
        return None if rb is None else (int(rb[0] != 0), rb[1])
    if op == '||':
        if ra[0] != 0:
            return (1, ra[1])
        rb = xev(dm, te, ra[1], b)
        return None if rb is None else (int(rb[0] != 0), rb[1])
    rb = xev(dm, te, ra[1], b)
    if rb is None:
        return None
    v = _binval(dm, xtype(dm, te, a), xtype(dm, te, b), op, ra[0], rb[0])
    return None if v is None else (v, rb[1])


def rw(e):
    """(reads, writes) sets of variable indices"""
    k = e[0]
    if k == 'lit':
        return set(), set()
    if k == 'var':
        return {e[1]}, set()
    if k == 'asg':
        r, w = rw(e[2])
        return r, w | {e[1]}
    if k == 'asgop':
        r, w = rw(e[3])
        return r | {e[2]}, w | {e[2]}
    r, w = set(), set()
    for x in e[1:]:
        if isinstance(x, tuple):
            r2, w2 = rw(x)
            r |= r2
            w |= w2
    return r, w


def seq_ok(e):
    k = e[0]
    if k in ('lit', 'var'):
        return True
    if k == 'asg':
        return seq_ok(e[2]) and e[1] not in rw(e[2])[1]
    if k == 'asgop':
        return seq_ok(e[3]) and e[2] not in rw(e[3])[1]
    subs = [x for x in e[1:] if isinstance(x, tuple)]
    if not all(seq_ok(x) for x in subs):
        return False
    if k == 'bin' and e[1] not in ('&&', '||'):
        (ra, wa), (rb, wb) = rw(e[2]), rw(e[3])
        return not (wa & (rb | wb)) and not (wb & (ra | wa))
    return True


def ceval(dm, te, st, e):
    return xev(dm, te, tuple(st), e) if seq_ok(e) else None


# ---- ppci's typing (mirrors Model/CGenExpr.agrees): None = inside the proved fragment, else the defect class
def ppci_pp(sv, dm, t):
    if S.rank(t) >= 3:
        return t
    return 'int' if sv == 'orig' else S.promote(dm, t)


def ppci_cm(sv, dm, a, b):
    return S.ppci_common(a, b) if sv == 'orig' else S.uac(dm, a, b)


def classify(sv, dm, te, e):
    k = e[0]
    if k in ('lit', 'var'):
        return None
    subs = [x for x in e[1:] if isinstance(x, tuple)]
    for x in subs:
        c = classify(sv, dm, te, x)
        if c:
            return c

    def pa(x):
        t = xtype(dm, te, x)
        return ppci_pp(sv, dm, t) == S.promote(dm, t)

    def ca(x, y):
        px, py = S.promote(dm, xtype(dm, te, x)), S.promote(dm, xtype(dm, te, y))
        return ppci_cm(sv, dm, px, py) == S.uac(dm, px, py)
    if k == 'un' and e[1] != '!':
        return None if pa(e[2]) else 'promote'
    if k == 'cond':
        if not (pa(e[2]) and pa(e[3])):
            return 'promote'
        return None if ca(e[2], e[3]) else 'common-type'
    if k == 'bin' and e[1] not in ('&&', '||'):
        if not (pa(e[2]) and pa(e[3])):
            return 'promote'
        if e[1] in ('<<', '>>'):
            return None
        return None if ca(e[2], e[3]) else 'common-type'
    if k == 'asgop':
        tx, tb = te[e[2]], xtype(dm, te, e[3])
        if sv == 'c11a':
            return None
        if e[1] in ('<<', '>>'):
            ok = S.promote(dm, tx) == tx
        else:
            ok = S.uac(dm, S.promote(dm, tx), S.promote(dm, tb)) == tx
        return None if ok else 'compound-assign'
    return None


def types_in(dm, te, e):
    """every C type a value takes while e is evaluated with C typing: node types, the promoted operand types and
    the common types of the implicit conversions (6.3.1.1, 6.3.1.8)"""
    out = {xtype(dm, te, e)}
    k = e[0]
    subs = [x for x in e[1:] if isinstance(x, tuple)]
    for x in subs:
        out |= types_in(dm, te, x)
    if k == 'un' and e[1] != '!':
        out.add(S.promote(dm, xtype(dm, te, e[2])))
    elif k == 'bin' and e[1] not in ('&&', '||'):
        pa, pb = S.promote(dm, xtype(dm, te, e[2])), S.promote(dm, xtype(dm, te, e[3]))
        out |= {pa, pb}
        if e[1] not in ('<<', '>>'):
            out.add(S.uac(dm, pa, pb))
    elif k == 'cond':
        pa, pb = S.promote(dm, xtype(dm, te, e[2])), S.promote(dm, xtype(dm, te, e[3]))
        out |= {pa, pb, S.uac(dm, pa, pb)}
    elif k == 'asgop':
        pa, pb = S.promote(dm, te[e[2]]), S.promote(dm, xtype(dm, te, e[3]))
        out |= {te[e[2]], pa, pb}
        if e[1] not in ('<<', '>>'):
            out.add(S.uac(dm, pa, pb))
    elif k == 'asg':
        out.add(te[e[1]])
    return out


IR_SHAPE = {'i8': (8, True), 'i16': (16, True), 'i32': (32, True), 'i64': (64, True),
            'u8': (8, False), 'u16': (16, False), 'u32': (32, False), 'u64': (64, False)}


def unfaithful_types(march):
    """C types whose exported IR type has another width or signedness (hypothesis `faithful` of the theorems)"""
    tg = target(march)
    return [t for t in S.TYPES if IR_SHAPE.get(tg['irt'][t]) != (S.nbits(tg['dm'], t), S.signed(tg['dm'], t))]


def fragment_class(march, te, rt, d):
    """None = inside the proved fragment (agrees + faithful on every type the evaluation goes through); else the
    class of the first reason why not.  d is the desugared tree."""
    dm = target(march)['dm']
    cls = classify(sema_variant(), dm, te, d)
    if cls:
        return cls
    bad = set(unfaithful_types(march)) & (types_in(dm, te, d) | set(te) | {rt})
    if bad:
        return 'uint-lowered-as-signed-i16' if bad == {'uint'} and target(march)['irt']['uint'] == 'i16' \
            else 'unfaithful-ir-type'
    return None


# ------------------------------------------------------------------ rendering
def desugar(dm, e):
    k = e[0]
    if k == 'lit':
        return S.lit_tree(dm, e[1], e[2])
    if k == 'var':
        return e
    return tuple(desugar(dm, x) if isinstance(x, tuple) else x for x in e)


def render(dm, e):
    k = e[0]
    if k == 'lit':
        return S.c_lit(dm, e[1], e[2])
    if k == 'var':
        return 'a%d' % e[1]
    if k == 'cast':
        return '((%s)%s)' % (S.C_T[e[1]], render(dm, e[2]))
    if k == 'un':
        return '(%s %s)' % (e[1], render(dm, e[2]))
    if k == 'bin':
        return '(%s %s %s)' % (render(dm, e[2]), e[1], render(dm, e[3]))
    if k == 'cond':
        return '(%s ? %s : %s)' % tuple(render(dm, x) for x in e[1:])
    if k == 'comma':
        return '(%s , %s)' % (render(dm, e[1]), render(dm, e[2]))
    if k == 'asg':
        return '(a%d = %s)' % (e[1], render(dm, e[2]))
    if k == 'asgop':
        return '(a%d %s= %s)' % (e[2], e[1], render(dm, e[3]))
    raise ValueError(k)


def c_function(dm, te, rt, e, name='f'):
    return '%s %s(%s) { return %s; }' % (S.C_T[rt], name, ', '.join('%s a%d' % (S.C_T[t], i) for i, t in enumerate(te)),
                                         render(dm, e))


def coq_cx(e):
    k = e[0]
    if k == 'lit':
        return '(XLit %s %s)' % (S.COQ_T[e[1]], S.coq_z(e[2]))
    if k == 'var':
        return '(XVar %d)' % e[1]
    if k == 'cast':
        return '(XCast %s %s)' % (S.COQ_T[e[1]], coq_cx(e[2]))
    if k == 'un':
        return '(XUn %s %s)' % (S.UNOPS[e[1]], coq_cx(e[2]))
    if k == 'bin':
        return '(XBin %s %s %s)' % (S.BINOPS[e[1]], coq_cx(e[2]), coq_cx(e[3]))
    if k == 'cond':
        return '(XCond %s %s %s)' % tuple(coq_cx(x) for x in e[1:])
    if k == 'comma':
        return '(XComma %s %s)' % (coq_cx(e[1]), coq_cx(e[2]))
    if k == 'asg':
        return '(XAssign %d %s)' % (e[1], coq_cx(e[2]))
    if k == 'asgop':
        return '(XAssignOp %s %d %s)' % (S.BINOPS[e[1]], e[2], coq_cx(e[3]))
    raise ValueError(k)


def coq_tys(te):
    return '[%s]' % '; '.join(S.COQ_T[t] for t in te)


def coq_zs(vs):
    return '[%s]' % '; '.join(S.coq_z(v) for v in vs)


# ------------------------------------------------------------------ generator
def gen_x(rng, dm, te, depth, small=False, effects=True, rd=None, wr=None):
    rd = list(range(len(te))) if rd is None else rd
    wr = list(range(len(te))) if wr is None else wr
    effects = effects and bool(wr)
    r = rng.random()
    if depth <= 0 or r < 0.16:
        if rd and rng.random() < 0.55:
            return ('var', rng.choice(rd))
        t = rng.choice(S.TYPES)
        if small or rng.random() < 0.4:
            v = rng.choice([0, 1, 2, 3, 5, 7, -1, -2, -7, 8, 31, 100])
            v = v if S.fits(dm, t, v) else 1
        elif rng.random() < 0.8:
            v = rng.choice(S.pool(dm, t))
        else:
            v = rng.randint(*S.limits(dm, t))
        return ('lit', t, v)
    sub = lambda: gen_x(rng, dm, te, depth - 1, small, effects, rd, wr)   # noqa: E731
    if r < 0.27:
        return ('cast', rng.choice(S.TYPES), sub())
    if r < 0.38:
        return ('un', rng.choice(['-', '~', '!', '+', '-', '~']), sub())
    if r < 0.45:
        return ('cond', sub(), sub(), sub())
    if effects and r < 0.49:
        return ('comma', sub(), sub())
    if effects and r < 0.53:
        return ('asg', rng.choice(wr), sub())
    if effects and r < 0.58:
        return ('asgop', rng.choice(COMPOUND), rng.choice(wr), sub())
    op = rng.choice(list(S.BINOPS))
    a = sub()
    if op in ('<<', '>>') and rng.random() < 0.7:
        b = ('lit', rng.choice(['int', 'int', 'uint', 'long', 'uchar']),
             rng.choice([0, 1, 2, 3, 7, 8, 15, 16, 31, 32, 33, 63, 64]))
    elif op in ('/', '%') and rng.random() < 0.4:
        t = rng.choice(S.TYPES)
        b = ('lit', t, rng.choice([v for v in (1, 2, 3, 7, -1, -2, -3, 10) if S.fits(dm, t, v)]))
    else:
        b = sub()
    return ('bin', op, a, b)


def arg_vectors(rng, dm, te, n):
    out = []
    for _ in range(n):
        vec = []
        for t in te:
            r = rng.random()
            if r < 0.45:
                v = rng.choice([0, 1, 2, 3, 5, 7, -1, -2, 31, 100])
                v = v if S.fits(dm, t, v) else 1
            elif r < 0.9:
                v = rng.choice(S.pool(dm, t))
            else:
                v = rng.randint(*S.limits(dm, t))
            vec.append(v)
        out.append(tuple(vec))
    return out


def gen_case(rng, march, depth):
    """(march, te, rt, e, [(args, expected value)])  with >= 1 defined vector, or None"""
    dm = target(march)['dm']
    for _ in range(30):
        te = [rng.choice(S.TYPES) for _ in range(rng.choice([2, 2, 3]))]
        e = gen_x(rng, dm, te, rng.choice([2, 3, 4, 5, depth, depth]), small=rng.random() < 0.5)
        if not seq_ok(e):
            continue
        d = desugar(dm, e)
        vecs = []
        for a in arg_vectors(rng, dm, te, 10):
            r = ceval(dm, te, a, d)
            if r is not None:
                vecs.append((a, r[0]))
            if len(vecs) >= 3:
                break
        if vecs:
            return (march, te, rng.choice(S.TYPES), e, vecs)
    return None


# ------------------------------------------------------------------ the real front-end
_T = {}


def target(march):
    """data model, Coq cgen term and parameters read from the real CContext / CCodeGenerator of the target"""
    if march in _T:
        return _T[march]
    from ppci.api import get_arch
    from ppci.lang.c import COptions
    from ppci.lang.c.context import CContext
    from ppci.lang.c.codegenerator import CCodeGenerator
    from ppci.lang.c.nodes.types import BasicType
    from ppci.arch.arch_info import Endianness
    arch = get_arch(march)
    ctx = CContext(COptions(), arch.info)
    cg = CCodeGenerator(ctx)
    pp = {'char': 'CHAR', 'uchar': 'UCHAR', 'short': 'SHORT', 'ushort': 'USHORT', 'int': 'INT', 'uint': 'UINT',
          'long': 'LONG', 'ulong': 'ULONG', 'llong': 'LONGLONG', 'ullong': 'ULONGLONG'}
    sz = {t: ctx.type_size_map[getattr(BasicType, pp[t])][0] for t in S.TYPES}
    al = {t: ctx.type_size_map[getattr(BasicType, pp[t])][1] for t in S.TYPES}
    irt = {t: cg.ir_type_map[getattr(BasicType, pp[t])][0].name for t in S.TYPES}
    dm = {'char': 8 * sz['char'], 'short': 8 * sz['short'], 'int': 8 * sz['int'], 'long': 8 * sz['long'],
          'llong': 8 * sz['llong'], 'char_signed': True}
    little = arch.info.endianness == Endianness.LITTLE
    # uint_types[2] of CCodeGenerator.__init__ is only visible when int is 2 bytes; otherwise read the source
    u16 = irt['uint'] if sz['int'] == 2 else None
    if u16 is None:
        src = open(os.path.join(REPO, 'ppci/lang/c/codegenerator.py')).read()
        m = re.search(r'uint_types\s*=\s*\{\s*2:\s*ir\.(\w+)', src)
        u16 = m.group(1) if m else 'i16'
    cgen = '(mk_cgen (mkctx %d %d %d %s) %s %d %d)' % (sz['int'], sz['long'], sz['llong'], 'true' if little else 'false',
                                                      u16.upper(), al['int'], al['long'])
    _T[march] = {'arch': arch, 'dm': dm, 'cgen': cgen, 'sz': sz, 'al': al, 'irt': irt, 'u16': u16,
                 'cctx': '(mkctx %d %d %d %s)' % (sz['int'], sz['long'], sz['llong'], 'true' if little else 'false'),
                 'cfg': (arch.info.get_size('ptr'), 65536, 16777216) if arch.info.get_size('ptr') > 2 else (2, 512, 16384)}
    return _T[march]


_SV = {}


def sema_variant():
    """'orig' (max-rank get_common_type, promote -> int) or 'c11' (fixes/C01-common-type.diff), probed on the real code"""
    if 'v' in _SV:
        return _SV['v']
    from ppci.lang.c import COptions
    from ppci.lang.c.context import CContext
    from ppci.lang.c.semantics import CSemantics
    from ppci.api import get_arch
    sem = CSemantics(CContext(COptions(), get_arch('arm').info))
    t = sem.get_common_type(sem.get_type(['unsigned', 'int']), sem.get_type(['long']), None)
    sem16 = CSemantics(CContext(COptions(), get_arch('msp430').info))
    from ppci.lang.c.nodes import expressions
    lit = expressions.NumericLiteral(1, sem16.get_type(['unsigned', 'short']), None)
    p = sem16.promote(lit).typ
    a = 'c11' if t.type_id == 'unsigned long' else 'orig'
    b = 'c11' if p.type_id == 'unsigned int' else 'orig'
    v = a if a == b else 'mixed'
    # compound assignment: is the rhs of `int a; unsigned b; a /= b` typed unsigned int (fixes/C01-compound-assign.diff)?
    try:
        from ppci.lang.c.builder import _parse
        unit = _parse(io.StringIO('int f(int a, unsigned b) { a /= b; return a; }'), 'x.c',
                      CContext(COptions(), get_arch('arm').info))
        rhs = unit.declarations[0].body.statements[0].expression.b
        if rhs.typ.type_id == 'unsigned int':
            v = 'c11a' if v == 'c11' else 'mixed'
    except Exception:   # noqa: BLE001
        v = 'mixed'
    _SV['v'] = v
    return _SV['v']


def coq_sv(march):
    return {'orig': 'sem_orig', 'c11': '(sem_c11 %s)', 'c11a': '(sem_c11a %s)'}.get(sema_variant(), 'sem_orig').replace(
        '%s', target(march)['cctx'])


def compile_c(march, src):
    """-> (ir module | None, error text)"""
    from ppci.api import c_to_ir
    from ppci.common import CompilerError
    import contextlib
    try:
        with contextlib.redirect_stdout(io.StringIO()):       # ppci/lang/c/printer.py prints debug lines
            return c_to_ir(io.StringIO(src), target(march)['arch']), ''
    except CompilerError as ex:
        return None, 'CompilerError: %s' % ex.msg
    except RecursionError:
        return None, 'RecursionError'
    except Exception as ex:   # noqa: BLE001
        return None, '%s: %s' % (type(ex).__name__, str(ex)[:120])


def run_ir(march, module, args, fname='f', fuel=400):
    import irsem_py
    r = irsem_py.run_main(module, fname, list(args), fuel, target(march)['cfg'])
    if isinstance(r, OkV):
        return OkV(r.v[0])
    return r


def canon_func(module, fname='f'):
    """irimport structure of one function, value names reduced to their ppci base name (num_12 -> num)"""
    import irimport
    py = irimport.module_to_py(module)
    for f in py[3]:
        if f[0] != fname:
            continue
        blocks = []
        for (bid, bname, ins) in f[4]:
            ni = []
            for i in ins:
                if i[0] in ('const', 'binop', 'unop', 'cast', 'load', 'alloc', 'addressof', 'literal', 'phi',
                            'undefined', 'callf'):
                    i = (i[0], i[1], re.sub(r'_\d+$', '', i[2])) + tuple(i[3:])
                ni.append(i)
            blocks.append((bid, bname, ni))
        return (f[0], f[1], f[2], f[3], blocks)
    return None


# ------------------------------------------------------------------ (a) model vs real
def coq_params(te):
    return '[%s]' % '; '.join('("a%d"%%string, %s)' % (i, S.COQ_T[t]) for i, t in enumerate(te))


def correspondence(ctx, cases):
    st = {'compiled': 0, 'compile_error': 0, 'structure': 0, 'values': 0, 'spec_cross': 0}
    cc, recs = [], []
    for (march, te, rt, e, vecs) in cases:
        tg = target(march)
        dm = tg['dm']
        src = c_function(dm, te, rt, e)
        mod, err = compile_c(march, src)
        if mod is None:
            st['compile_error'] += 1
            ctx.failed_stages.append(('correspondence', 'c_to_ir failed on a generated function: %s: %s' % (src, err)))
            continue
        st['compiled'] += 1
        d = coq_cx(desugar(dm, e))
        sv = coq_sv(march)
        try:
            cf = canon_func(mod)
        except Exception as ex:   # noqa: BLE001
            cf = None
            ctx.log('irimport failed', src, ex)
        if cf is not None:
            cc.append(('c_fn %s %s "f" %s %s %s' % (sv, tg['cgen'], coq_params(te), S.COQ_T[rt], d), cf))
            recs.append(('structure', march, src))
            st['structure'] += 1
        for (args, _v) in vecs:
            real = run_ir(march, mod, args)
            cc.append(('tree_result %s %s %s %s %s %s' % (sv, tg['cgen'], coq_tys(te), S.COQ_T[rt], d, coq_zs(args)), real))
            recs.append(('value', march, src, args))
            st['values'] += 1
            # Coq spec vs the Python reading of it
            r = ceval(dm, te, args, desugar(dm, e))
            cc.append(('spec_result %s %s %s %s' % (S.coq_dm(dm), coq_tys(te), coq_zs(args), d),
                       None if r is None else r[0]))
            recs.append(('spec', march, src, args))
            st['spec_cross'] += 1
    ctx.cov['stages']['correspondence'] = st
    bad = ctx.run_cases('cgen', IMPORTS, cc, shard=150)
    if bad:
        for i in bad[:6]:
            ctx.log('model/implementation disagree:', recs[i])
        kinds = sorted({recs[i][0] for i in bad})
        ctx.failed_stages.append(('correspondence', 'model disagrees with the front-end on %d cases (%s), first: %r'
                                  % (len(bad), ','.join(kinds), recs[bad[0]])))
    return bad


# ------------------------------------------------------------------ (b) search: real IR vs the spec
WITNESSES = [
    # (march, class, te, rt, tree, args, C value) — the refuted theorems of Props/C01.v, replayed on the real front-end
    ('arm', 'common-type', ['uint', 'long'], 'ulong',
     ('bin', '/', ('bin', '+', ('var', 0), ('var', 1)), ('lit', 'int', 2)), (4294967295, -1), 2147483647),
    ('x86_64', 'common-type', ['ulong', 'llong'], 'int', ('bin', '<', ('var', 1), ('var', 0)), (1, -1), 0),
    ('msp430', 'promote', ['ushort'], 'int',
     ('bin', '<', ('bin', '-', ('var', 0), ('lit', 'int', 1)), ('lit', 'int', 0)), (0,), 0),
    ('msp430', 'uint-lowered-as-signed-i16', ['uint'], 'long', ('var', 0), (40000,), 40000),
    ('x86_64', 'compound-assign', ['int', 'uint'], 'int', ('asgop', '/', 0, ('var', 1)), (-7, 2), 2147483644),
    ('arm', 'compound-assign', ['char', 'int'], 'int', ('asgop', '/', 0, ('var', 1)), (100, 300), 0),
]


def to_ir_args(dm, te, args):
    return list(args)


def check_real(ctx, march, te, rt, e, vecs, stats, forced_class=None):
    """run the real IR on the vectors; report disagreements with the spec; returns number of compared vectors"""
    tg = target(march)
    dm = tg['dm']
    src = c_function(dm, te, rt, e)
    mod, err = compile_c(march, src)
    n = 0
    for (args, v) in vecs:
        exp = S.convert(dm, rt, v)
        if mod is None:
            actual = err
        else:
            r = run_ir(march, mod, args)
            actual = r.v if isinstance(r, OkV) else r
            if isinstance(r, OkV):
                # unsigned int is carried in a signed i16 on 16-bit targets: compare modulo the width
                if S.convert(dm, rt, r.v) == exp:
                    n += 1
                    continue
        n += 1
        d = desugar(dm, e)
        cls = fragment_class(march, te, rt, d)
        if cls is None:
            cls = forced_class
        rec = {'fn': 'c_to_ir expression', 'dm': DMNAME[march], 'target': march, 'source': src, 'args': list(args),
               'expected': exp, 'actual': actual if isinstance(actual, (int, str)) else repr(actual),
               'how_to_replay': "PYTHONPATH=%s:%s/tools /venv/bin/python -c \"import io, irsem_py; from ppci.api import "
                                "c_to_ir, get_arch; a = get_arch('%s'); m = c_to_ir(io.StringIO('%s'), a); "
                                "print(irsem_py.run_main(m, 'f', %r, 400, (a.info.get_size('ptr'), 65536, 16777216)).v[0])\""
                                % (REPO, os.path.dirname(os.path.dirname(os.path.dirname(os.path.abspath(__file__)))),
                                   march, src, list(args))}
        if cls is None:
            stats['violations'] += 1
            rec['key'] = 'in-fragment'
            rec['in_proved_fragment'] = True
        else:
            stats['known_class_hits'] += 1
            rec['class'] = cls
            rec['key'] = '%s/%s' % (DMNAME[march], cls)
            rec['in_proved_fragment'] = False
        ctx.violation(rec)
        break
    return n


def search(ctx, cases=None, n_extra=0, depth=6):
    stats = {'compared': 0, 'violations': 0, 'known_class_hits': 0, 'witness_still_failing': 0, 'witness_fixed': 0}
    for (march, cls, te, rt, e, args, v) in WITNESSES:
        dm = target(march)['dm']
        assert ceval(dm, te, args, desugar(dm, e))[0] == v, (march, e)
        before = stats['known_class_hits'] + stats['violations']
        stats['compared'] += check_real(ctx, march, te, rt, e, [(args, v)], stats, forced_class=cls)
        if stats['known_class_hits'] + stats['violations'] > before:
            stats['witness_still_failing'] += 1
        else:
            stats['witness_fixed'] += 1
    todo = list(cases or [])
    for i in range(n_extra):
        c = gen_case(ctx.rng, TARGETS[i % len(TARGETS)], depth)
        if c:
            todo.append(c)
    seen = set()
    for (march, te, rt, e, vecs) in todo:
        k = check_real(ctx, march, te, rt, e, vecs, stats)
        stats['compared'] += k
        src = c_function(target(march)['dm'], te, rt, e)
        for (a, _v) in vecs[:k]:
            seen.add((march, src, a))
    ctx.cov['evaluations'] += stats['compared']
    ctx.cov['distinct_nontrivial'] += len(seen)
    ctx.cov['stages']['search'] = stats
    return stats


# ------------------------------------------------------------------ shift family: << >> <<= >>= x every operand type pair
def shift_family(ctx, full):
    """`LT f(LT a0, RT a1) { return a0 OP a1; }` and `{ a0 OP= a1; return a0; }` for every signed/unsigned x rank
    combination of left and right operand type, negative and large left values, counts 0..bits: real IR vs the spec
    (UB - negative << , count >= width - is filtered by the spec; >> of a negative value is arithmetic)"""
    stats = {'functions': 0, 'compared': 0, 'violations': 0, 'known_class_hits': 0}
    k = 0
    for march in TARGETS:
        dm = target(march)['dm']
        for lt in S.TYPES:
            for rtt in S.TYPES:
                for op in ('<<', '>>'):
                    for compound in (False, True):
                        k += 1
                        if not full and (k % 3) and not (compound and op == '>>' and S.signed(dm, lt) != S.signed(dm, rtt)):
                            continue
                        e = ('asgop', op, 0, ('var', 1)) if compound else ('bin', op, ('var', 0), ('var', 1))
                        te = [lt, rtt]
                        lo, hi = S.limits(dm, lt)
                        lvals = [v for v in (-64, -1, lo, lo + 1, 64, 1, hi, hi // 2 + 1, 0) if lo <= v <= hi]
                        vecs = []
                        for a in lvals:
                            for n in (0, 1, 2, 5, 15):
                                if not S.fits(dm, rtt, n):
                                    continue
                                r = ceval(dm, te, (a, n), e)
                                if r is not None:
                                    vecs.append(((a, n), r[0]))
                        if not vecs:
                            continue
                        stats['functions'] += 1
                        stats['compared'] += check_real(ctx, march, te, lt, e, vecs, stats)
    ctx.cov['evaluations'] += stats['compared']
    ctx.cov['distinct_nontrivial'] += stats['compared']
    ctx.cov['stages']['shift_family'] = stats
    return stats


# ------------------------------------------------------------------ gcc: the spec against a real C compiler (LP64)
def gcc_run(src, timeout=120, sanitize=False):
    with tempfile.TemporaryDirectory() as d:
        p = os.path.join(d, 't.c')
        with open(p, 'w') as f:
            f.write(src)
        exe = os.path.join(d, 't')
        flags = ['-O0', '-w', '-fwrapv'] if not sanitize else ['-O0', '-w', '-fsanitize=undefined',
                                                                 '-fno-sanitize-recover=all']
        c = subprocess.run(['gcc'] + flags + [p, '-o', exe], capture_output=True, text=True, timeout=timeout)
        if c.returncode != 0:
            return None, 'gcc: ' + c.stderr[-300:]
        try:
            r = subprocess.run([exe], capture_output=True, text=True, timeout=10)
        except subprocess.TimeoutExpired:
            return None, 'timeout'
        if r.returncode != 0:
            return None, 'exit %d %s' % (r.returncode, r.stderr[-200:])
        return r.stdout, ''


def gcc_spec_validation(ctx, cases):
    """the Python reading of the spec vs gcc on the LP64 cases (gcc's int/long/long long sizes = x86_64 target)"""
    lp = [c for c in cases if c[0] == 'x86_64']
    if not lp:
        return
    dm = target('x86_64')['dm']
    parts, calls, exp = ['#include <stdio.h>'], [], []
    for i, (march, te, rt, e, vecs) in enumerate(lp):
        parts.append(c_function(dm, te, rt, e, name='f%d' % i))
        for (args, v) in vecs:
            calls.append('printf("%%lld\\n", (long long)f%d(%s));' % (i, ', '.join(S.c_lit(dm, t, a) for t, a in zip(te, args))))
            exp.append(S.convert(dm, 'llong', S.convert(dm, rt, v)))
    parts.append('int main(void) {\n%s\nreturn 0; }' % '\n'.join(calls))
    out, err = gcc_run('\n'.join(parts))
    st = {'functions': len(lp), 'values': len(exp), 'agree': 0}
    if out is None:
        st['error'] = err
        ctx.log('gcc validation not available:', err)
    else:
        got = [int(x) for x in out.split()]
        st['agree'] = sum(1 for a, b in zip(got, exp) if a == b)
        if got != exp:
            k = next(i for i, (a, b) in enumerate(zip(got, exp)) if a != b)
            ctx.failed_stages.append(('spec_vs_gcc', 'the spec disagrees with gcc on value #%d: gcc %d spec %d' % (k, got[k], exp[k])))
    ctx.cov['stages']['spec_vs_gcc'] = st


# ------------------------------------------------------------------ (c) statements: generated programs vs gcc -O0
PTYPES = ['signed char', 'unsigned char', 'short', 'unsigned short', 'int', 'unsigned int', 'long long',
          'unsigned long long']    # same sizes on LP64 (gcc host) and ILP32 (arm)


class ProgGen:
    """small programs; every variable initialised, indices masked, loops bounded; gcc+ubsan rejects the UB ones"""

    def __init__(self, rng):
        self.rng = rng
        self.tmp = 0

    def expr(self, vars_, depth):
        rng = self.rng
        if depth <= 0 or rng.random() < 0.3:
            if vars_ and rng.random() < 0.7:
                return rng.choice(vars_)
            return str(rng.choice([0, 1, 2, 3, 5, 7, 11, 100, 255, 1000, 65535, 70000]))
        r = rng.random()
        if r < 0.08:
            return '(%s)%s' % (rng.choice(PTYPES), self.expr(vars_, depth - 1))
        if r < 0.14:
            return '(%s%s)' % (rng.choice(['-', '~', '!']), self.expr(vars_, depth - 1))
        if r < 0.20:
            return '(%s ? %s : %s)' % (self.expr(vars_, depth - 1), self.expr(vars_, depth - 1), self.expr(vars_, depth - 1))
        if r < 0.26:
            return 'h(%s, %s)' % (self.expr(vars_, depth - 1), self.expr(vars_, depth - 1))
        if r < 0.32:
            return 'arr[(%s) & 7]' % self.expr(vars_, depth - 1)
        if r < 0.38:
            return rng.choice(['gs.x', 'gs.y', 'gs.z', 'g1', 'g2'])
        op = rng.choice(['+', '-', '*', '&', '|', '^', '<', '>', '<=', '>=', '==', '!=', '&&', '||', '/', '%', '<<', '>>'])
        a = self.expr(vars_, depth - 1)
        if op in ('/', '%'):
            b = '((%s) | 1)' % self.expr(vars_, depth - 1)
        elif op in ('<<', '>>'):
            b = '((%s) & 7)' % self.expr(vars_, depth - 1)
        else:
            b = self.expr(vars_, depth - 1)
        return '(%s %s %s)' % (a, op, b)

    def stmts(self, vars_, depth, n):
        rng = self.rng
        out = []
        wr = [v for v in vars_ if v[0] not in 'ikd' or not v[1:].isdigit()]
        for _ in range(n):
            r = rng.random()
            lhs = rng.choice(wr + ['g1', 'g2', 'gs.x', 'gs.y', 'gs.z', 'arr[%s & 7]' % rng.choice(vars_)])
            if depth <= 0 or r < 0.35:
                out.append('%s = %s;' % (lhs, self.expr(vars_, 2)))
            elif r < 0.45:
                if rng.random() < 0.4:     # compound shift: the type is the promoted LEFT operand whatever the count's type
                    out.append('%s >>= ((%s)(%s) & 7);' % (rng.choice(wr[:4]), rng.choice(['unsigned int', 'unsigned long long',
                                                                                         'unsigned char', 'int']),
                                                           self.expr(vars_, 1)))
                else:
                    out.append('%s %s= %s;' % (rng.choice(wr[:2]), rng.choice(['+', '-', '^', '|', '&']), self.expr(vars_, 2)))
            elif r < 0.60:
                out.append('if (%s) { %s } else { %s }' % (self.expr(vars_, 2), ' '.join(self.stmts(vars_, depth - 1, 2)),
                                                           ' '.join(self.stmts(vars_, depth - 1, 1))))
            elif r < 0.70:
                self.tmp += 1
                i = 'i%d' % self.tmp
                jump = ''
                if rng.random() < 0.4:
                    jump = 'if (%s) %s; ' % (self.expr(vars_ + [i], 1), rng.choice(['continue', 'break', 'continue']))
                out.append('for (int %s = 0; %s < %d; %s++) { %s %s%s }' % (
                    i, i, rng.randint(1, 5), i, ' '.join(self.stmts(vars_ + [i], depth - 1, 1)), jump,
                    ' '.join(self.stmts(vars_ + [i], depth - 1, 1))))
            elif r < 0.80:
                self.tmp += 1
                k = 'k%d' % self.tmp
                out.append('{ int %s = %d; while (%s > 0) { %s %s--; } }' % (k, rng.randint(1, 4), k,
                                                                          ' '.join(self.stmts(vars_, depth - 1, 2)), k))
            elif r < 0.90:
                cs = rng.sample(range(0, 6), 3)
                body = ' '.join('case %d: %s %s' % (c, ' '.join(self.stmts(vars_, depth - 1, 1)),
                                                     'break;' if rng.random() < 0.8 else '') for c in cs)
                if rng.random() < 0.35:
                    nt, span = rng.choice([('unsigned char', 256), ('signed char', 256), ('unsigned short', 65536),
                                           ('short', 65536)])
                    v = rng.choice([1, 44, 100, 127])
                    body2 = ' '.join('case %d: %s %s' % (c, ' '.join(self.stmts(vars_, depth - 1, 1)),
                                                          'break;' if rng.random() < 0.8 else '')
                                     for c in (v + span, v - span, 300 if v != 44 else 301, v))
                    out.append('switch ((%s)(%s ? %d : %d)) { %s default: %s break; }' % (
                        nt, self.expr(vars_, 1), v, v + 1, body2, ' '.join(self.stmts(vars_, depth - 1, 1))))
                else:
                    out.append('switch ((%s) & 7) { %s default: %s break; }' % (self.expr(vars_, 1), body,
                                                                                ' '.join(self.stmts(vars_, depth - 1, 1))))
            else:
                self.tmp += 1
                k = 'd%d' % self.tmp
                jump = ''
                if rng.random() < 0.6:
                    jump = 'if (%s) %s; ' % (self.expr(vars_ + [k], 1), rng.choice(['continue', 'continue', 'break']))
                out.append('{ int %s = 0; do { %s++; %s %s%s } while (%s < %d); }' % (
                    k, k, ' '.join(self.stmts(vars_, depth - 1, 1)), jump, ' '.join(self.stmts(vars_, depth - 1, 1)),
                    k, rng.randint(1, 3)))
        return out

    def program(self):
        rng = self.rng
        ta, tb = rng.choice(['int', 'unsigned int', 'short', 'long long']), rng.choice(['int', 'unsigned int', 'unsigned char'])
        t1, t2 = rng.choice(PTYPES), rng.choice(PTYPES)
        body = self.stmts(['a', 'b', 'x', 'y'], 2, rng.randint(3, 6))
        return '\n'.join([
            'struct S { int x; unsigned char y; long long z; };',
            'int g1 = 3; unsigned int g2 = 4000000000u; struct S gs; int arr[8];',
            'int h(int p, unsigned int q) { if (p > 100) return (int)(q & 1023u); return (p & 255) + 1; }',
            'long long f(%s a, %s b) {' % (ta, tb),
            '  %s x = 1; %s y = 2;' % (t1, t2),
            '  gs.x = 1; gs.y = 2; gs.z = 3;',
            '  for (int j = 0; j < 8; j++) arr[j] = j * 3;',
            '  ' + '\n  '.join(body),
            '  long long acc = (long long)x * 31 + (long long)y + g1 + (long long)g2 + gs.x + gs.y + gs.z + a + b;',
            '  for (int j = 0; j < 8; j++) acc = acc * 7 + arr[j];',
            '  return acc;',
            '}']), (ta, tb)


def continue_in_do(src):
    """a `continue` whose innermost enclosing loop is a do-while (the generator puts loop bodies in braces)"""
    stack = []          # kinds of the open braces: 'do', 'loop' (for/while), 'other'
    i = 0
    while i < len(src):
        if src.startswith('continue', i):
            for kind in reversed(stack):
                if kind in ('do', 'loop'):
                    if kind == 'do':
                        return True
                    break
        if src[i] == '{':
            head = src[max(0, i - 60):i].rstrip()
            if head.endswith('do'):
                stack.append('do')
            elif re.search(r'(for|while) \([^{}]*\)$', head):
                stack.append('loop')
            else:
                stack.append('other')
        elif src[i] == '}' and stack:
            stack.pop()
        i += 1
    return False


DO_WHILE_CONTINUE_BROKEN = {}


def probe_do_while_continue(ctx):
    """fixed witness: `continue` in a do-while must reach the condition (re-executed on every run)"""
    src = 'int f(int n) { int i = 0; do { i++; if (i >= 1) continue; } while (i < n); return i; }'
    mod, err = compile_c('x86_64', src)
    r = run_ir('x86_64', mod, [0], fuel=300) if mod is not None else err
    bad = not (isinstance(r, OkV) and r.v == 1)
    DO_WHILE_CONTINUE_BROKEN['v'] = bad
    if bad:
        ctx.violation({'fn': 'c_to_ir program', 'class': 'do-while-continue', 'key': 'program/do-while-continue',
                       'target': 'x86_64', 'source': src, 'args': [0], 'expected': 1,
                       'actual': r.v if isinstance(r, OkV) else repr(r),
                       'how_to_replay': 'm = ppci.api.c_to_ir(io.StringIO(source), "x86_64"); '
                                        'tools/irsem_py.run_main(m, "f", [0], 300, (8, 65536, 16777216))'})


def statements(ctx, n):
    probe_do_while_continue(ctx)
    from concurrent.futures import ThreadPoolExecutor
    st = {'generated': 0, 'programs': 0, 'ub_or_rejected_by_gcc': 0, 'ppci_compile_error': 0, 'compared': 0, 'agree': 0,
          'ir_ub': 0}
    dm = target('x86_64')['dm']
    cty = {'int': 'int', 'unsigned int': 'uint', 'short': 'short', 'long long': 'llong', 'unsigned char': 'uchar'}
    rounds = 0
    while st['programs'] < n and rounds < 4:
        rounds += 1
        batch = []
        for _ in range(int((n - st['programs']) * 1.15) + 2):
            src, (ta, tb) = ProgGen(ctx.rng).program()
            vecs = [(ctx.rng.choice(S.pool(dm, cty[ta])), ctx.rng.choice(S.pool(dm, cty[tb]))) for _ in range(3)]
            main = '#include <stdio.h>\n' + src + '\nint main(void) {\n' + '\n'.join(
                'g1 = 3; g2 = 4000000000u; printf("%%lld\\n", f(%s, %s));' % (S.c_lit(dm, cty[ta], a), S.c_lit(dm, cty[tb], b))
                for a, b in vecs) + '\nreturn 0; }'
            batch.append((src, vecs, main))
        st['generated'] += len(batch)
        with ThreadPoolExecutor(max_workers=4) as ex:
            outs = list(ex.map(lambda t: gcc_run(t[2], sanitize=True), batch))
        for (src, vecs, _m), (out, err) in zip(batch, outs):
            if st['programs'] >= n:
                break
            if out is None:
                st['ub_or_rejected_by_gcc'] += 1
                continue
            exp = [int(x) for x in out.split()]
            st['programs'] += 1
            for march in ('x86_64', 'arm'):
                mod, err = compile_c(march, src)
                if mod is None:
                    st['ppci_compile_error'] += 1
                    ctx.violation({'fn': 'c_to_ir program', 'key': 'program-compile', 'target': march, 'source': src,
                                   'expected': 'compiles', 'actual': err,
                                   'how_to_replay': 'save `source` as t.c; ppci.api.c_to_ir(open("t.c"), "%s")' % march})
                    continue
                for (a, b), e in zip(vecs, exp):
                    r = run_ir(march, mod, [a, b], fuel=4000)
                    st['compared'] += 1
                    ctx.cov['evaluations'] += 1
                    if isinstance(r, OkV) and r.v == e:
                        st['agree'] += 1
                        continue
                    if not isinstance(r, OkV):
                        st['ir_ub'] += 1
                    cls = 'do-while-continue' if (DO_WHILE_CONTINUE_BROKEN.get('v') and continue_in_do(src)) else None
                    ctx.violation({'fn': 'c_to_ir program', 'key': 'program/%s' % cls, 'class': cls, 'target': march,
                                   'source': src,
                                   'args': [a, b], 'expected': e, 'actual': r.v if isinstance(r, OkV) else repr(r),
                                   'how_to_replay': 'save `source` as t.c; m = ppci.api.c_to_ir(open("t.c"), "%s"); '
                                                    'tools/irsem_py.run_main(m, "f", args, 4000, (ptr_size, 65536, 16777216)); '
                                                    'oracle: gcc -O0 t.c with a main printing f(args)' % march})
                    break
    ctx.cov['distinct_nontrivial'] += st['agree']
    ctx.cov['stages']['statements_vs_gcc'] = st
    return st


# ------------------------------------------------------------------ (e) structured statements (proved fragment)
# trees: ('skip',) ('expr', e) ('decl', n, e) ('seq', a, b) ('if1', c, a) ('if', c, a, b) ('while', c, body)
#        ('do', body, c) ('for', init, c, post, body) ('break',) ('continue',) ('return', e)
class _Brk(Exception):
    pass


def sexec(dm, te, rt, fuel, st, s):
    """independent reading of Spec/CStmtSpec.v: (outcome, store) | None; outcome 'n' 'b' 'c' ('r', v)"""
    box = [fuel]

    def ev(st, e):
        return ceval(dm, te, st, e)

    def go(st, s):
        box[0] -= 1
        if box[0] < 0:
            raise _Brk()
        k = s[0]
        if k == 'skip':
            return ('n', st)
        if k == 'expr':
            r = ev(st, s[1])
            return None if r is None else ('n', r[1])
        if k == 'decl':
            r = ev(st, s[2])
            if r is None:
                return None
            s2 = list(r[1])
            s2[s[1]] = S.convert(dm, te[s[1]], r[0])
            return ('n', tuple(s2))
        if k == 'seq':
            r = go(st, s[1])
            if r is None or r[0] != 'n':
                return r
            return go(r[1], s[2])
        if k in ('if1', 'if'):
            r = ev(st, s[1])
            if r is None:
                return None
            if r[0] != 0:
                return go(r[1], s[2])
            return go(r[1], s[3]) if k == 'if' else ('n', r[1])
        if k == 'while':
            while True:
                r = ev(st, s[1])
                if r is None:
                    return None
                if r[0] == 0:
                    return ('n', r[1])
                b = go(r[1], s[2])
                if b is None:
                    return None
                if b[0] == 'b':
                    return ('n', b[1])
                if isinstance(b[0], tuple):
                    return b
                st = b[1]
                box[0] -= 1
                if box[0] < 0:
                    raise _Brk()
        if k == 'do':
            while True:
                b = go(st, s[1])
                if b is None:
                    return None
                if b[0] == 'b':
                    return ('n', b[1])
                if isinstance(b[0], tuple):
                    return b
                r = ev(b[1], s[2])
                if r is None:
                    return None
                if r[0] == 0:
                    return ('n', r[1])
                st = r[1]
                box[0] -= 1
                if box[0] < 0:
                    raise _Brk()
        if k == 'for':
            r = go(st, s[1])
            if r is None:
                return None
            st = r[1]
            while True:
                r = ev(st, s[2])
                if r is None:
                    return None
                if r[0] == 0:
                    return ('n', r[1])
                b = go(r[1], s[4])
                if b is None:
                    return None
                if b[0] == 'b':
                    return ('n', b[1])
                if isinstance(b[0], tuple):
                    return b
                r = ev(b[1], s[3])
                if r is None:
                    return None
                st = r[1]
                box[0] -= 1
                if box[0] < 0:
                    raise _Brk()
        if k == 'break':
            return ('b', st)
        if k == 'continue':
            return ('c', st)
        if k == 'return':
            r = ev(st, s[1])
            return None if r is None else (('r', S.convert(dm, rt, r[0])), r[1])
        if k == 'switch':
            r = ev(st, s[1])
            if r is None:
                return None
            pt = S.promote(dm, xtype(dm, te, s[1]))
            pv = S.convert(dm, pt, r[0])
            items = s[2]
            tgt = next((i for i, (lb, _x) in enumerate(items) if lb and lb[0] == 'case' and S.convert(dm, pt, lb[1]) == pv), None)
            if tgt is None:
                tgt = next((i for i, (lb, _x) in enumerate(items) if lb and lb[0] == 'default'), None)
            if tgt is None:
                return ('n', r[1])
            st = r[1]
            for (_lb, x) in items[tgt:]:
                b = go(st, x)
                if b is None:
                    return None
                if b[0] == 'b':
                    return ('n', b[1])
                if b[0] != 'n':
                    return b
                st = b[1]
            return ('n', st)
        raise ValueError(k)
    try:
        return go(tuple(st), s)
    except _Brk:
        return None


def srun_fn(dm, te, np, rt, args, body, fuel=3000):
    r = sexec(dm, te, rt, fuel, tuple(args) + (0,) * (len(te) - np), body)
    if r is None or not isinstance(r[0], tuple):
        return None
    return r[0][1]


def smap(f, s):
    """apply f to every expression of a statement tree"""
    k = s[0]
    if k in ('skip', 'break', 'continue'):
        return s
    if k in ('expr', 'return'):
        return (k, f(s[1]))
    if k == 'decl':
        return (k, s[1], f(s[2]))
    if k == 'seq':
        return (k, smap(f, s[1]), smap(f, s[2]))
    if k == 'if1':
        return (k, f(s[1]), smap(f, s[2]))
    if k == 'if':
        return (k, f(s[1]), smap(f, s[2]), smap(f, s[3]))
    if k == 'while':
        return (k, f(s[1]), smap(f, s[2]))
    if k == 'do':
        return (k, smap(f, s[1]), f(s[2]))
    if k == 'for':
        return (k, smap(f, s[1]), f(s[2]), f(s[3]), smap(f, s[4]))
    if k == 'switch':
        return (k, f(s[1]), [(lb, smap(f, x)) for (lb, x) in s[2]])
    raise ValueError(k)


def sexprs(s):
    out = []
    smap(lambda e: (out.append(e), e)[1], s)
    return out


def render_stmt(dm, te, s, np, ind='  '):
    k = s[0]
    nm = lambda n: 'a%d' % n    # noqa: E731
    if k == 'skip':
        return ind + ';\n'
    if k == 'expr':
        return ind + render(dm, s[1]) + ';\n'
    if k == 'decl':
        return ind + '%s %s = %s;\n' % (S.C_T[te[s[1]]], nm(s[1]), render(dm, s[2]))
    if k == 'seq':
        return render_stmt(dm, te, s[1], np, ind) + render_stmt(dm, te, s[2], np, ind)
    blk = lambda b: '{\n' + render_stmt(dm, te, b, np, ind + '  ') + ind + '}'   # noqa: E731
    if k == 'if1':
        return ind + 'if (%s) %s\n' % (render(dm, s[1]), blk(s[2]))
    if k == 'if':
        return ind + 'if (%s) %s else %s\n' % (render(dm, s[1]), blk(s[2]), blk(s[3]))
    if k == 'while':
        return ind + 'while (%s) %s\n' % (render(dm, s[1]), blk(s[2]))
    if k == 'do':
        return ind + 'do %s while (%s);\n' % (blk(s[1]), render(dm, s[2]))
    if k == 'for':
        init = render_stmt(dm, te, s[1], np, '').strip()
        return ind + 'for (%s %s; %s) %s\n' % (init, render(dm, s[2]), render(dm, s[3]), blk(s[4]))
    if k in ('break', 'continue'):
        return ind + k + ';\n'
    if k == 'return':
        return ind + 'return %s;\n' % render(dm, s[1])
    if k == 'switch':
        out = ind + 'switch (%s) {\n' % render(dm, s[1])
        for (lb, x) in s[2]:
            if lb:
                out += ind + ('case %d:\n' % lb[1] if lb[0] == 'case' else 'default:\n')
            out += render_stmt(dm, te, x, np, ind + '  ')
        return out + ind + '}\n'
    raise ValueError(k)


def c_function_stmt(dm, te, np, rt, body, name='f'):
    return '%s %s(%s) {\n%s}' % (S.C_T[rt], name, ', '.join('%s a%d' % (S.C_T[t], i) for i, t in enumerate(te[:np])),
                                 render_stmt(dm, te, body, np))


def coq_stmt(s):
    k = s[0]
    if k == 'skip':
        return 'SSkip'
    if k == 'expr':
        return '(SExpr %s)' % coq_cx(s[1])
    if k == 'decl':
        return '(SDecl %d %s)' % (s[1], coq_cx(s[2]))
    if k == 'seq':
        return '(SSeq %s %s)' % (coq_stmt(s[1]), coq_stmt(s[2]))
    if k == 'if1':
        return '(SIf1 %s %s)' % (coq_cx(s[1]), coq_stmt(s[2]))
    if k == 'if':
        return '(SIf %s %s %s)' % (coq_cx(s[1]), coq_stmt(s[2]), coq_stmt(s[3]))
    if k == 'while':
        return '(SWhile %s %s)' % (coq_cx(s[1]), coq_stmt(s[2]))
    if k == 'do':
        return '(SDoWhile %s %s)' % (coq_stmt(s[1]), coq_cx(s[2]))
    if k == 'for':
        return '(SFor %s %s %s %s)' % (coq_stmt(s[1]), coq_cx(s[2]), coq_cx(s[3]), coq_stmt(s[4]))
    if k == 'switch':
        lab = lambda lb: 'LNone' if not lb else ('(LCase %s)' % S.coq_z(lb[1]) if lb[0] == 'case' else 'LDefault')   # noqa: E731
        return '(SSwitch %s [%s])' % (coq_cx(s[1]), '; '.join('(%s, %s)' % (lab(lb), coq_stmt(x)) for (lb, x) in s[2]))
    return {'break': 'SBreak', 'continue': 'SContinue'}.get(k) or '(SReturn %s)' % coq_cx(s[1])


class StmtGen:
    """statement trees of the proved fragment; loops run on dedicated counters that the bodies never assign"""

    def __init__(self, rng, dm, np):
        self.rng, self.dm = rng, dm
        self.te = [rng.choice(S.TYPES) for _ in range(np)]
        self.np = np
        self.counters = set()

    def new_local(self, t=None):
        self.te.append(t or self.rng.choice(S.TYPES))
        return len(self.te) - 1

    def ex(self, avail, depth=2, effects=True):
        wr = [v for v in avail if v not in self.counters]
        for _ in range(20):
            e = gen_x(self.rng, self.dm, self.te, self.rng.randint(0, depth), small=True, effects=effects,
                      rd=list(avail), wr=wr)
            if seq_ok(e):
                return e
        return ('lit', 'int', 1)

    def seq(self, avail, depth, n, inloop):
        avail = list(avail)
        avail0 = list(avail)
        out = []
        for _ in range(n):
            st, avail = self.stmt(avail, depth, inloop)
            out.append(st)
        if inloop and self.rng.random() < 0.45:     # a guarded (sometimes bare) jump out of / to the end of the body
            kind = 'continue' if (inloop is True and self.rng.random() < 0.5) else 'break'
            j = (kind,) if self.rng.random() < 0.15 else ('if1', self.ex(avail0, 1), (kind,))
            out.insert(self.rng.randint(0, len(out)), j)
        r = out[-1]
        for st in reversed(out[:-1]):
            r = ('seq', st, r)
        return r

    def item(self, avail, depth, inloop):
        """a statement of a switch body: no declaration at its top level (a label needs a statement; no jump past an
        initialiser); `continue` only when the enclosing loop allows it"""
        for _ in range(10):
            nte, ctr = len(self.te), set(self.counters)
            st, _a = self.stmt(avail, depth, True if inloop is True else 'nocontinue')
            first = st[1] if st[0] == 'seq' else st
            if first[0] in ('decl', 'for'):
                del self.te[nte:]                  # forget the locals of a rejected candidate
                self.counters = ctr
            # (a labelled `for (T i = ..;;)` is a known ppci defect: the declaration is hoisted in front of the label)
            if first[0] not in ('decl', 'for'):
                return st
        return ('expr', self.ex(avail))

    def stmt(self, avail, depth, inloop):
        rng = self.rng
        r = rng.random()
        lit = lambda v: ('lit', 'int', v)    # noqa: E731
        if depth <= 0 or r < 0.22:
            return ('expr', self.ex(avail)), avail
        if r < 0.36:
            n = self.new_local()
            return ('decl', n, self.ex(avail)), avail + [n]
        if r < 0.44:
            return ('if1', self.ex(avail), self.seq(avail, depth - 1, rng.randint(1, 2), inloop)), avail
        if r < 0.54:
            return ('if', self.ex(avail), self.seq(avail, depth - 1, rng.randint(1, 2), inloop),
                    self.seq(avail, depth - 1, rng.randint(1, 2), inloop)), avail
        if r < 0.64:    # for (int i = 0; i < K [&& c]; i = i + 1 | i += 1)
            i = self.new_local(rng.choice(['int', 'int', 'uint', 'long', 'short', 'uchar']))
            self.counters.add(i)
            cond = ('bin', '<', ('var', i), lit(rng.randint(1, 4)))
            if rng.random() < 0.3:
                cond = ('bin', '&&', cond, self.ex(avail + [i], 1, effects=False))
            post = rng.choice([('asgop', '+', i, lit(1)), ('asg', i, ('bin', '+', ('var', i), lit(1)))])
            body = self.seq(avail + [i], depth - 1, rng.randint(1, 3), True)
            return ('for', ('decl', i, lit(0)), cond, post, body), avail
        if r < 0.72:    # int k = K; while (k > 0) { body; k = k - 1; }   (no continue inside: handled by inloop flag)
            k = self.new_local('int')
            self.counters.add(k)
            body = self.seq(avail + [k], depth - 1, rng.randint(1, 2), 'nocontinue')
            body = ('seq', body, ('expr', ('asg', k, ('bin', '-', ('var', k), lit(1)))))
            return ('seq', ('decl', k, lit(rng.randint(1, 3))), ('while', ('bin', '>', ('var', k), lit(0)), body)), avail + [k]
        if r < 0.80:    # int d = 0; do { d = d + 1; body } while (d < K);
            d = self.new_local('int')
            self.counters.add(d)
            body = self.seq(avail + [d], depth - 1, rng.randint(1, 2), True)
            body = ('seq', ('expr', ('asg', d, ('bin', '+', ('var', d), lit(1)))), body)
            return ('seq', ('decl', d, lit(0)), ('do', body, ('bin', '<', ('var', d), lit(rng.randint(1, 3))))), avail + [d]
        if r < 0.88:    # switch (e & 3) { case..: ... default: ... } with fall through, break, unlabelled statements
            if rng.random() < 0.4:
                # narrow controlling expression; labels outside its range that collide with its values after wrapping to
                # the narrow type (C11 6.8.4.2p5: labels are converted to the PROMOTED type, so they never match)
                nt = rng.choice(['char', 'uchar', 'short', 'ushort', 'uchar'])
                lo, hi = S.limits(self.dm, nt)
                span = hi - lo + 1
                vals = rng.sample([v for v in (0, 1, 44, 100, 127, -1, -128, 200, 255, 1000, 65535, -32768) if lo <= v <= hi], 2)
                fl = lambda v: ('lit', 'int' if S.fits(self.dm, 'int', v) else 'uint', v)    # noqa: E731
                ctl = ('cast', nt, ('cond', ('var', rng.choice(avail)), fl(vals[0]), fl(vals[1])))
                pt = S.promote(self.dm, nt)
                cand = [vals[0] + span, vals[1] - span, vals[0], vals[1] + span, 300, -1, 65536 + vals[1], vals[0] - span]
                rng.shuffle(cand)
                labels, seen_l = [], set()
                for z in cand:
                    if not S.fits(self.dm, 'int', z) or S.convert(self.dm, pt, z) in seen_l:
                        continue
                    seen_l.add(S.convert(self.dm, pt, z))
                    labels.append(z)
                    if len(labels) >= rng.randint(2, 4):
                        break
            else:
                ctl = self.ex(avail, 1, effects=self.rng.random() < 0.3)
                if rng.random() < 0.7:
                    ctl = ('bin', '&', ctl, lit(3))
                labels = rng.sample([0, 1, 2, 3, 5], rng.randint(1, 3))
            items = []
            dpos = rng.randint(0, len(labels)) if rng.random() < 0.7 else None
            for j, kk in enumerate(labels):
                if dpos == j:
                    items.append((('default',), self.item(avail, depth - 1, inloop)))
                items.append((('case', kk), self.item(avail, depth - 1, inloop)))
                if rng.random() < 0.4:
                    items.append((None, self.item(avail, depth - 1, inloop)))
                if rng.random() < 0.6:
                    items.append((None, ('break',)))
            if dpos == len(labels):
                items.append((('default',), self.item(avail, depth - 1, inloop)))
            return ('switch', ctl, items), avail
        if r < 0.91 and inloop:
            return (('if1', self.ex(avail, 1), ('break',)) if rng.random() < 0.7 else ('break',)), avail
        if r < 0.94 and inloop is True:
            return (('if1', self.ex(avail, 1), ('continue',)) if rng.random() < 0.7 else ('continue',)), avail
        if r < 0.97:
            return ('if1', self.ex(avail, 1), ('return', self.ex(avail))), avail
        return ('expr', self.ex(avail)), avail

    def function(self, depth=3):
        avail = list(range(self.np))
        body = self.seq(avail, depth, self.rng.randint(2, 5), False)
        # locals declared in nested blocks are out of scope here: return over parameters and top-level locals
        top = list(range(self.np))
        s = body
        while True:
            first = s[1] if s[0] == 'seq' else s
            for d in ([first] if first[0] == 'decl' else ([first[1]] if first[0] == 'seq' and first[1][0] == 'decl' else [])):
                top.append(d[1])
            if s[0] != 'seq':
                break
            s = s[2]
        return ('seq', body, ('return', self.ex(top, 2, effects=False)))


def gen_stmt_case(rng, march):
    """(march, te, np, rt, body, [(args, value)]) with >= 1 defined terminating vector, or None"""
    dm = target(march)['dm']
    for _ in range(30):
        g = StmtGen(rng, dm, rng.choice([1, 2, 2]))
        body = g.function(rng.choice([1, 2, 2, 3]))
        te, np_ = g.te, g.np
        rt = rng.choice(S.TYPES)
        d = smap(lambda e: desugar(dm, e), body)
        vecs = []
        for a in arg_vectors(rng, dm, te[:np_], 8):
            v = srun_fn(dm, te, np_, rt, a, d)
            if v is not None:
                vecs.append((a, v))
            if len(vecs) >= 3:
                break
        if vecs:
            return (march, te, np_, rt, body, vecs)
    return None


def stmt_fragment_class(march, te, rt, d):
    for e in sexprs(d):
        c = fragment_class(march, te, rt, e)
        if c:
            return c
    return None


def probe_for_decl_under_label(ctx):
    """fixed witness: the declaration of `for (int i = 5; ...)` belongs to the for statement, also under a label"""
    src = ('int f(int a0) { int s = 0; switch (a0) { case 1: s = 100; default: for (int i = 5; i < 7; i = i + 1) '
           's = s + i; } return s; }')
    mod, err = compile_c('x86_64', src)
    r = run_ir('x86_64', mod, [2], fuel=300) if mod is not None else err
    if not (isinstance(r, OkV) and r.v == 11):
        ctx.violation({'fn': 'c_to_ir statements', 'class': 'for-init-decl-hoisted', 'key': 'stmt/for-init-decl-hoisted',
                       'target': 'x86_64', 'source': src, 'args': [2], 'expected': 11,
                       'actual': r.v if isinstance(r, OkV) else repr(r),
                       'how_to_replay': 'm = ppci.api.c_to_ir(io.StringIO(source), "x86_64"); '
                                        'tools/irsem_py.run_main(m, "f", [2], 300, (8, 65536, 16777216))'})


FIXED_STMT_CASES = [   # (march, te, nparams, rt, body, argument vectors) — always part of the statements_model stage
    # narrow controlling expression, labels converted to the promoted type (unsigned int on msp430: case -1 = 65535)
    (m, ['ushort'], 1, 'uint',
     ('seq', ('switch', ('cast', 'ushort', ('cond', ('var', 0), ('lit', 'int', 1000), ('lit', 'uint', 65535))),
              [(('case', 1000), ('if1', ('lit', 'ullong', 2), ('return', ('lit', 'int', 100)))), (None, ('break',)),
               (('case', -1), ('expr', ('cast', 'short', ('lit', 'int', 31)))),
               (('default',), ('if1', ('var', 0), ('return', ('un', '!', ('un', '-', ('var', 0)))))),
               (('case', 300), ('if1', ('var', 0), ('break',))), (None, ('break',))]),
      ('return', ('bin', '|', ('var', 0), ('lit', 'int', 1)))), [(0,), (1,), (65535,)])
    for m in ('msp430', 'arm', 'x86_64')]


def probe_decimal_constant(ctx):
    """fixed witness: an unsuffixed decimal constant is int, long or long long, never unsigned (C11 6.4.4.1p5)"""
    src = 'int f(int a) { return 4294967295 > -1; }'
    mod, err = compile_c('x86_64', src)
    r = run_ir('x86_64', mod, [0]) if mod is not None else err
    if not (isinstance(r, OkV) and r.v == 1):
        ctx.violation({'fn': 'c_to_ir expression', 'class': 'decimal-constant-unsigned', 'key': 'expr/decimal-constant-unsigned',
                       'target': 'x86_64', 'source': src, 'args': [0], 'expected': 1,
                       'actual': r.v if isinstance(r, OkV) else repr(r),
                       'how_to_replay': 'm = ppci.api.c_to_ir(io.StringIO(source), "x86_64"); '
                                        'tools/irsem_py.run_main(m, "f", [0], 100, (8, 65536, 16777216))'})


def statements_model(ctx, n, n_model):
    probe_for_decl_under_label(ctx)
    probe_decimal_constant(ctx)
    """(a) Model/CGenStmt.emit_fn_stmt == real CFG; skeleton run == irsem_py on the real IR; Coq spec == Python spec;
    (b) search: real IR vs the Python reading of Spec/CStmtSpec.v"""
    st = {'generated': 0, 'structure': 0, 'values': 0, 'spec_cross': 0, 'search_compared': 0, 'violations': 0,
          'known_class_hits': 0, 'compile_error': 0, 'kinds': {}}
    cc, recs = [], []
    seen = set()
    fixed = []
    for (march, te, np_, rt, body, args) in FIXED_STMT_CASES:
        dm = target(march)['dm']
        d = smap(lambda e: desugar(dm, e), body)
        vecs = [(a, srun_fn(dm, te, np_, rt, a, d)) for a in args]
        fixed.append((march, te, np_, rt, body, [(a, v) for a, v in vecs if v is not None]))
    for i in range(-len(fixed), n):
        c = fixed[i] if i < 0 else gen_stmt_case(ctx.rng, TARGETS[i % len(TARGETS)])
        if not c:
            continue
        march, te, np_, rt, body, vecs = c
        tg = target(march)
        dm = tg['dm']
        st['generated'] += 1
        d = smap(lambda e: desugar(dm, e), body)
        for w in re.findall(r"'(if1|if|while|do|for|break|continue|return|decl|switch|case|default)'", repr(body)):
            st['kinds'][w] = st['kinds'].get(w, 0) + 1
        src = c_function_stmt(dm, te, np_, rt, body)
        mod, err = compile_c(march, src)
        if mod is None:
            st['compile_error'] += 1
            ctx.failed_stages.append(('statements_model', 'c_to_ir failed on a generated function: %s' % err))
            ctx.violation({'fn': 'c_to_ir statements', 'key': 'stmt-compile/%s' % err[:40], 'target': march, 'source': src,
                           'expected': 'compiles (valid C)', 'actual': err,
                           'how_to_replay': 'ppci.api.c_to_ir(io.StringIO(source), "%s")' % march})
            continue
        cls = stmt_fragment_class(march, te, rt, d)
        if i < n_model:
            cq, sv = coq_stmt(d), coq_sv(march)
            pn = '[%s]' % '; '.join('"a%d"%%string' % j for j in range(np_))
            try:
                cf = canon_func(mod)
            except Exception as ex:   # noqa: BLE001
                cf = None
                ctx.log('irimport failed', src, ex)
            if cf is not None:
                cc.append(('c_fn_stmt %s %s "f" %s %s %s %s' % (sv, tg['cgen'], pn, coq_tys(te), S.COQ_T[rt], cq), cf))
                recs.append(('structure', march, src))
                st['structure'] += 1
            for (args, _v) in vecs[:2]:
                real = run_ir(march, mod, args, fuel=3000)
                cc.append(('stmt_result %s %s %s %d %s 400 %s %s' % (sv, tg['cgen'], coq_tys(te), np_, S.COQ_T[rt], cq,
                                                                    coq_zs(args)), real))
                recs.append(('value', march, src, args))
                st['values'] += 1
                cc.append(('run_fn %s %s %d %s 400 %s %s' % (S.coq_dm(dm), coq_tys(te), np_, S.COQ_T[rt], coq_zs(args), cq),
                           srun_fn(dm, te, np_, rt, args, d, fuel=10 ** 6)))
                recs.append(('spec', march, src, args))
                st['spec_cross'] += 1
        for (args, v) in vecs:
            r = run_ir(march, mod, args, fuel=3000)
            st['search_compared'] += 1
            ctx.cov['evaluations'] += 1
            if isinstance(r, OkV) and S.convert(dm, rt, r.v) == v:
                seen.add((march, src, args))
                continue
            rec = {'fn': 'c_to_ir statements', 'dm': DMNAME[march], 'target': march, 'source': src, 'args': list(args),
                   'expected': v, 'actual': r.v if isinstance(r, OkV) else repr(r),
                   'how_to_replay': 'm = ppci.api.c_to_ir(io.StringIO(source), "%s"); tools/irsem_py.run_main(m, "f", args, '
                                    '3000, cfg)' % march}
            if cls is None:
                st['violations'] += 1
                rec['key'] = 'stmt/in-fragment'
                rec['in_proved_fragment'] = True
            else:
                st['known_class_hits'] += 1
                rec['fn'] = 'c_to_ir expression'
                rec['class'] = cls
                rec['key'] = 'stmt/%s/%s' % (DMNAME[march], cls)
                rec['in_proved_fragment'] = False
            ctx.violation(rec)
            break
    if cc:
        bad = ctx.run_cases('cstmt', IMPORTS + ['Spec.CStmtSpec', 'Model.CGenStmt'], cc, shard=120)
        if bad:
            for i in bad[:5]:
                ctx.log('statement model/implementation disagree:', recs[i][:3])
            kinds = sorted({recs[i][0] for i in bad})
            ctx.failed_stages.append(('statements_model', 'model disagrees with the front-end on %d cases (%s), first: %r'
                                      % (len(bad), ','.join(kinds), recs[bad[0]])))
    ctx.cov['distinct_nontrivial'] += len(seen)
    ctx.cov['stages']['statements_model'] = st
    return st


# ------------------------------------------------------------------ (d) pointer arithmetic family (validation)
# `ET arr[80]`, base pointer p = &arr[40]; every form is a function `long long fK(IT n)`; the expected value is
# computed by the independent evaluator below (element index arithmetic only) and, on LP64, also by gcc -O0.
PTR_ELEMS = [('schar', 'signed char', None), ('short', 'short', None), ('int', 'int', None), ('llong', 'long long', None),
             ('struct', 'struct S', 'x')]
PTR_BASE, PTR_LEN = 40, 80
PTR_FORMS = [   # (name, body; @<lv>@ = the value of element lvalue lv, expected as a function of n, domain of n)
    ('p+n', 'return @<*(p + n)>@;', lambda n: ('elem', PTR_BASE + n), 'any'),
    ('n+p', 'return @<*(n + p)>@;', lambda n: ('elem', PTR_BASE + n), 'any'),
    ('p-n', 'return @<*(p - n)>@;', lambda n: ('elem', PTR_BASE - n), 'any'),
    ('*((p-n)+1)', 'return @<*((p - n) + 1)>@;', lambda n: ('elem', PTR_BASE - n + 1), 'any'),
    ('p+=n', 'p += n; return @<*p>@;', lambda n: ('elem', PTR_BASE + n), 'any'),
    ('p-=n', 'p -= n; return @<*p>@;', lambda n: ('elem', PTR_BASE - n), 'any'),
    ('p[n]', 'return @<p[n]>@;', lambda n: ('elem', PTR_BASE + n), 'any'),
    ('arr[n]', 'return @<arr[n]>@;', lambda n: ('elem', n), 'nonneg'),
    ('ptrdiff', 'return (long long)((p + n) - p) * 100 + (long long)(p - (p - n));', lambda n: ('num', n * 100 + n), 'any'),
    ('&a[i]-&a[j]', 'return (long long)(&arr[60] - &arr[n]) * 100 + (long long)(&arr[n] - &arr[7]);',
     lambda n: ('num', (60 - n) * 100 + (n - 7)), 'nonneg'),
    ('compare', 'ET *q = p + n; return (q > p) + 2 * (q == p) + 4 * (q <= p) + 8 * (q != p) + 16 * (p - n < p) + 32 * (q >= arr);',
     lambda n: ('num', int(n > 0) + 2 * int(n == 0) + 4 * int(n <= 0) + 8 * int(n != 0) + 16 * int(n > 0) + 32), 'any'),
    ('++/--', 'ET *q = p + n; q++; ++q; q--; ET *r = q++; ET *t = --q; return @<*r>@ * 1000 + @<*t>@ + (long long)(q - p) * 1000000;',
     lambda n: ('mix', n), 'any'),
]


def ptr_values(dm, it):
    vs = [0, 1, 3, 7, 31]
    if S.signed(dm, it):
        vs += [-1, -5, -31]
    return [v for v in vs if S.fits(dm, it, v)]


def ptr_elem_value(dm, et, idx):
    return S.convert(dm, {'schar': 'char', 'struct': 'int'}.get(et, et), idx * 3 + 1)


def ptr_expected(dm, et, form, n):
    kind, x = form[2](n)
    if kind == 'elem':
        return ptr_elem_value(dm, et, x)
    if kind == 'num':
        return x
    # '++/--': q = p+n+1 after q++,++q,q--; r = q (then q = p+n+2); t = --q = p+n+1
    return ptr_elem_value(dm, et, PTR_BASE + n + 1) * 1000 + ptr_elem_value(dm, et, PTR_BASE + n + 1) + (n + 1) * 1000000


def ptr_source(et, it, forms, prefix='f'):
    cet = dict((a, b) for a, b, _ in PTR_ELEMS)[et]
    fld = dict((a, c) for a, _, c in PTR_ELEMS)[et]
    lines = []
    if et == 'struct':
        lines.append('struct S { int x; char y; long long z; };')
    lines.append('%s arr[%d];' % (cet, PTR_LEN))
    init = 'arr[j].x = j * 3 + 1; arr[j].y = 1; arr[j].z = j;' if fld else 'arr[j] = (%s)(j * 3 + 1);' % cet
    for k, form in enumerate(forms):
        body = form[1].replace('ET', cet)
        body = re.sub(r'@<(.*?)>@', (r'(long long)(\1).x' if fld else r'(long long)(\1)'), body)
        lines.append('long long %s%d(%s n) { for (int j = 0; j < %d; j++) { %s } %s *p = &arr[%d]; %s }'
                     % (prefix, k, S.C_T[it], PTR_LEN, init, cet, PTR_BASE, body))
    return '\n'.join(lines)


def ptr_class(march, et, it, form, n):
    """known root causes of a pointer-arithmetic mismatch (None = unexplained -> VIOLATION)"""
    tg = target(march)
    dm = tg['dm']
    esize = {'schar': 1, 'short': 2, 'int': tg['sz']['int'], 'llong': 8, 'struct': None}[et]
    if form[0] in ('p+n', 'n+p', 'p-n', '*((p-n)+1)', 'ptrdiff', 'compare', '++/--') and et != 'schar':
        # gen_binop scales the index in the IR type of the index: n * esize must fit there
        big = esize if esize else 16
        if any(not S.fits(dm, it, m * big) for m in (n, -n) if S.fits(dm, it, m)):
            return 'index-scaled-in-index-type'
    return None


def ptr_variant():
    """True when gen_binop scales the index in the pointer type (fixes/C01-pointer-index-scaling.diff)"""
    mod, _ = compile_c('x86_64', 'long long *f(long long *p, signed char n) { return p + n; }')
    from ppci import ir
    for b in mod.functions[0].blocks:
        for i in b.instructions:
            if isinstance(i, ir.Binop) and i.operation == '*':
                return i.ty is ir.ptr
    return None


def ptr_correspondence(ctx, full):
    """Model/CGenPtr.ptr_arith vs the real IR of `ET *f(ET *p, IT n) { return p OP n; }`"""
    fixed = ptr_variant()
    st = {'variant': 'scale_in_ptr' if fixed else 'scale_in_index', 'cases': 0}
    if fixed is None:
        ctx.failed_stages.append(('ptr_correspondence', 'no multiplication found in the IR of p + n'))
        return
    cc, recs = [], []
    k = 0
    for march in TARGETS:
        tg = target(march)
        dm = tg['dm']
        a = 4096
        for (et, cet, esize) in [('schar', 'signed char', 1), ('short', 'short', 2), ('int', 'int', tg['sz']['int']),
                                 ('llong', 'long long', 8)]:
            for it in S.TYPES:
                for op in ('+', '-'):
                    k += 1
                    if not full and k % 3:
                        continue
                    mod, err = compile_c(march, '%s *f(%s *p, %s n) { return p %s n; }' % (cet, cet, S.C_T[it], op))
                    if mod is None:
                        ctx.failed_stages.append(('ptr_correspondence', 'c_to_ir failed: ' + err))
                        continue
                    for n in [v for v in (1, 31, 127, -1, -100, 255, 40000) if S.fits(dm, it, v)][:4]:
                        real = run_ir(march, mod, [a, n])
                        cc.append(('ptr_arith (mk_cfg %d %d %d) %s %s %s %d %s %d'
                                   % (tg['cfg'] + ('true' if fixed else 'false', 'true' if op == '-' else 'false',
                                                   tg['irt'][it].upper(), a, S.coq_z(n), esize)), real))
                        recs.append((march, cet, it, op, n))
    st['cases'] = len(cc)
    bad = ctx.run_cases('cptr', ['Spec.IRSyntax', 'Spec.IRSem', 'Model.CGenExpr', 'Model.CGenPtr'], cc, shard=400)
    if bad:
        ctx.failed_stages.append(('ptr_correspondence', 'Model/CGenPtr.v disagrees with the real IR on %d cases, first %r'
                                  % (len(bad), recs[bad[0]])))
    ctx.cov['stages']['ptr_correspondence'] = st


def pointers(ctx, full):
    st = {'modules': 0, 'runs': 0, 'agree': 0, 'compile_error': 0, 'mismatch_known_class': 0, 'mismatch': 0}
    gcc_parts, gcc_calls, gcc_exp = ['#include <stdio.h>', 'struct S { int x; char y; long long z; };'], [], []
    combos = [(m, et, it) for m in TARGETS for (et, _c, _f) in PTR_ELEMS for it in S.TYPES]
    if not full:
        # quick: every (element, index type) pair on one target (rotating), every form, all values
        combos = [c for i, c in enumerate((m, et, it) for (et, _c, _f) in PTR_ELEMS for it in S.TYPES for m in TARGETS)
                  if i % 3 == (i // 3) % 3]
        combos += [('x86_64', et, it) for (et, _c, _f) in PTR_ELEMS for it in ('uchar', 'ushort', 'uint')
                   if ('x86_64', et, it) not in combos]
    for (march, et, it) in combos:
        tg = target(march)
        dm = tg['dm']
        forms = PTR_FORMS
        src = ptr_source(et, it, forms)
        mod, err = compile_c(march, src)
        if mod is None:
            st['compile_error'] += 1
            ctx.violation({'fn': 'c_to_ir pointer arithmetic', 'key': 'ptr-compile/%s' % err[:40], 'target': march,
                           'source': src, 'expected': 'compiles', 'actual': err,
                           'how_to_replay': 'ppci.api.c_to_ir(io.StringIO(source), "%s")' % march})
            continue
        st['modules'] += 1
        gm = None
        if march == 'x86_64':
            gm = st['modules']
            gsrc = ptr_source(et, it, forms, prefix='g%d_' % gm).replace('arr', 'arr%d' % gm)
            gcc_parts.append(gsrc.replace('struct S { int x; char y; long long z; };\n', ''))
        for k, form in enumerate(forms):
            for n in ptr_values(dm, it):
                if form[3] == 'nonneg' and n < 0:
                    continue
                exp = ptr_expected(dm, et, form, n)
                if gm is not None:
                    gcc_calls.append('printf("%%lld\\n", g%d_%d(%s));' % (gm, k, S.c_lit(dm, it, n)))
                    gcc_exp.append(exp)
                r = run_ir(march, mod, [n], fname='f%d' % k, fuel=600)
                st['runs'] += 1
                ctx.cov['evaluations'] += 1
                if isinstance(r, OkV) and r.v == exp:
                    st['agree'] += 1
                    continue
                cls = ptr_class(march, et, it, form, n)
                rec = {'fn': 'c_to_ir pointer arithmetic', 'form': form[0], 'elem': et, 'index_type': it, 'target': march,
                       'dm': DMNAME[march], 'source': src, 'function': 'f%d' % k, 'args': [n], 'expected': exp,
                       'actual': r.v if isinstance(r, OkV) else repr(r),
                       'how_to_replay': 'm = ppci.api.c_to_ir(io.StringIO(source), "%s"); tools/irsem_py.run_main(m, '
                                        '"f%d", [%d], 600, (ptr_size, 65536, 16777216))' % (march, k, n)}
                if cls:
                    st['mismatch_known_class'] += 1
                    rec['class'] = cls
                    rec['key'] = 'ptr/' + cls
                else:
                    st['mismatch'] += 1
                    rec['key'] = 'ptr/%s/%s' % (form[0], 'unsigned' if not S.signed(dm, it) else 'signed')
                ctx.violation(rec)
    # valid C that the front-end rejects (re-executed on every run; known findings while they fail)
    for cls, src in [('index-of-rvalue-pointer', 'int arr[8]; int f(int n) { int *p = &arr[4]; return (p - n)[1]; }')]:
        mod, err = compile_c('x86_64', src)
        if mod is None:
            ctx.violation({'fn': 'c_to_ir pointer arithmetic', 'class': cls, 'key': 'ptr/' + cls, 'target': 'x86_64',
                           'source': src, 'expected': 'compiles', 'actual': err,
                           'how_to_replay': 'ppci.api.c_to_ir(io.StringIO(source), "x86_64")'})
    ctx.cov['distinct_nontrivial'] += st['agree']
    # the independent evaluator against gcc (LP64)
    if gcc_calls:
        # one array per module copy: rename happened above by index; simpler: compile each copy separately in one file
        out, err = gcc_run('\n'.join(gcc_parts) + '\nint main(void) {\n' + '\n'.join(gcc_calls) + '\nreturn 0; }')
        if out is None:
            st['gcc'] = err[:200]
        else:
            got = [int(x) for x in out.split()]
            st['gcc_values'] = len(got)
            st['gcc_agree'] = sum(1 for a, b in zip(got, gcc_exp) if a == b)
            if got != gcc_exp:
                ctx.failed_stages.append(('ptr_evaluator_vs_gcc', 'the pointer evaluator disagrees with gcc on %d values'
                                          % (len(gcc_exp) - st['gcc_agree'])))
    ctx.cov['stages']['pointer_arithmetic'] = st
    return st


# ------------------------------------------------------------------ driver
def regen(ctx):
    """export the per-target parameters the model is instantiated with (tie I for the small tables)"""
    lines = ['(* generated by tools/props/c01.py from the CContext / CCodeGenerator of each target; do not edit *)',
             'From PV Require Import Lib.Py Spec.CIntSpec Model.CEval Model.CGenExpr Spec.IRSyntax.',
             'Open Scope Z_scope.']
    for m in TARGETS:
        lines.append('Definition tg_%s : cgen := %s.' % (m, target(m)['cgen']))
    lines.append('Definition sema_is_c11 : bool := %s.' % ('true' if sema_variant() in ('c11', 'c11a') else 'false'))
    ctx.write_gen('c01_targets', '\n'.join(lines) + '\n')
    ctx.cov['stages']['targets'] = {m: {'cgen': target(m)['cgen'], 'ir_types': target(m)['irt']} for m in TARGETS}
    ctx.cov['stages']['sema_variant'] = sema_variant()
    if sema_variant() == 'mixed':
        ctx.failed_stages.append(('regen', 'CSemantics.promote / get_common_type are neither the original nor the C11 variant'))


def run(ctx):
    import time
    wall = {}
    t0 = time.time()

    def lap(name):
        nonlocal t0
        wall[name] = round(time.time() - t0, 1)
        t0 = time.time()
    regen(ctx)
    ok, _ = ctx.build(['Proofs/C01_expr.vo', 'Proofs/C01_refuted.vo', 'Proofs/C01_ptr.vo', 'Proofs/C01_stmt.vo', 'Model/CGenExprRun.vo'])
    if ok:
        ctx.check_props('Props/C01.v')
    lap('coq')
    deep = not ctx.quick()
    n_expr = 4000 if deep else 250
    n_model = 900 if deep else 120          # cases that also go through the Coq model (structure + values)
    cases = []
    for i in range(n_expr):
        c = gen_case(ctx.rng, TARGETS[i % len(TARGETS)], 6)
        if c:
            cases.append(c)
    dist = {}
    for c in cases:
        cls = fragment_class(c[0], c[1], c[2], desugar(target(c[0])['dm'], c[3])) or 'in-fragment'
        dist['%s/%s' % (DMNAME[c[0]], cls)] = dist.get('%s/%s' % (DMNAME[c[0]], cls), 0) + 1
    ctx.cov['stages']['generated'] = {'expressions': len(cases), 'by_class': dist,
                                      'mean_size': round(sum(S.size(c[3]) for c in cases) / max(1, len(cases)), 1),
                                      'max_size': max(S.size(c[3]) for c in cases)}
    for c in cases[:: max(1, len(cases) // 8)]:
        ctx.note_sample({'target': c[0], 'program': c_function(target(c[0])['dm'], c[1], c[2], c[3]),
                         'args': list(c[4][0][0]), 'value': c[4][0][1]})
    lap('generate')
    if ok:
        correspondence(ctx, cases[:n_model])
    lap('correspondence')
    gcc_spec_validation(ctx, cases)
    lap('spec_vs_gcc')
    search(ctx, cases, n_extra=3000 if deep else 600)
    shift_family(ctx, deep)
    lap('search')
    if ok:
        statements_model(ctx, 900 if deep else 45, 300 if deep else 45)
    lap('statements_model')
    statements(ctx, 400 if deep else 30)
    lap('statements')
    if ok:
        ptr_correspondence(ctx, deep)
    pointers(ctx, deep)
    lap('pointers')
    if ctx.failed_stages and ctx.quick():
        search(ctx, None, n_extra=1500)
        lap('deep_search')
    ctx.cov['stages']['wall_s'] = wall
    ctx.cov['exhaustive'] = False
    ctx.cov['rule'] = RULE


MANIFEST = {
    'text': 'partial: unbounded Coq theorems for the integer fragment of the C front-end. Expressions (literals, locals, casts, '
            'unary - ~ ! +, binary + - * / % << >> & | ^, comparisons, && || ?:, comma, = and op=): the type CSemantics assigns is '
            'the C11 type and the IR trees CCodeGenerator builds (gen_expr/gen_binop/gen_cast/gen_condition, run with Spec/IRSem '
            'arithmetic) compute exactly the C value and the final values of the locals whenever the C value is defined, for '
            'every data model whose IR type map is faithful (x86_64, arm) and every expression on which ppci typing is C typing '
            '(all of them for the current code except `x op= e`; all of them with fixes/C01-compound-assign.diff). Statements: '
            'the control skeleton gen_stmt builds for compound and expression statements, initialised declarations, if, if-else, '
            'while, do-while, for, break, continue and return ends with the same outcome (normal/break/continue/return v) and '
            'store as a fuelled C big-step semantics, for all statements, stores and fuel (c01_stmt_exact). Pointer +/- integer: '
            'the scaling sequence is exact for every element size, index type and value (c01_ptr_arith_exact). Refuted with '
            'replayed witnesses: the historical common-type / promotion defects (fixed c83990b), the index scaled in the index '
            'type (fixed b4ad9a5), op= computed in the type of x (fix proposed), unsigned int lowered to signed i16 on 16-bit '
            'targets (known finding). switch, goto, arrays, structs, calls, globals, pointer comparison/difference/indexing are '
            'validated by differential execution (gcc -O0 with ubsan, independent evaluators) only.',
    'note': 'trusted: Coq kernel; hand models of CSemantics typing and CCodeGenerator lowering (Model/CGenExpr.v, CGenStmt.v, '
            'CGenPtr.v), whose block-level linearisation (emit_fn / emit_fn_stmt: block creation order, jump targets, phis, '
            'delete_unreachable, ids) is NOT part of the theorems but is compared per run with the real c_to_ir output '
            'structurally (hundreds of generated functions) and by executing the real IR with tools/irsem_py.py; Spec/IRSem '
            'arithmetic as IR meaning; the reading of C11 (Spec/CIntSpec, CExprSpec, CStmtSpec; cross-checked with a Python '
            'reading and gcc); irsem_py, irimport, gcc as oracles. Not modelled: parser, switch/goto, floats, structs, calls.',
    'technique': 'Coq proof on hand models (expressions, statement skeletons, pointer scaling) + structural/differential '
                 'correspondence with the real IR + gcc differential for the rest',
}
