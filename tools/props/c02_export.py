"""C02 — validation requests for Model/OptValidate.v from real before/after function pairs.

func_requests(ir, m0, m1, f0, f1) -> (coq_term_text, infos) | None
    coq_term_text : `map (check_spec default_cfg F F') [spec; ...]`  (a list bool, one per block pair)
    infos         : one dict per spec: block name, whether the pass changed the block
A spec = (bid before, bid after, rho, outs):
    rho  = (vid after, vid before) for every value name defined in both functions, outside this block
    outs = pairs of references that must be equal at the end of the block: the operands of the
           (identical) terminators and every value defined in both versions of the block.
Blocks are paired by name; blocks with calls, or whose terminators differ in kind / condition /
targets, are not requested (they are outside the validator's fragment).
"""
import irimport


def _defs(fpy):
    """value name -> (vid, block name) of a canonical function"""
    out = {}
    for bid, bname, instrs in fpy[4]:
        for i in instrs:
            if i[0] in ('const', 'binop', 'unop', 'cast', 'load', 'alloc', 'addressof', 'literal', 'phi',
                        'undefined', 'callf'):
                out[i[2]] = (i[1], bname if i[0] != 'phi' else None)   # a phi is bound on entry
    return out


def _cref(r):
    return irimport._cref(r)


TERM_OPERANDS = {'jump': [], 'exit': [], 'return': [1], 'cjump': [1, 3]}


def func_requests(ir, m0, m1, f0, f1):
    try:
        p0 = [f for f in irimport.module_to_py(m0)[3] if f[0] == f0.name][0]
        p1 = [f for f in irimport.module_to_py(m1)[3] if f[0] == f1.name][0]
    except irimport.NotRepresentable:
        return None
    d0, d1 = _defs(p0), _defs(p1)
    blocks1 = {b[1]: b for b in p1[4]}
    live0 = {b.name: b for b in f0.blocks}
    live1 = {b.name: b for b in f1.blocks}
    specs, infos = [], []
    for bid0, bname, ins0 in p0[4]:
        if bname not in blocks1:
            continue
        bid1, _, ins1 = blocks1[bname]
        if any(i[0] in ('callf', 'callp') for i in ins0 + ins1):
            continue
        t0, t1 = ins0[-1], ins1[-1]
        if t0[0] != t1[0] or t0[0] not in TERM_OPERANDS:
            continue
        if t0[0] == 'cjump' and (t0[2] != t1[2]):
            continue
        # targets must be the same blocks (by name)
        names0 = {b[0]: b[1] for b in p0[4]}
        names1 = {b[0]: b[1] for b in p1[4]}
        tg0 = [names0[x] for x in (t0[1:2] if t0[0] == 'jump' else t0[4:6] if t0[0] == 'cjump' else [])]
        tg1 = [names1[x] for x in (t1[1:2] if t1[0] == 'jump' else t1[4:6] if t1[0] == 'cjump' else [])]
        if tg0 != tg1:
            continue
        outs = ['(%s, %s)' % (_cref(t0[k]), _cref(t1[k])) for k in TERM_OPERANDS[t0[0]]]
        rho = []
        for name, (v1, b1) in d1.items():
            if name in d0:
                v0, b0 = d0[name]
                if b1 == bname and b0 == bname:
                    outs.append('(Loc %d, Loc %d)' % (v0, v1))
                elif b1 != bname and b0 != bname:
                    rho.append('(%d, %d)' % (v1, v0))
        specs.append('(%d, %d, [%s], [%s])' % (bid0, bid1, '; '.join(rho), '; '.join(outs)))
        changed = [str(i) for i in live0[bname].instructions] != [str(i) for i in live1[bname].instructions]
        infos.append({'block': bname, 'changed': changed})
    if not specs:
        return None
    term = ('map (check_spec default_cfg\n  (%s)\n  (%s))\n  [%s]%%positive'
            % (irimport.func_to_coq(p0), irimport.func_to_coq(p1), ';\n   '.join(specs)))
    return term, infos
