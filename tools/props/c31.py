"""C31 — regular-expression automata accept exactly the expression's language (DESIGN §4 C31).

tie H: coq/Model/Regex.v mirrors ppci/lang/tools/regex/{regex,compiler,scanner,parser}.py function by
function; Props/C31.v states the theorems about that model against the denotation of
Spec/RegLangSpec.v. This module (1) rebuilds the proofs, (2) runs model and implementation on the
same inputs (every regex AST up to a size bound over {a, b}, every word up to a length bound, every
short concrete-syntax string), (3) searches for a concrete failing input with two independent
oracles: a brute-force denotational matcher on the AST and Python's re.fullmatch on the concrete
syntax where the dialects coincide.
"""
import hashlib
import itertools
import os
import re as pyre

import vlib
from vlib import OkV, Diag, Internal, call_impl

LEVEL = 'proof'
RULE = ('regex ASTs: every tree of size <= 4 (quick; <= 5 thorough) over the leaves Eps, {a}, {b}, NULL, SIGMA built '
        'with the raw classes Kleene/Concatenation/LogicalOr/LogicalAnd (arguments their constructors reject are '
        'skipped); words: all words over {a,b} of length <= 4 (quick) / <= 5 (thorough); concrete syntax: every string '
        'of length <= 3 and 220 seeded samples of length 4 (thorough: every string <= 5) over the characters a b | * ( ) '
        'plus a fixed list exercising + ? . [..] \\ ; '
        'distinct non-trivial = distinct (regex, word) pairs with the regex not Eps/NULL and compile() succeeding')
EXPLANATION = ('Unbounded Coq theorems about the hand model (22 in Props/C31.v): nullable() <-> empty word in L; derivative = left '
               'quotient through every smart-constructor simplification; derivative classes sound, covering 0..255, pairwise '
               'disjoint; compile()+table run: total on words over 0..255 and accepts exactly L(r) (c31_run_total, '
               'c31_dfa_correct) whenever compile returns tables; compile termination under a decidable certificate '
               '(closed derivative set, c31_compile_terminates_certified) and fuel monotonicity - compile really diverges on '
               'e.g. a*a* and raises KeyError for .* (known findings, both reproduced by the model); scan() = maximal munch '
               'for non-nullable regexes in all outcomes (tokens / ValueError / never internal error; no fuel bound proved); '
               'the parser as found is refuted, the repaired parser returns exactly the grammar-prescribed AST for every '
               'well-formed syntax tree of the reference grammar (c31_parser_matches_grammar) whose language is the tree\'s '
               'language (c31_parser_language). Repaired variants (probed per run, switches in coverage.stages.switches): compile_fx '
               '(error state always present: c31_dfa_correct_fx holds also for ".*") and scan_fx (empty match = no match: '
               'c31_scan_total, termination within (len+2)^2 iterations for EVERY regex, c31_scan_correct_fx maximal munch '
               'without the non-nullable hypothesis). Modelled extensionally, not verified here: IntegerSet algorithms (C33).')
TRUSTED = ['hand model coq/Model/Regex.v (cross-checked against the implementation on every run: AST-level nu/derivative/'
           'classes/compile tables/run, smart constructors, IntegerSet operations, parser, scan)',
           'CPython: sorted()/list.sort() on int tuples = lexicographic insertion sort; bisect.bisect on a sorted list = '
           'number of entries below the key; dict keyed by Regex.__eq__/__hash__ = first structurally equal entry',
           'SymbolSet(IntegerSet) re-normalisation (IntegerSet(*iterable of ints)) is the identity on canonical sets']
ASSUMPTIONS = ['symbols are integers (code points); the automaton alphabet is SIGMA = 0..255',
               'regex objects are built from IntegerSet-normalised symbol sets (every range lo <= hi)']

SRC = ['ppci/lang/tools/regex/regex.py', 'ppci/lang/tools/regex/compiler.py', 'ppci/lang/tools/regex/scanner.py',
       'ppci/lang/tools/regex/parser.py', 'ppci/utils/integer_set.py']
FUEL = 200
IMPORTS = ['Spec.RegLangSpec', 'Model.Regex', 'Model.RegexVal']
KF_COMPILE = 'KeyError: error (NULL) state unreachable'
KF_DIVERGE = 'RecursionError: derivative states grow without bound'
KF_SCAN = 'scan yields empty tokens forever for a nullable regex'


# ---------------------------------------------------------------- implementation access
class Impl:
    def __init__(self):
        vlib.ensure_repo_on_path()
        import importlib
        import ppci.utils.integer_set as iset
        import ppci.lang.tools.regex.regex as rx
        import ppci.lang.tools.regex.parser as ps
        import ppci.lang.tools.regex.compiler as cp
        import ppci.lang.tools.regex.scanner as sc
        for m in (iset, rx, ps, cp, sc):
            importlib.reload(m)
        self.iset, self.rx, self.ps, self.cp, self.sc = iset, rx, ps, cp, sc

    def kind(self, x):
        return type(x).__name__


def re_term(x):
    """Coq term of a Python regex object"""
    k = type(x).__name__
    if k == 'Epsilon':
        return 'Eps'
    if k == 'SymbolSet':
        return '(Sym %s)' % ranges_term(x.symbols.ranges)
    if k == 'Kleene':
        return '(Star %s)' % re_term(x.expr)
    name = {'Concatenation': 'Cat', 'LogicalOr': 'Or', 'LogicalAnd': 'And'}[k]
    return '(%s %s %s)' % (name, re_term(x.lhs), re_term(x.rhs))


def ranges_term(rs):
    return '[%s]' % '; '.join('(%s, %s)' % (vlib.coq_z(a), vlib.coq_z(b)) for a, b in rs)


def re_pyval(x):
    """Python value whose to_val equals Model.RegexVal.re_val of the same tree"""
    k = type(x).__name__
    if k == 'Epsilon':
        return ('eps',)
    if k == 'SymbolSet':
        return ('sym', [tuple(r) for r in x.symbols.ranges])
    if k == 'Kleene':
        return ('star', re_pyval(x.expr))
    name = {'Concatenation': 'cat', 'LogicalOr': 'or', 'LogicalAnd': 'and'}[k]
    return (name, re_pyval(x.lhs), re_pyval(x.rhs))


def re_repr(x):
    k = type(x).__name__
    if k == 'Epsilon':
        return 'EPSILON'
    if k == 'SymbolSet':
        return 'SymbolSet(%r)' % ([tuple(r) for r in x.symbols.ranges],)
    if k == 'Kleene':
        return 'Kleene(%s)' % re_repr(x.expr)
    return '%s(%s, %s)' % (k, re_repr(x.lhs), re_repr(x.rhs))


def words_eq(n):
    if n == 0:
        return [[]]
    return [x for w in words_eq(n - 1) for x in ([97] + w, [98] + w)]


def words_upto(n):
    out = []
    for k in range(n + 1):
        out += words_eq(k)
    return out


def enum_asts(im, maxsize):
    """all trees up to maxsize, by size; raw constructors, invalid arguments skipped"""
    rx = im.rx
    by = {1: [rx.EPSILON, rx.Symbol('a'), rx.Symbol('b'), rx.NULL, rx.SIGMA]}
    for n in range(2, maxsize + 1):
        cur = []
        for x in by[n - 1]:
            cur.append(rx.Kleene(x))
        for k in range(1, n - 1):
            for x in by[k]:
                for y in by[n - 1 - k]:
                    for cls in (rx.Concatenation, rx.LogicalOr, rx.LogicalAnd):
                        try:
                            cur.append(cls(x, y))
                        except ValueError:
                            pass
        by[n] = cur
    return by


def real_run(im, prog, w):
    trs, acc, _err = prog
    st = 0
    for c in w:
        st = im.sc.pick_transition(trs, st, c)
    return bool(acc[st])


def impl_compile(im, r):
    """compile() under a low recursion limit: for regexes whose derivative set is infinite under the
    implemented simplifications (e.g. a*a*) the states nest ever deeper and compile() ends in a
    RecursionError; the low limit makes that happen quickly (the time grows very fast with the depth)"""
    import sys
    old = sys.getrecursionlimit()
    sys.setrecursionlimit(140)
    try:
        return im.cp.compile(r), None
    except RecursionError as ex:
        return None, ex
    except Exception as ex:   # noqa: BLE001
        return None, ex
    finally:
        sys.setrecursionlimit(old)


def real_runs(im, r, words):
    """list of OkV(bool)/Internal per word, and the compile outcome"""
    prog, ex = impl_compile(im, r)
    if ex is not None:
        return None, ex, [Internal for _ in words]
    outs = []
    for w in words:
        try:
            outs.append(OkV(real_run(im, prog, w)))
        except Exception:   # noqa: BLE001
            outs.append(Internal)
    return prog, None, outs


def prog_pyval(prog):
    trs, acc, err = prog
    return ([[tuple(t) for t in ts] for ts in trs], [bool(a) for a in acc], err)


# ---------------------------------------------------------------- independent oracle (denotation)
def bf_match(x, w, memo=None):
    """w in L(x), by the inductive definition (w: tuple of ints)"""
    if memo is None:
        memo = {}
    key = (id(x), w)
    if key in memo:
        return memo[key]
    k = type(x).__name__
    if k == 'Epsilon':
        r = len(w) == 0
    elif k == 'SymbolSet':
        r = len(w) == 1 and any(a <= w[0] <= b for a, b in x.symbols.ranges)
    elif k == 'Kleene':
        r = len(w) == 0 or any(bf_match(x.expr, w[:i], memo) and bf_match(x, w[i:], memo)
                               for i in range(1, len(w) + 1))
    elif k == 'Concatenation':
        r = any(bf_match(x.lhs, w[:i], memo) and bf_match(x.rhs, w[i:], memo) for i in range(len(w) + 1))
    elif k == 'LogicalOr':
        r = bf_match(x.lhs, w, memo) or bf_match(x.rhs, w, memo)
    elif k == 'LogicalAnd':
        r = bf_match(x.lhs, w, memo) and bf_match(x.rhs, w, memo)
    else:
        raise TypeError(k)
    memo[key] = r
    return r


def is_known_compile_failure(im, r, ex):
    """compile() fails with KeyError(NULL): the error state was never reached"""
    return isinstance(ex, KeyError) and len(ex.args) == 1 and isinstance(ex.args[0], im.rx.Regex) \
        and ex.args[0] == r.null


def report_compile_failure(ctx, im, r, ex, how):
    if isinstance(ex, RecursionError):
        ctx.violation({'fn': 'regex.compile', 'what': KF_DIVERGE, 'args': [how],
                       'actual': 'RecursionError (ever larger states)', 'expected': 'a DFA',
                       'how_to_replay': "PYTHONPATH=%s python -c \"from ppci.lang.tools.regex import compile; compile('a*a*')\"" % vlib.REPO})
    elif is_known_compile_failure(im, r, ex):
        ctx.violation({'fn': 'regex.compile', 'what': KF_COMPILE, 'args': [how],
                       'actual': 'KeyError', 'expected': 'a DFA',
                       'how_to_replay': "PYTHONPATH=%s python -c \"from ppci.lang.tools.regex import compile; compile('.*')\"" % vlib.REPO})
    else:
        ctx.violation({'fn': 'regex.compile', 'what': 'compile raised %s' % type(ex).__name__, 'args': [how],
                       'actual': repr(ex)[:200], 'expected': 'a DFA', 'key': 'compile-exception'})


def oracle_ast(ctx, im, maxsize, maxlen):
    """implementation (real tables) vs brute-force denotation; returns evaluations"""
    n = 0
    words = [tuple(w) for w in words_upto(maxlen)] + [(99,), (97, 99), (0,), (255, 97)]
    by = enum_asts(im, maxsize)
    for size in sorted(by):
        for r in by[size]:
            prog, ex, _ = real_runs(im, r, [])
            if ex is not None:
                report_compile_failure(ctx, im, r, ex, re_repr(r))
                continue
            memo = {}
            for w in words:
                n += 1
                exp = bf_match(r, w, memo)
                try:
                    got = real_run(im, prog, w)
                except Exception as e2:   # noqa: BLE001
                    got = 'exception %s' % type(e2).__name__
                if got != exp:
                    ctx.violation({'fn': 'regex.compile+run', 'args': [re_repr(r), list(w)], 'expected': exp,
                                   'actual': got, 'key': 'dfa-accepts-wrong-language',
                                   'how_to_replay': 'PYTHONPATH=%s python: from ppci.lang.tools.regex.regex import *; '
                                                    'from ppci.lang.tools.regex import compiler, scanner; prog = compiler.compile(%s); '
                                                    'run the tables on %r' % (vlib.REPO, re_repr(r), list(w))})
                    break
    return n


# ---- concrete syntax in the dialect shared with Python's re
def gen_syntax(depth):
    """regex texts from: atom ::= a | b | (alt) ; elem ::= atom [*+?] ; seq ::= elem{1,2} ; alt ::= seq | seq '|' seq"""
    atoms0 = ['a', 'b']
    alts = None
    for _d in range(depth):
        atoms = list(atoms0) + (['(%s)' % x for x in alts] if alts else [])
        elems = [a + m for a in atoms for m in ('', '*', '+', '?')]
        seqs = list(elems) + [x + y for x in elems[:12] for y in elems[:12]]
        alts = list(seqs[:40]) + [x + '|' + y for x in seqs[:14] for y in seqs[:14]]
    return alts


FIXED_SYNTAX = ['ab|cd', 'a|bc', 'ab|c', '(ab)*', '(a|b)*abb', 'a(b|c)d', 'ab|cd|ef', '(ab|cd)+', 'a|b|', '(|a)b',
                'a?b+c*', '(a*)*b', '((a))', 'a(bc)?d', 'x|y*z']


def oracle_syntax(ctx, im, thorough):
    n = 0
    texts = list(FIXED_SYNTAX)
    gen = gen_syntax(2)
    step = 1 if thorough else 7
    texts += gen[::step]
    alpha = 'ab' if not thorough else 'abc'
    maxlen = 4
    words = [''.join(p) for k in range(maxlen + 1) for p in itertools.product(alpha, repeat=k)]
    words += ['cd', 'abd', 'acd', 'abcd', 'ef', 'abb', 'aabb', 'babb', 'xz', 'yyz', 'abcbcd', 'ad', 'abcd']
    seen = set()
    for t in texts:
        if t in seen:
            continue
        seen.add(t)
        try:
            ref = pyre.compile(t)
        except pyre.error:
            continue
        try:
            expr = im.ps.parse(t)
        except Exception as ex:   # noqa: BLE001
            ctx.violation({'fn': 'regex.parse', 'args': [t], 'expected': 'a regex (valid in the shared dialect)',
                           'actual': 'exception %s: %s' % (type(ex).__name__, ex), 'key': 'parse',
                           'how_to_replay': "PYTHONPATH=%s python -c \"from ppci.lang.tools.regex import parse; print(parse(%r))\"" % (vlib.REPO, t)})
            continue
        prog, ex = impl_compile(im, expr)
        if ex is not None:
            report_compile_failure(ctx, im, expr, ex, t)
            continue
        for w in words:
            n += 1
            exp = ref.fullmatch(w) is not None
            try:
                got = real_run(im, prog, [ord(c) for c in w])
            except Exception as e2:   # noqa: BLE001
                got = 'exception %s' % type(e2).__name__
            if got != exp:
                ctx.violation({'fn': 'regex.parse+compile+run', 'args': [t], 'word': w, 'expected': exp, 'actual': got,
                               'parsed_as': str(expr), 'key': 'parse',
                               'how_to_replay': "PYTHONPATH=%s python -c \"from ppci.lang.tools.regex import parse; print(parse(%r))\"  "
                                                "# then compile() and run the tables on %r; re.fullmatch says %s" % (vlib.REPO, t, w, exp)})
                break
    return n


def witness_scan_divergence(ctx, im):
    """known finding: scan() yields '' forever for a nullable regex"""
    try:
        prog = im.cp.compile(im.rx.Kleene(im.rx.Symbol('a')))
        toks = list(itertools.islice(im.sc.scan(prog, 'b'), 50))
    except Exception:   # noqa: BLE001
        return
    if len(toks) >= 50:
        ctx.violation({'fn': 'regex.scan', 'what': KF_SCAN, 'args': ['a*', 'b'], 'expected': 'termination',
                       'actual': '50+ empty tokens',
                       'how_to_replay': "PYTHONPATH=%s python -c \"import itertools; from ppci.lang.tools.regex import compile, scan; "
                                        "print(list(itertools.islice(scan(compile('a*'), 'b'), 5)))\"" % vlib.REPO})


def witness_compile_keyerror(ctx, im):
    r = im.rx.Kleene(im.rx.SIGMA)
    _prog, ex = impl_compile(im, r)
    if ex is not None:
        report_compile_failure(ctx, im, r, ex, '.*')
    a = im.rx.Kleene(im.rx.Symbol('a'))
    _prog, ex = impl_compile(im, a + a)
    if ex is not None:
        report_compile_failure(ctx, im, a + a, ex, 'a*a*')


def search(ctx, deep=None):
    im = Impl()
    thorough = (not ctx.quick()) or bool(ctx.failed_stages) if deep is None else deep
    n = 0
    # the canonical witness of the precedence defect first, so that its replay is the one kept
    n += oracle_syntax(ctx, im, thorough)
    n += oracle_ast(ctx, im, 5 if thorough else 4, 5 if thorough else 4)
    witness_compile_keyerror(ctx, im)
    witness_scan_divergence(ctx, im)
    ctx.cov['stages']['oracle'] = {'evaluations': n, 'deep': bool(thorough)}
    ctx.cov['evaluations'] += n


# ---------------------------------------------------------------- correspondence
def regen(ctx):
    h = {}
    for p in SRC:
        with open(os.path.join(vlib.REPO, p), 'rb') as f:
            h[p] = hashlib.sha256(f.read()).hexdigest()[:16]
    ctx.cov['stages']['sources'] = h
    return None


def outcome_re(r):
    return OkV(re_pyval(r.v)) if isinstance(r, OkV) else r


def probe_switches(ctx, im):
    """which repairs does the implementation contain? (the model follows: Model.RegexVal.*_sw)"""
    _prog, ex = impl_compile(im, im.rx.Kleene(im.rx.SIGMA))
    fxc = ex is None
    fxs = False
    try:
        prog, _ = impl_compile(im, im.rx.Kleene(im.rx.Symbol('a')))
        toks = list(itertools.islice(im.sc.scan(prog, 'b'), 50))
        fxs = len(toks) < 50
    except ValueError:
        fxs = True
    except Exception:   # noqa: BLE001
        fxs = False
    ctx.cov['stages']['switches'] = {'compile_error_state_repaired': fxc, 'scan_empty_match_repaired': fxs}
    return fxc, fxs


def coqb(b):
    return 'true' if b else 'false'


def corr_ast(ctx, im, maxsize, maxlen, fxc=False):
    by = enum_asts(im, maxsize)
    words = words_upto(maxlen)
    cases, recs = [], []
    nontriv = 0
    dist = {'asts': 0, 'compile_ok': 0, 'compile_internal': 0}
    for size in sorted(by):
        for r in by[size]:
            t = re_term(r)
            dist['asts'] += 1
            # regex.py level
            impl1 = (re_pyval(r.nu()), bool(r.nullable()),
                     [re_pyval(r.derivative(c)) for c in (97, 98, 99)],
                     [[tuple(x) for x in k.ranges] for k in r.derivative_classes()])
            cases.append(('case_regex %s' % t, impl1))
            recs.append(('regex', r))
            # compiler.py / scanner.py level
            prog, ex, outs = real_runs(im, r, words)
            if ex is None:
                dist['compile_ok'] += 1
                cases.append(('case_compile_sw %s %d %s' % (coqb(fxc), FUEL, t), OkV(prog_pyval(prog))))
                if type(r).__name__ != 'Epsilon' and r != im.rx.NULL:
                    nontriv += len(words)
            else:
                dist['compile_internal'] += 1
                cases.append(('case_compile_sw %s %d %s' % (coqb(fxc), FUEL, t), Internal))
            recs.append(('compile', r))
            cases.append(('case_run_sw %s %d %s %d' % (coqb(fxc), FUEL, t, maxlen), outs))
            recs.append(('run', r))
    # the hypothesis re_canon of the DFA/scan theorems holds for every regex object Python can build
    terms = [re_term(r) for size in sorted(by) for r in by[size]]
    for k in range(0, len(terms), 60):
        cases.append(('forallb re_canonb [%s]' % '; '.join(terms[k:k + 60]), True))
        recs.append(('re_canonb', by[1][0]))
    dist['canon_batches'] = (len(terms) + 59) // 60
    ctx.cov['stages']['correspondence_ast'] = dist
    ctx.cov['distinct_nontrivial'] += nontriv
    for k in (7, len(recs) // 2, len(recs) - 2):
        if 0 <= k < len(recs):
            ctx.note_sample({'stage': recs[k][0], 'regex': re_repr(recs[k][1])})
    bad = ctx.run_cases('ast', IMPORTS + ['Proofs.C31_total'], cases)
    if bad:
        for i in bad[:5]:
            ctx.log('model/implementation disagree:', recs[i][0], re_repr(recs[i][1]))
        ctx.failed_stages.append(('correspondence', 'Model.Regex disagrees with the implementation on %d AST cases, first: %s %s'
                                  % (len(bad), recs[bad[0]][0], re_repr(recs[bad[0]][1]))))


def corr_smart(ctx, im):
    by = enum_asts(im, 3)
    pool = by[1] + by[2] + by[3][::20]
    cases, recs = [], []
    for x in pool:
        for y in pool:
            tx, ty = re_term(x), re_term(y)
            cases.append(('case_smart %s %s' % (tx, ty), (re_pyval(x + y), re_pyval(x | y), re_pyval(x & y))))
            recs.append((x, y))
    ctx.cov['stages']['correspondence_smart'] = len(cases)
    bad = ctx.run_cases('smart', IMPORTS, cases)
    if bad:
        x, y = recs[bad[0]]
        ctx.failed_stages.append(('correspondence', 'smart constructors disagree on %d pairs, first: %s , %s'
                                  % (len(bad), re_repr(x), re_repr(y))))


def corr_iset(ctx, im):
    rng = ctx.rng
    IS = im.iset.IntegerSet
    cases = []

    def rand_ranges():
        out = []
        for _ in range(rng.randrange(0, 5)):
            base = rng.choice([0, 0, 0, 250, 95])
            a = base + rng.randrange(-2, 13)
            b = a + rng.choice([-1, 0, 0, 1, 2, 5])
            out.append((a, b))
        return out
    for _ in range(160):
        ra, rb = rand_ranges(), rand_ranges()
        A, B = IS(*ra), IS(*rb)
        probe = sorted({x for r in ra + rb for x in (r[0] - 1, r[0], r[1], r[1] + 1)})[:12]
        impl = ([tuple(r) for r in A.ranges], [tuple(r) for r in (A | B).ranges], [tuple(r) for r in (A & B).ranges],
                [tuple(r) for r in (A - B).ranges], [x in A for x in probe], bool(A))
        ta, tb = ranges_term(ra), ranges_term(rb)
        cases.append(('case_iset %s %s [%s]' % (ta, tb, '; '.join(vlib.coq_z(x) for x in probe)), impl))
    ctx.cov['stages']['correspondence_iset'] = len(cases)
    bad = ctx.run_cases('iset', IMPORTS, cases)
    if bad:
        ctx.failed_stages.append(('correspondence', 'interval-set model disagrees with IntegerSet on %d cases' % len(bad)))


PARSER_EXTRA = ['ab|cd', '(ab)*', 'a+', 'a?b', '[0-9]+', '[a-c]x', '[ab]', '[^a]', '[]', '[a', '[a-', '[b-a]', '[a-a]', 'a.b', '.*',
                '\\|', '\\\\', 'a\\', 'a**', '*a', 'a)', '(a', '()', '(|)', 'a||b', '|', 'a|', '|a', '[\\]]', '[a\\-c]', '[a-c-e]',
                'ab?c+d*', '((a|b)c)*', '(a|b)(c|d)', 'a|b|c|d', '[0-9]+hi', 'a?a?aa', '(', ')', '[', ']', '?', '+', '-', '^']


def corr_parser(ctx, im, maxlen):
    texts = list(PARSER_EXTRA)
    for k in range(0, maxlen + 1):
        level = [''.join(p) for p in itertools.product('ab|*()', repeat=k)]
        if ctx.quick() and k >= 4:
            level = ctx.rng.sample(level, 220)      # quick tier: length 4 is sampled (seeded), <= 3 exhaustive
        texts += level
    cases, recs = [], []
    dist = {'ok': 0, 'diag': 0, 'internal': 0}
    seen = set()
    for t in texts:
        if t in seen:
            continue
        seen.add(t)
        out = outcome_re(call_impl(im.ps.parse, [t], diag=(ValueError,)))
        dist['ok' if isinstance(out, OkV) else ('diag' if out is Diag else 'internal')] += 1
        cases.append(('case_parse %d [%s]' % (FUEL, '; '.join(str(ord(c)) for c in t)), out))
        recs.append(t)
    ctx.cov['stages']['correspondence_parser'] = dist
    bad = ctx.run_cases('parser', IMPORTS, cases)
    if bad:
        ctx.log('parser model (repaired grammar) and implementation disagree on %d texts, e.g. %r'
                % (len(bad), [recs[i] for i in bad[:8]]))
        ctx.failed_stages.append(('correspondence', 'parser: Model.Regex.parse disagrees with regex.parser.parse on %d texts, first: %r'
                                  % (len(bad), recs[bad[0]])))


def corr_scan(ctx, im, maxlen, fxc=False, fxs=False):
    rx = im.rx
    a, b = rx.Symbol('a'), rx.Symbol('b')
    pool = [a, a + b, a + rx.Kleene(a), (a + b) | (b + b + a), rx.Kleene(a) + b, (a | b) + rx.Kleene(a + b),
            rx.SymbolSet([(97, 98)]) + rx.Kleene(b),
            # nullable token regexes (diverge before the scan repair) and an unreachable error state
            rx.Kleene(a), a | rx.EPSILON, rx.Kleene(a + b), rx.Kleene(rx.SIGMA), rx.SIGMA + rx.Kleene(rx.SIGMA)]
    words = words_upto(maxlen)
    cases = []
    for r in pool:
        prog, ex = impl_compile(im, r)
        outs = []
        for w in words:
            if ex is not None:
                outs.append(Internal)
                continue
            txt = ''.join(chr(c) for c in w)
            try:
                toks = list(itertools.islice(im.sc.scan(prog, txt), len(w) + 3))
                # more tokens than characters: the scan makes no progress (diverges); the model runs out of fuel
                outs.append(Internal if len(toks) >= len(w) + 3 else OkV([[ord(c) for c in tok] for tok in toks]))
            except ValueError:
                outs.append(Diag)
            except Exception:   # noqa: BLE001
                outs.append(Internal)
        cases.append(('case_scan_sw %s %s %d %s %d' % (coqb(fxc), coqb(fxs), FUEL, re_term(r), maxlen), outs))
    ctx.cov['stages']['correspondence_scan'] = {'regexes': len(pool), 'words': len(words)}
    bad = ctx.run_cases('scan', IMPORTS, cases)
    if bad:
        ctx.failed_stages.append(('correspondence', 'scan model disagrees with scanner.scan for %s' % re_repr(pool[bad[0]])))


def run(ctx):
    import time as _t
    w = ctx.cov['stages'].setdefault('wall_s', {})
    w['before_run'] = round(_t.time() - ctx.t0, 1)
    regen(ctx)
    im = Impl()
    t = _t.time()
    ok, _ = ctx.build(['Props/C31.vo', 'Model/RegexVal.vo'])
    w['build'] = round(_t.time() - t, 1)
    if ok:
        t = _t.time()
        ctx.check_props('Props/C31.v')
        w['props'] = round(_t.time() - t, 1)
        quick = ctx.quick()
        fxc, fxs = probe_switches(ctx, im)
        import time
        for name, fn in (('ast', lambda: corr_ast(ctx, im, 4 if quick else 5, 4 if quick else 5, fxc)),
                         ('smart', lambda: corr_smart(ctx, im)), ('iset', lambda: corr_iset(ctx, im)),
                         ('parser', lambda: corr_parser(ctx, im, 4 if quick else 5)),
                         ('scan', lambda: corr_scan(ctx, im, 4 if quick else 5, fxc, fxs))):
            t = time.time()
            fn()
            ctx.cov['stages'].setdefault('wall_s', {})[name] = round(time.time() - t, 1)
    import time
    t = time.time()
    search(ctx)
    ctx.cov['stages'].setdefault('wall_s', {})['search'] = round(time.time() - t, 1)
    ctx.cov['exhaustive'] = False


MANIFEST = {
    'text': 'proof: unbounded Coq theorems over the hand model of ppci/lang/tools/regex: nullable(r) <-> [] in L(r); '
            'L(derivative(r,c)) = c^-1 L(r) including all smart-constructor simplifications; derivative classes are sound, cover '
            '0..255 and are pairwise disjoint; whenever compile() returns tables, the table-driven run is total on words over 0..255 '
            'and accepts exactly L(r); compile() terminates under a decidable closed-derivative-set certificate; scan() returns the '
            'maximal-munch split for non-nullable regexes (ValueError iff none exists, never an internal error); the repaired parser '
            '(fix applied) returns for every well-formed syntax tree of the reference grammar exactly the grammar-prescribed regex, '
            'whose language is the tree\'s language; the parser as found is refuted in Coq ("ab|cd" parsed as a(b|c)d)',
    'note': 'trusted: Coq kernel; hand model (tie H) cross-checked on every run against the real code on all ASTs of size <= 4/5 '
            'x all words <= 4/5 over {a,b} (nu, derivative, classes, full DFA tables, run, canonical-set hypothesis) and short '
            'concrete-syntax strings; IntegerSet contains/intersection/difference modelled extensionally (property C33 covers the '
            'algorithms). Not proved: fuel bound for scan, termination of compile in general (false: known finding). Known findings: '
            'compile() KeyError when the NULL state is unreachable (".*"); compile() diverges when derivatives are not finite modulo '
            'the implemented simplifications ("a*a*"); scan() diverges on nullable regexes. The first and the last are repaired by '
            'fixes/C31-regex-compile-error-state.diff and fixes/C31-regex-scan-empty-match.diff; the model contains both variants '
            '(compile/compile_fx, scan/scan_fx), the check probes the source and cross-checks the matching one; theorems '
            'c31_dfa_correct_fx, c31_scan_total, c31_scan_correct_fx are about the repaired variants.',
    'technique': 'Coq proof over hand model (Brzozowski derivatives, recursive-descent round trip) + exhaustive small-domain correspondence + two independent oracles',
}
