"""c28_gen — grammar-based generator of (mostly) valid C programs for the C28 search.

Typed generation: every expression is produced for a requested type, names are declared before use, labels are
defined, case labels are distinct. "Mostly": the oracle of C28 never needs validity (a CompilerError is an allowed
outcome); validity only matters for reaching the later compiler stages, and the accepted fraction is reported.
One declaration / statement per line, so that line-based delta debugging works.
"""

INTS = ['char', 'signed char', 'unsigned char', 'short', 'unsigned short', 'int', 'unsigned int', 'long',
        'unsigned long', 'long long', 'unsigned long long']
FLTS = ['float', 'double']

ALL_FEATURES = ['struct', 'union', 'enum', 'typedef', 'array', 'pointer', 'fptr', 'bitfield', 'initlist',
                'designator', 'switch', 'goto', 'dowhile', 'ternary', 'sizeof', 'cast', 'string', 'variadic',
                'float', 'longlong', 'compound_assign', 'incdec', 'comma', 'static', 'qualifiers', 'preproc',
                'structcopy', 'range_case', 'compound_literal', 'char_lit', 'for_decl', 'nested_fn_ptr']


def T_int(n='int'):
    return ('int', n)


def T_ptr(t):
    return ('ptr', t)


def T_arr(t, n):
    return ('arr', t, n)


VOID = ('void',)


def is_int(t):
    return t[0] in ('int', 'enum')


def is_arith(t):
    return t[0] in ('int', 'enum', 'flt')


def is_scalar(t):
    return t[0] in ('int', 'enum', 'flt', 'ptr')


class CGen:
    def __init__(self, rng, feats=None, size=3):
        self.r = rng
        self.f = set(ALL_FEATURES if feats is None else feats)
        self.size = size
        self.lines = []
        self.n = 0
        self.structs = {}      # tag -> (kind, [(fname, type, bits)])
        self.enums = {}        # tag -> [const names]
        self.enum_consts = []
        self.typedefs = []     # (name, type)
        self.globals = []      # (name, type, const?)
        self.funcs = []        # (name, ret, [param types], variadic)
        self.scopes = []       # list of lists of (name, type, const?)
        self.labels = []
        self.gotos = set()
        self.loop = 0
        self.in_switch = 0
        self.ret = VOID

    # ---------------------------------------------------------------- helpers
    def has(self, f):
        return f in self.f

    def name(self, p):
        self.n += 1
        return '%s%d' % (p, self.n)

    def ch(self, xs):
        return self.r.choice(xs)

    def p(self, x):
        return self.r.random() < x

    def emit(self, s, ind=0):
        self.lines.append('  ' * ind + s)

    # ---------------------------------------------------------------- types
    def int_type(self):
        names = INTS if self.has('longlong') else INTS[:9]
        return ('int', self.ch(names))

    def base_type(self):
        c = self.r.random()
        if c < 0.55:
            return self.int_type()
        if c < 0.65 and self.has('float'):
            return ('flt', self.ch(FLTS))
        if c < 0.78 and self.structs:
            tag = self.ch(sorted(self.structs))
            return (self.structs[tag][0], tag)
        if c < 0.85 and self.enums:
            return ('enum', self.ch(sorted(self.enums)))
        return T_int('int')

    def rand_type(self, depth=2, allow_arr=True):
        t = self.base_type()
        while depth > 0 and self.p(0.35):
            depth -= 1
            c = self.r.random()
            if c < 0.5 and self.has('pointer'):
                t = T_ptr(t)
            elif c < 0.85 and allow_arr and self.has('array'):
                t = T_arr(t, self.r.randint(1, 6))
            elif self.has('fptr') and t[0] != 'arr':
                ps = [self.scalar_type() for _ in range(self.r.randint(0, 3))]
                t = T_ptr(('func', t, ps, False))
        return t

    def scalar_type(self):
        c = self.r.random()
        if c < 0.7:
            return self.int_type()
        if c < 0.8 and self.has('float'):
            return ('flt', self.ch(FLTS))
        if self.has('pointer'):
            return T_ptr(self.base_type())
        return T_int()

    def tname(self, t):
        """type name without declarator"""
        return self.decl(t, '')

    def decl(self, t, inner):
        k = t[0]
        if k in ('int', 'flt'):
            b = t[1]
        elif k == 'void':
            b = 'void'
        elif k in ('struct', 'union', 'enum'):
            b = '%s %s' % (k, t[1])
        elif k == 'named':
            b = t[1]
        elif k == 'ptr':
            s = t[1]
            if s[0] in ('arr', 'func'):
                return self.decl(s, '(*%s)' % inner)
            return self.decl(s, '*' + inner)
        elif k == 'arr':
            return self.decl(t[1], '%s[%s]' % (inner, t[2]))
        elif k == 'func':
            ps = ', '.join(self.decl(x, '') for x in t[2]) or 'void'
            if t[3]:
                ps += ', ...'
            return self.decl(t[1], '%s(%s)' % (inner, ps))
        else:
            raise ValueError(t)
        return (b + ' ' + inner).rstrip() if inner else b

    def resolve(self, t):
        return t[2] if t[0] == 'named' else t

    # ---------------------------------------------------------------- constants
    def int_lit(self, t=None):
        """integer literal that fits the type its suffix gives it on every target (int may be 16 bit)"""
        r = self.r
        c = r.random()
        if c < 0.55:
            v, suf = r.randint(0, 20), r.choice(['', '', '', 'u', 'l', 'U', 'L', 'ul'])
        elif c < 0.75:
            v, suf = r.choice([0, 1, 7, 8, 15, 16, 31, 32, 63, 64, 100, 127, 128, 255, 256, 1000, 32767]), \
                r.choice(['', '', 'u', 'l'])
        elif c < 0.85:
            v, suf = r.choice([32768, 65535]), r.choice(['u', 'l', 'ul', 'U'])
        elif c < 0.95:
            v, suf = r.choice([65536, 100000, 2147483647, r.randint(0, 1 << 31) - 1 & 0x7fffffff]), r.choice(['l', 'L', 'ul'])
        else:
            v, suf = r.choice([2147483648, 4294967295, r.randint(0, 1 << 62)]), \
                (r.choice(['ll', 'LL', 'ull']) if self.has('longlong') else 'ul')
            if suf == 'ul':
                v &= 0xffffffff
        c = r.random()
        s = str(v) if c < 0.6 else hex(v) if c < 0.85 else ('0' + oct(v)[2:] if v else '0')
        s += suf
        if self.has('char_lit') and r.random() < 0.08:
            s = r.choice(["'a'", "'\\n'", "'\\0'", "'\\x41'", "'\\\\'", "'\\''", "'\\101'", "'0'", "' '", "'\\t'"])
        return s

    def flt_lit(self):
        if self.p(0.03):
            return self.ch(['1e3', '1e-2', '1E+2', '7.0e0', '2.5e+3', '3.14f', '1.5F'])     # exponent forms: rare (lexer findings)
        return self.ch(['0.0', '1.0', '2.5', '3.14', '.5', '1.', '100.25', '0.125', '1.5', '6.02'])

    def const_int(self, depth=2):
        """integer constant expression"""
        r = self.r
        if depth <= 0 or r.random() < 0.4:
            if self.enum_consts and r.random() < 0.15:
                return r.choice(self.enum_consts)
            if self.has('sizeof') and r.random() < 0.1:
                return 'sizeof(%s)' % self.tname(self.int_type())
            return self.int_lit()
        c = r.random()
        a = self.const_int(depth - 1)
        if c < 0.15:
            return '%s(%s)' % (r.choice(['-', '~', '!', '+']), a)
        if c < 0.25 and self.has('cast'):
            return '(%s)(%s)' % (self.tname(self.int_type()), a)
        if c < 0.33 and self.has('ternary'):
            return '((%s) ? (%s) : (%s))' % (a, self.const_int(depth - 1), self.const_int(depth - 1))
        b = self.const_int(depth - 1)
        op = r.choice(['+', '-', '*', '&', '|', '^', '<', '>', '<=', '>=', '==', '!=', '&&', '||', '<<', '>>', '/', '%'])
        if op in ('<<', '>>'):
            b = str(r.randint(0, 7))
        if op in ('/', '%'):
            b = '(%s | 1)' % b      # keep the divisor non-zero: the valid stream has defined constants
        return '(%s %s %s)' % (a, op, b)

    # ---------------------------------------------------------------- environment
    def all_vars(self):
        out = list(self.globals)
        for s in self.scopes:
            out += s
        return out

    def places(self, depth=2):
        """[(lvalue text, type, const?)] reachable from the variables in scope"""
        out = []
        for (n, t, c) in self.all_vars():
            self._paths(n, self.resolve(t), c, depth, out)
        return out

    def _paths(self, e, t, c, depth, out):
        out.append((e, t, c))
        if depth <= 0:
            return
        k = t[0]
        if k == 'arr':
            idx = str(self.r.randint(0, max(0, t[2] - 1))) if self.p(0.6) else None
            if idx is None:
                iv = [p for p in out if p[1][0] == 'int' and '[' not in p[0]][:6]
                idx = self.ch(iv)[0] if iv else '0'
            self._paths('%s[%s]' % (e, idx), self.resolve(t[1]), c, depth - 1, out)
        elif k in ('struct', 'union'):
            for (fn, ft, bits) in self.structs.get(t[1], (k, []))[1]:
                if fn:
                    self._paths('%s.%s' % (e, fn), self.resolve(ft), c or bits is not None and False, depth - 1, out)
        elif k == 'ptr':
            s = self.resolve(t[1])
            if s[0] in ('struct', 'union'):
                for (fn, ft, bits) in self.structs.get(s[1], (k, []))[1]:
                    if fn:
                        self._paths('%s->%s' % (e, fn), self.resolve(ft), False, depth - 1, out)
            elif s[0] not in ('func', 'void'):
                self._paths('(*%s)' % e, s, False, depth - 1, out)

    def same(self, a, b):
        return self.resolve(a) == self.resolve(b)

    # ---------------------------------------------------------------- expressions
    def expr(self, t, depth=3):
        t = self.resolve(t)
        k = t[0]
        if k in ('int', 'enum'):
            return self.int_expr(depth)
        if k == 'flt':
            return self.flt_expr(depth)
        if k == 'ptr':
            return self.ptr_expr(t, depth)
        if k in ('struct', 'union'):
            ps = [p for p in self.places(1) if p[1] == t]
            if ps:
                return self.ch(ps)[0]
            fs = [f for f in self.funcs if self.resolve(f[1]) == t and not f[2]]
            if fs:
                return '%s()' % self.ch(fs)[0]
            return None
        return None

    def lvalue(self, pred, depth=2):
        ps = [p for p in self.places(depth) if pred(p[1]) and not p[2]]
        return self.ch(ps) if ps else None

    def int_expr(self, depth=3):
        r = self.r
        if depth <= 0 or r.random() < 0.25:
            c = r.random()
            if c < 0.55:
                lv = self.lvalue_any(is_int)
                if lv:
                    return lv[0]
            if c < 0.65 and self.enum_consts:
                return r.choice(self.enum_consts)
            return self.int_lit()
        c = r.random()
        d = depth - 1
        if c < 0.30:
            op = r.choice(['+', '-', '*', '/', '%', '&', '|', '^', '<<', '>>'])
            return '(%s %s %s)' % (self.int_expr(d), op, self.int_expr(d))
        if c < 0.40:
            op = r.choice(['<', '>', '<=', '>=', '==', '!='])
            if self.has('float') and r.random() < 0.2:
                return '(%s %s %s)' % (self.flt_expr(d), op, self.arith_expr(d))
            if self.has('pointer') and r.random() < 0.15:
                pl = self.lvalue_any(lambda t: t[0] == 'ptr')
                if pl:
                    return '(%s %s %s)' % (pl[0], r.choice(['==', '!=']), r.choice(['0', pl[0], '(void*)0']))
            return '(%s %s %s)' % (self.int_expr(d), op, self.int_expr(d))
        if c < 0.47:
            return '(%s %s %s)' % (self.cond_expr(d), r.choice(['&&', '||']), self.cond_expr(d))
        if c < 0.54:
            return ('!(%s)' % self.cond_expr(d)) if r.random() < 0.3 else '%s(%s)' % (r.choice(['-', '~', '!', '+']), self.int_expr(d))
        if c < 0.60 and self.has('ternary'):
            return '(%s ? %s : %s)' % (self.cond_expr(d), self.int_expr(d), self.int_expr(d))
        if c < 0.66 and self.has('cast'):
            src = self.arith_expr(d) if r.random() < 0.8 or not self.has('pointer') else self.ptr_any(d)
            ty = self.int_type()
            if src is not None:
                return '(%s)%s' % (self.tname(ty), src if src.startswith('(') else '(%s)' % src)
        if c < 0.71 and self.has('sizeof'):
            if r.random() < 0.5:
                return 'sizeof(%s)' % self.tname(self.rand_type())
            pl = self.lvalue_any(lambda t: t[0] != 'func')
            return 'sizeof %s' % (pl[0] if pl and pl[0].startswith('(') else '(%s)' % (pl[0] if pl else '1'))
        if c < 0.79:
            call = self.call_expr(lambda t: is_int(self.resolve(t)), d)
            if call:
                return call
        if c < 0.86:
            lv = self.lvalue(is_int)
            if lv:
                ops = ['=']
                if self.has('compound_assign'):
                    ops += ['+=', '-=', '*=', '/=', '%=', '&=', '|=', '^=', '<<=', '>>=']
                return '(%s %s %s)' % (lv[0], r.choice(ops), self.arith_expr(d) if r.random() < 0.2 else self.int_expr(d))
        if c < 0.91 and self.has('incdec'):
            lv = self.lvalue(is_int)
            if lv:
                return r.choice(['(%s++)', '(%s--)', '(++%s)', '(--%s)']) % lv[0]
        if c < 0.94 and self.has('comma'):
            return '(%s, %s)' % (self.any_expr(d), self.int_expr(d))
        if c < 0.97 and self.has('pointer'):
            pl = self.lvalue_any(lambda t: t[0] == 'ptr' and self.resolve(t[1])[0] not in ('func', 'void'))
            if pl:
                return '(%s - %s)' % (pl[0], pl[0]) if r.random() < 0.5 else '(int)(%s != 0)' % pl[0]
        return self.int_expr(0)

    def lvalue_any(self, pred, depth=2):
        ps = [p for p in self.places(depth) if pred(p[1])]
        return self.ch(ps) if ps else None

    def cond_expr(self, d):
        r = self.r
        c = r.random()
        if c < 0.15 and self.has('pointer'):
            pl = self.lvalue_any(lambda t: t[0] == 'ptr')
            if pl:
                return pl[0]
        if c < 0.25 and self.has('float'):
            return self.flt_expr(d)
        return self.int_expr(d)

    def arith_expr(self, d):
        if self.has('float') and self.p(0.3):
            return self.flt_expr(d)
        return self.int_expr(d)

    def any_expr(self, d):
        c = self.r.random()
        if c < 0.2 and self.has('pointer'):
            e = self.ptr_any(d)
            if e:
                return e
        return self.arith_expr(d)

    def flt_expr(self, depth=2):
        r = self.r
        if depth <= 0 or r.random() < 0.3:
            lv = self.lvalue_any(lambda t: t[0] == 'flt')
            if lv and r.random() < 0.6:
                return lv[0]
            return self.flt_lit()
        d = depth - 1
        c = r.random()
        if c < 0.45:
            return '(%s %s %s)' % (self.flt_expr(d), r.choice(['+', '-', '*', '/']), self.arith_expr(d))
        if c < 0.55:
            return '-(%s)' % self.flt_expr(d)
        if c < 0.7 and self.has('cast'):
            return '(%s)(%s)' % (r.choice(FLTS), self.arith_expr(d))
        if c < 0.8 and self.has('ternary'):
            return '(%s ? %s : %s)' % (self.cond_expr(d), self.flt_expr(d), self.arith_expr(d))
        if c < 0.9:
            call = self.call_expr(lambda t: self.resolve(t)[0] == 'flt', d)
            if call:
                return call
        lv = self.lvalue(lambda t: t[0] == 'flt')
        if lv:
            return '(%s %s %s)' % (lv[0], r.choice(['=', '+=', '-=', '*=', '/='] if self.has('compound_assign') else ['=']),
                                   self.arith_expr(d))
        return self.flt_lit()

    def ptr_any(self, d):
        pl = self.lvalue_any(lambda t: t[0] == 'ptr')
        return pl[0] if pl else None

    def ptr_expr(self, t, depth=2):
        """expression of pointer type t"""
        r = self.r
        tgt = self.resolve(t[1])
        cands = []
        for (e, pt, c) in self.places(2):
            if pt == t:
                cands.append(e)
            if pt == tgt and tgt[0] != 'func' and not ('.' in e and self._is_bitfield(e)):
                cands.append('&%s' % e)
            if pt[0] == 'arr' and self.resolve(pt[1]) == tgt:
                cands.append(e)
                cands.append('&%s[%d]' % (e, r.randint(0, pt[2] - 1)))
        if tgt[0] == 'func':
            for f in self.funcs:
                if self.resolve(f[1]) == self.resolve(tgt[1]) and [self.resolve(x) for x in f[2]] == \
                        [self.resolve(x) for x in tgt[2]] and f[3] == tgt[3]:
                    cands += [f[0], '&' + f[0]]
        if tgt == T_int('char') and self.has('string'):
            cands.append(self.string_lit())
        if tgt[0] == 'void':
            p = self.ptr_any(0)
            if p:
                cands.append(p)
        if not cands or r.random() < 0.15:
            if self.has('cast') and r.random() < 0.5:
                return '(%s)%s' % (self.tname(t), r.choice(['0', '1234', self.ptr_any(0) or '0']))
            return '0'
        e = r.choice(cands)
        if depth > 0 and tgt[0] not in ('func', 'void') and r.random() < 0.3:
            return '(%s %s %s)' % (e, r.choice(['+', '-']), self.int_expr(depth - 1))
        if depth > 0 and self.has('ternary') and r.random() < 0.1:
            return '(%s ? %s : %s)' % (self.cond_expr(0), e, r.choice(cands + ['0']))
        return e

    def _is_bitfield(self, e):
        fn = e.replace('->', '.').split('.')[-1].split('[')[0].rstrip(')')
        for tag, (k, fs) in self.structs.items():
            for (n, t, bits) in fs:
                if n == fn and bits is not None:
                    return True
        return False

    def string_lit(self):
        return self.ch(['"abc"', '""', '"a\\n"', '"x" "y"', '"\\x41\\101\\0z"', '"%d %s\\n"', '"tab\\there"',
                        '"q\\"uote"'])

    def call_expr(self, pred, d):
        r = self.r
        fs = [f for f in self.funcs if pred(f[1])]
        if self.has('fptr') and r.random() < 0.3:
            pl = self.lvalue_any(lambda t: t[0] == 'ptr' and self.resolve(t[1])[0] == 'func' and pred(self.resolve(t[1])[1]))
            if pl:
                ft = self.resolve(self.resolve(pl[1])[1])
                args = [self.expr(x, d) for x in ft[2]]
                if None in args:
                    return None
                return r.choice(['%s(%s)', '(*%s)(%s)']) % (pl[0], ', '.join(args))
        if not fs:
            return None
        f = r.choice(fs)
        args = [self.expr(x, d) for x in f[2]]
        if None in args:
            return None
        if f[3]:
            args += [self.any_expr(d) for _ in range(r.randint(0, 3))]
        return '%s(%s)' % (f[0], ', '.join(args))

    # ---------------------------------------------------------------- initializers
    def init(self, t, const, depth=2):
        """initializer text for type t (const: must be a constant expression)"""
        r = self.r
        t = self.resolve(t)
        k = t[0]
        if k in ('int', 'enum'):
            e = self.const_int(depth) if const else self.int_expr(depth)
            if const and self.has('float') and r.random() < 0.05:
                e = self.flt_lit()
            return '{%s}' % e if r.random() < 0.01 else e
        if k == 'flt':
            if const:
                return r.choice([self.flt_lit(), self.const_int(1), '-' + self.flt_lit(),
                                 '(%s * %s)' % (self.flt_lit(), self.flt_lit())])
            return self.flt_expr(depth)
        if k == 'ptr':
            if const:
                return self.const_ptr(t)
            return self.ptr_expr(t, depth)
        if k == 'arr':
            et = self.resolve(t[1])
            if et[0] == 'int' and et[1] in ('char', 'unsigned char', 'signed char') and self.has('string') and r.random() < 0.5:
                s = 'abcdefgh'[: r.randint(0, max(0, t[2] - 1))]
                return '"%s"' % s if r.random() < 0.8 else '{"%s"}' % s
            if not self.has('initlist'):
                return None
            n = r.randint(0, t[2])
            items = []
            if self.has('designator') and r.random() < 0.3 and t[2] > 0:
                idxs = sorted(r.sample(range(t[2]), min(t[2], r.randint(1, 3))))
                for i in idxs:
                    x = self.init(et, const, depth - 1)
                    if x is None:
                        return None
                    items.append('[%d] = %s' % (i, x))
            else:
                for _ in range(n):
                    x = self.init(et, const, depth - 1)
                    if x is None:
                        return None
                    items.append(x)
            if not items:
                return '{0}' if et[0] in ('int', 'flt', 'ptr', 'enum') else '{}'
            return '{%s%s}' % (', '.join(items), ',' if r.random() < 0.15 else '')
        if k in ('struct', 'union'):
            if not self.has('initlist'):
                return None
            if not const and r.random() < 0.3:
                e = self.expr(t, 1)
                if e:
                    return e
            fs = [f for f in self.structs[t[1]][1] if f[0]]
            if k == 'union':
                fs = fs[:1] if not (self.has('designator') and r.random() < 0.5) else [r.choice(fs)]
                desig = fs and fs[0] is not self.structs[t[1]][1][0]
            else:
                fs = fs[: r.randint(0, len(fs))]
                desig = self.has('designator') and r.random() < 0.35
                if desig:
                    fs = r.sample(fs, len(fs))
            items = []
            for (fn, ft, bits) in fs:
                x = self.init(ft, const, depth - 1)
                if x is None:
                    return None
                items.append(('.%s = %s' % (fn, x)) if desig else x)
            if not items:
                return '{0}'
            return '{%s}' % ', '.join(items)
        return None

    def const_ptr(self, t):
        r = self.r
        tgt = self.resolve(t[1])
        cands = ['0', '(%s)0' % self.tname(t)]
        for (n, gt, c) in self.globals:
            gt = self.resolve(gt)
            if gt == tgt:
                cands.append('&' + n)
            if gt[0] == 'arr' and self.resolve(gt[1]) == tgt:
                cands += [n, '&%s[%d]' % (n, r.randint(0, gt[2] - 1)), '%s + %d' % (n, r.randint(0, gt[2]))]
            if gt[0] in ('struct', 'union'):
                for (fn, ft, bits) in self.structs[gt[1]][1]:
                    if fn and bits is None and self.resolve(ft) == tgt:
                        cands.append('&%s.%s' % (n, fn))
        if tgt[0] == 'func':
            for f in self.funcs:
                if self.resolve(f[1]) == self.resolve(tgt[1]) and [self.resolve(x) for x in f[2]] == \
                        [self.resolve(x) for x in tgt[2]] and f[3] == tgt[3]:
                    cands += [f[0], '&' + f[0]]
        if tgt == T_int('char') and self.has('string'):
            cands += [self.string_lit()] * 2
        return r.choice(cands)

    # ---------------------------------------------------------------- declarations
    def gen_struct(self):
        r = self.r
        kind = 'union' if self.has('union') and r.random() < 0.3 else 'struct'
        tag = self.name('S' if kind == 'struct' else 'U')
        fields = []
        txt = []
        for _ in range(r.randint(1, 5)):
            fn = self.name('f')
            if self.has('bitfield') and r.random() < 0.25 and kind == 'struct':
                bt = r.choice(['int', 'unsigned int', 'unsigned char', 'short', 'unsigned short', 'long', 'signed char'])
                w = r.randint(1, 8 if 'char' in bt else 15)
                if r.random() < 0.1:
                    txt.append('%s : %d;' % (bt, r.choice([0, w])))
                fields.append((fn, ('int', bt), w))
                txt.append('%s %s : %d;' % (bt, fn, w))
                continue
            ft = self.rand_type(2)
            if r.random() < 0.15 and self.has('pointer'):
                ft = T_ptr((kind, tag))
            fields.append((fn, ft, None))
            txt.append(self.decl(ft, fn) + ';')
        self.structs[tag] = (kind, fields)
        self.emit('%s %s { %s };' % (kind, tag, ' '.join(txt)))
        return (kind, tag)

    def gen_enum(self):
        r = self.r
        tag = self.name('E')
        cs = []
        txt = []
        for _ in range(r.randint(1, 5)):
            cn = self.name('K')
            cs.append(cn)
            if r.random() < 0.4:
                txt.append('%s = %s' % (cn, r.choice([str(r.randint(0, 300)), hex(r.randint(0, 4000)), '-%d' % r.randint(1, 100),
                                                      '(%d + %d)' % (r.randint(0, 9), r.randint(0, 9)), '1 << %d' % r.randint(0, 12)])))
            else:
                txt.append(cn)
        self.emit('enum %s { %s%s };' % (tag, ', '.join(txt), ',' if r.random() < 0.2 else ''))
        self.enums[tag] = cs
        self.enum_consts += cs
        return ('enum', tag)

    def gen_typedef(self):
        t = self.rand_type(2)
        n = self.name('T')
        self.emit('typedef %s;' % self.decl(t, n))
        self.typedefs.append((n, self.resolve(t)))

    def var_type(self):
        if self.typedefs and self.p(0.2):
            n, t = self.ch(self.typedefs)
            return ('named', n, t)
        return self.rand_type(2)

    def quals(self, glob):
        r = self.r
        q = ''
        if self.has('static') and r.random() < 0.2:
            q += 'static '
        elif glob and r.random() < 0.05:
            q += 'extern '
        c = False
        if self.has('qualifiers'):
            if r.random() < 0.12:
                q += 'const '
                c = True
            if r.random() < 0.1:
                q += 'volatile '
        return q, c

    def gen_global(self):
        r = self.r
        t = self.var_type()
        n = self.name('g')
        q, c = self.quals(True)
        s = q + self.decl(t, n)
        if 'extern' not in q and r.random() < 0.6:
            i = self.init(t, True)
            if i is not None:
                s += ' = ' + i
        self.emit(s + ';')
        self.globals.append((n, t, c))

    def gen_func_decl(self, variadic=False):
        r = self.r
        n = self.name('fn')
        c = r.random()
        ret = VOID if c < 0.2 else (self.scalar_type() if c < 0.85 or not self.structs else
                                    (lambda tag: (self.structs[tag][0], tag))(self.ch(sorted(self.structs))))
        ps = [self.scalar_type() if r.random() < 0.85 or not self.structs else
              (lambda tag: (self.structs[tag][0], tag))(self.ch(sorted(self.structs)))
              for _ in range(r.randint(1 if variadic else 0, 4))]
        return (n, ret, ps, variadic)

    def gen_function(self):
        r = self.r
        f = self.gen_func_decl(variadic=False)
        n, ret, ps, va = f
        names = [self.name('p') for _ in ps]
        self.funcs.append(f)      # recursion allowed
        q = 'static ' if self.has('static') and r.random() < 0.15 else ''
        params = ', '.join(self.decl(t, pn) for t, pn in zip(ps, names)) or r.choice(['void', ''])
        self.emit('%s%s {' % (q, self.decl(ret, '%s(%s)' % (n, params))))
        self.scopes = [[(pn, t, False) for t, pn in zip(ps, names)]]
        self.labels, self.gotos, self.loop, self.in_switch, self.ret = [], set(), 0, 0, ret
        if self.resolve(ret)[0] in ('struct', 'union'):
            self.emit('%s;' % self.decl(ret, 'rv%d' % self.n), 1)
            self.scopes[0].append(('rv%d' % self.n, ret, False))
        for _ in range(r.randint(1, 2 + 2 * self.size)):
            self.stmt(1, 3)
        for lb in sorted(self.gotos - set(self.labels)):
            self.emit('%s: ;' % lb, 1)
        if ret != VOID and r.random() < 0.9:
            self.emit('return %s;' % (self.expr(ret, 2) or '0'), 1)
        self.emit('}')
        self.scopes = []

    # ---------------------------------------------------------------- statements
    def local_decl(self, ind):
        r = self.r
        t = self.var_type()
        if self.resolve(t)[0] == 'func':
            return
        n = self.name('v')
        st = self.has('static') and r.random() < 0.1
        c = self.has('qualifiers') and r.random() < 0.08
        s = ('static ' if st else '') + ('const ' if c else '') + self.decl(t, n)
        if r.random() < 0.7 or c:
            i = self.init(t, st)
            if i is not None:
                s += ' = ' + i
        self.emit(s + ';', ind)
        self.scopes[-1].append((n, t, c))

    def stmt(self, ind, depth, nodecl=False):
        r = self.r
        c = r.random()
        if depth <= 0:
            c = c * 0.45
        if nodecl and c < 0.15:
            c += 0.15
        if c < 0.15:
            return self.local_decl(ind)
        if c < 0.40:
            lv = self.lvalue(is_scalar)
            if lv:
                return self.emit('%s = %s;' % (lv[0], self.expr(lv[1], 3) or '0'), ind)
            return self.emit('%s;' % self.int_expr(2), ind)
        if c < 0.45:
            if self.has('structcopy'):
                lv = self.lvalue(lambda t: t[0] in ('struct', 'union'))
                if lv:
                    e = self.expr(lv[1], 1)
                    if e:
                        return self.emit('%s = %s;' % (lv[0], e), ind)
            call = self.call_expr(lambda t: True, 2)
            return self.emit('%s;' % (call or self.any_expr(2)), ind)
        if c < 0.55:
            self.emit('if (%s) {' % self.cond_expr(2), ind)
            self.block(ind + 1, depth - 1)
            if r.random() < 0.4:
                self.emit('} else {', ind)
                self.block(ind + 1, depth - 1)
            return self.emit('}', ind)
        if c < 0.62:
            self.emit('while (%s) {' % self.cond_expr(2), ind)
            self.loop += 1
            self.block(ind + 1, depth - 1)
            self.loop -= 1
            return self.emit('}', ind)
        if c < 0.67 and self.has('dowhile'):
            self.emit('do {', ind)
            self.loop += 1
            self.block(ind + 1, depth - 1)
            self.loop -= 1
            return self.emit('} while (%s);' % self.cond_expr(2), ind)
        if c < 0.75:
            self.scopes.append([])
            if self.has('for_decl') and r.random() < 0.4:
                iv = self.name('i')
                init = 'int %s = %s' % (iv, self.int_expr(1))
                self.scopes[-1].append((iv, T_int(), False))
            else:
                lv = self.lvalue(is_int)
                init = '%s = %s' % (lv[0], self.int_expr(1)) if lv and r.random() < 0.8 else ''
            cond = self.cond_expr(2) if r.random() < 0.85 else ''
            lv = self.lvalue(is_int)
            post = (r.choice(['%s++', '++%s', '%s--', '%s += 2']) % lv[0]) if lv and r.random() < 0.85 else ''
            self.emit('for (%s; %s; %s) {' % (init, cond, post), ind)
            self.loop += 1
            self.block(ind + 1, depth - 1)
            self.loop -= 1
            self.scopes.pop()
            return self.emit('}', ind)
        if c < 0.83 and self.has('switch'):
            return self.switch(ind, depth)
        if c < 0.87 and self.has('goto'):
            if r.random() < 0.5 or not self.labels:
                lb = self.name('L')
                self.labels.append(lb)
                self.emit('%s:' % lb, ind)
                return self.stmt(ind, 0, nodecl=True)
            lb = r.choice(self.labels + [self.name('L')]) if r.random() < 0.7 else self.name('L')
            self.gotos.add(lb)
            return self.emit('goto %s;' % lb, ind)
        if c < 0.91 and (self.loop or self.in_switch):
            if self.loop and r.random() < 0.4:
                return self.emit('continue;', ind)
            return self.emit('break;', ind)
        if c < 0.95:
            if self.ret == VOID:
                return self.emit('return;', ind)
            return self.emit('return %s;' % (self.expr(self.ret, 2) or '0'), ind)
        if c < 0.97:
            return self.emit(';', ind)
        self.emit('{', ind)
        self.block(ind + 1, depth - 1)
        self.emit('}', ind)

    def block(self, ind, depth):
        self.scopes.append([])
        for _ in range(self.r.randint(0, 3)):
            self.stmt(ind, depth)
        self.scopes.pop()

    def switch(self, ind, depth):
        r = self.r
        self.emit('switch (%s) {' % self.int_expr(2), ind)
        self.in_switch += 1
        used = set()
        dflt = False
        self.scopes.append([])
        for _ in range(r.randint(0, 5)):
            c = r.random()
            if c < 0.12 and not dflt:
                dflt = True
                self.emit('default:', ind)
            else:
                v = r.choice([r.randint(-3, 12), r.randint(-1000, 30000), 0, 255, 30000])
                if v in used or any(v <= x <= v + 3 for x in used):
                    continue
                if self.has('range_case') and r.random() < 0.1:
                    used.update(range(v, v + 4))
                    self.emit('case %d ... %d:' % (v, v + 3), ind)
                else:
                    used.add(v)
                    txt = str(v) if v < 0 or r.random() < 0.6 else r.choice(
                        [hex(v), '(%d + %d)' % (v - 1, 1), '%d * 1' % v, '(%d << 1) / 2' % v, '%dL' % v, '(char)0 + %d' % v])
                    self.emit('case %s:' % txt, ind)
            for j in range(r.randint(0, 2)):
                self.stmt(ind + 1, depth - 1, nodecl=(j == 0))
            if r.random() < 0.7:
                self.emit('break;', ind + 1)
        self.emit(';', ind + 1)
        self.scopes.pop()
        self.in_switch -= 1
        self.emit('}', ind)

    # ---------------------------------------------------------------- program
    def program(self):
        r = self.r
        if self.has('preproc') and r.random() < 0.5:
            self.emit('#define M0 %d' % r.randint(0, 9))
            self.emit('#define MAX(a, b) ((a) > (b) ? (a) : (b))')
            self.emit('#if M0 > 4 && defined(M0)')
            self.emit('typedef int T_pp;')
            self.emit('#else')
            self.emit('typedef unsigned T_pp;')
            self.emit('#endif')
            self.typedefs.append(('T_pp', T_int()))
        n = 2 + 2 * self.size
        for _ in range(n):
            c = r.random()
            if c < 0.22 and (self.has('struct') or self.has('union')):
                self.gen_struct()
            elif c < 0.30 and self.has('enum'):
                self.gen_enum()
            elif c < 0.40 and self.has('typedef'):
                self.gen_typedef()
            elif c < 0.75:
                self.gen_global()
            elif c < 0.82:
                f = self.gen_func_decl(variadic=self.has('variadic') and r.random() < 0.5)
                ps = ', '.join(self.decl(t, '') for t in f[2]) or 'void'
                self.emit('%s;' % self.decl(f[1], '%s(%s%s)' % (f[0], ps, ', ...' if f[3] else '')))
                self.funcs.append(f)
            else:
                self.gen_function()
        for _ in range(1 + self.size // 2):
            self.gen_function()
        return '\n'.join(self.lines) + '\n'


def gen_c(rng, size=None, feats=None):
    if size is None:
        size = rng.choice([1, 2, 2, 3, 3, 4])
    if feats is None:
        feats = [f for f in ALL_FEATURES if rng.random() < 0.85]
    return CGen(rng, feats, size).program()
